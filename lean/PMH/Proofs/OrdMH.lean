import PMH.Model.OrdMinHash
import PMH.Props.C15
import PMH.Props.C17
import Mathlib.Algebra.Order.Field.Basic
import Mathlib.Data.List.Basic
import Mathlib.Data.List.Perm.Basic
import Mathlib.Data.List.Nodup
import Mathlib.Data.List.Range
import Mathlib.Data.List.Induction
import Mathlib.Order.Basic
import Mathlib.Data.List.Count
/-!
# Order-min-hash (`PMH.OrdMH`, model of `ProbOrdMinHash2::hash_set`): proofs

Exact arithmetic: scalar `K` an ordered field; a *total* random source `TOps`.

1. `elemPts` — the unpruned point stream of one element; `elemPts_mono`, `elemPts_slots_distinct`.
2. `lSmallest` / `BlockSpec` — the `l` smallest `(value, index)` pairs of a slot, ties by insertion order.
3. `update_spec` — `update_with_maxtracker` refines `BlockSpec` and keeps the tracker leaf.
4. `elemLoop_spec` / `elem_spec` / `setLoop_spec` / `hashSet_spec` — every block holds the `l` smallest of ALL
   points of ALL elements on its slot (pruned points are dominated).
5. `selection_order_free` (C11), `l1_selected_hash_invariant`.
6. `sorted_indices`, `no_bad_index`.
7. `hashSet_self_clearing` (C13/C12).
-/

/-! ###
# Order-min-hash (`PMH.OrdMH`): shared definitions of the proof development

A *total* random source `TOps`, the unpruned point stream `elemPts` of one element and the
occurrence labelling `labels` of a sequence.
-/
namespace PMH.OrdP
open PMH PMH.OrdMH

/-- a total source: `fe` = one `Exp1` draw, `fu` = one raw word for the shuffle -/
structure TOps (K G : Type) where
  fe : G → K × G
  fu : G → UInt64 × G
  offsetOf : UInt64 → Nat → Nat
  mkGen : UInt64 → UInt64 → UInt64 → G

def TOps.toOps {K G : Type} (t : TOps K G) : OrdOps K G :=
  { nextE := fun g => .ok (t.fe g), nextU := t.fu, offsetOf := t.offsetOf, mkGen := t.mkGen }

/-- draws are non-negative, offsets are in range -/
def Nice {K G : Type} [Zero K] [LE K] (t : TOps K G) : Prop :=
  (∀ g, 0 ≤ (t.fe g).1) ∧ (∀ u n, 0 < n → t.offsetOf u n < n)

/-- the freshly reset shuffle of size `m` -/
def fy0 (m : Nat) : FY := ⟨m, Array.range m, 0⟩

theorem reset_eq_fy0 (s : FY) : s.reset = fy0 s.m := rfl

section Pts
variable {K G : Type} [Add K] [Mul K] [Zero K]

/-- the next `n` points of element `i` in the UNPRUNED process: shuffle state `fy`, current value
`x`, `j` points already produced, generator `g`.  Per point: `fu` for the slot, then `fe` for the
next increment (the increment drawn after the last point is never used: `ptsFrom … 0 … = []`). -/
def ptsFrom (t : TOps K G) (gvec : Array K) (i : Nat) : Nat → FY → K → Nat → G → List (Nat × K × Nat)
  | 0, _, _, _, _ => []
  | n + 1, fy, x, j, g =>
    match fy.nextOff (t.offsetOf (t.fu g).1 (fy.m - fy.cursor)) with
    | .error _ => []
    | .ok (k, fy') =>
      (k, x, i) :: ptsFrom t gvec i n fy' (x + (t.fe (t.fu g).2).1 * gvec.getD j 0) (j + 1) (t.fe (t.fu g).2).2

/-- ALL (up to `m`) points `(slot_j, x_j, i)` of the element with index `i` and generator `g` -/
def elemPts (t : TOps K G) (m : Nat) (gvec : Array K) (g : G) (i : Nat) : List (Nat × K × Nat) :=
  ptsFrom t gvec i m (fy0 m) (t.fe g).1 0 (t.fe g).2

end Pts

/-- occurrence labelling, exactly as `setLoop` threads `bump`: element `i` ↦ `(hash, occurrence number)` -/
def labelsFrom : List (UInt64 × Nat) → List UInt64 → List (UInt64 × Nat)
  | _, [] => []
  | cnt, h :: rest => (h, (bump cnt h).2) :: labelsFrom (bump cnt h).1 rest

def labels (hs : List UInt64) : List (UInt64 × Nat) := labelsFrom [] hs

end PMH.OrdP

/-! ###
# Order-min-hash: `sortBlock` is an insertion sort; occurrence labelling `labels`

Part A: `sortBlock l` is a sorted permutation of `l`.
Part B: `labels hs` has at position `i` the pair `(hs[i], #occurrences of hs[i] in hs[0..i])`;
it is duplicate-free and permutation-equivariant.  A counter matters only through `look`.
-/
namespace PMH.OrdP
open PMH PMH.OrdMH

/-! ## Part A -/
/-- one insertion step of `sortBlock` -/
def ins (x : Nat) (acc : List Nat) : List Nat :=
  (acc.takeWhile (· < x)) ++ x :: acc.dropWhile (· < x)

theorem sortBlock_cons (x : Nat) (l : List Nat) : sortBlock (x :: l) = ins x (sortBlock l) := rfl
theorem sortBlock_nil : sortBlock [] = [] := rfl

theorem ins_perm (x : Nat) (acc : List Nat) : (ins x acc).Perm (x :: acc) := by
  unfold ins
  refine List.perm_middle.trans ?_
  rw [List.takeWhile_append_dropWhile]

theorem ins_nil (x : Nat) : ins x [] = [x] := rfl
theorem ins_cons (x a : Nat) (acc : List Nat) :
    ins x (a :: acc) = if a < x then a :: ins x acc else x :: a :: acc := by
  unfold ins
  by_cases h : a < x <;> simp [h]

theorem ins_sorted (x : Nat) (acc : List Nat) (h : acc.Pairwise (· ≤ ·)) :
    (ins x acc).Pairwise (· ≤ ·) := by
  induction acc with
  | nil => simp [ins_nil]
  | cons a acc ih =>
    rw [ins_cons]
    rw [List.pairwise_cons] at h
    split
    · rename_i hax
      rw [List.pairwise_cons]
      refine ⟨?_, ih h.2⟩
      intro y hy
      rcases (List.mem_cons.1 ((ins_perm x acc).mem_iff.1 hy)) with rfl | hy
      · exact Nat.le_of_lt hax
      · exact h.1 y hy
    · rename_i hax
      have hxa : x ≤ a := Nat.le_of_not_lt hax
      rw [List.pairwise_cons]
      refine ⟨?_, List.pairwise_cons.2 h⟩
      intro y hy
      rcases List.mem_cons.1 hy with rfl | hy
      · exact hxa
      · exact Nat.le_trans hxa (h.1 y hy)

theorem sortBlock_perm (l : List Nat) : (sortBlock l).Perm l := by
  induction l with
  | nil => exact List.Perm.refl _
  | cons x l ih => rw [sortBlock_cons]; exact (ins_perm x _).trans (ih.cons x)

theorem sortBlock_sorted (l : List Nat) : (sortBlock l).Pairwise (· ≤ ·) := by
  induction l with
  | nil => exact List.Pairwise.nil
  | cons x l ih => rw [sortBlock_cons]; exact ins_sorted x _ ih

theorem sortBlock_length (l : List Nat) : (sortBlock l).length = l.length :=
  (sortBlock_perm l).length_eq

theorem mem_sortBlock (l : List Nat) (x : Nat) : x ∈ sortBlock l ↔ x ∈ l :=
  (sortBlock_perm l).mem_iff

/-! ## Part B -/
/-- lookup function of a counter (0 when absent) -/
def look (cnt : List (UInt64 × Nat)) (h : UInt64) : Nat :=
  match cnt.find? (fun p => p.1 == h) with
  | some (_, n) => n
  | none => 0

theorem bump_snd (cnt : List (UInt64 × Nat)) (h : UInt64) : (bump cnt h).2 = look cnt h + 1 := by
  unfold bump look
  cases cnt.find? (fun p => p.1 == h) with
  | none => rfl
  | some kn => rfl

theorem look_bump (cnt : List (UInt64 × Nat)) (h h' : UInt64) :
    look (bump cnt h).1 h' = if h' = h then look cnt h + 1 else look cnt h' := by
  cases hf : cnt.find? (fun p => p.1 == h) with
  | none =>
    have h1 : (bump cnt h).1 = (h, 1) :: cnt := by unfold bump; rw [hf]
    have h2 : look cnt h = 0 := by unfold look; rw [hf]
    rw [h1, h2]
    by_cases hh : h' = h
    · subst hh; simp [look]
    · have : (h == h') = false := by simp [Ne.symm hh]
      simp [look, this, hh]
  | some kn =>
    obtain ⟨k, n⟩ := kn
    have hk : k = h := by simpa using List.find?_some hf
    subst hk
    have h1 : (bump cnt k).1 = cnt.map (fun p => if p.1 == k then (p.1, n + 1) else p) := by
      unfold bump; rw [hf]
    have h2 : look cnt k = n := by unfold look; rw [hf]
    have hcomp : ((fun p : UInt64 × Nat => p.1 == h') ∘ (fun p => if p.1 == k then (p.1, n + 1) else p))
        = (fun p : UInt64 × Nat => p.1 == h') := by
      funext p; simp only [Function.comp]; split <;> rfl
    rw [h1, h2]
    unfold look
    rw [List.find?_map, hcomp]
    by_cases hh : h' = k
    · subst hh; rw [hf]; simp
    · cases hf' : cnt.find? (fun p => p.1 == h') with
      | none => simp [hh]
      | some kn' =>
        obtain ⟨k', n'⟩ := kn'
        have hk' : k' = h' := by simpa using List.find?_some hf'
        subst hk'
        simp [hh]


theorem labelsFrom_length (cnt) (hs : List UInt64) : (labelsFrom cnt hs).length = hs.length := by
  induction hs generalizing cnt with
  | nil => rfl
  | cons h rest ih => simp [labelsFrom, ih]

theorem labelsFrom_map_fst (cnt) (hs : List UInt64) : (labelsFrom cnt hs).map Prod.fst = hs := by
  induction hs generalizing cnt with
  | nil => rfl
  | cons h rest ih => simp [labelsFrom, ih]

/-- generalised closed form -/
theorem labelsFrom_getElem (cnt) (hs : List UInt64) (i : Nat) (hi : i < hs.length) :
    (labelsFrom cnt hs)[i]'(by rw [labelsFrom_length]; exact hi)
      = (hs[i], look cnt hs[i] + (hs.take (i+1)).count hs[i]) := by
  induction hs generalizing cnt i with
  | nil => simp at hi
  | cons h rest ih =>
    cases i with
    | zero => simp [labelsFrom, bump_snd]
    | succ i =>
      have hi' : i < rest.length := by simpa using hi
      simp only [labelsFrom, List.getElem_cons_succ, List.take_succ_cons]
      rw [ih _ i hi', look_bump, List.count_cons]
      by_cases hh : rest[i] = h
      · simp [hh]; omega
      · have : (h == rest[i]) = false := by simp [Ne.symm hh]
        simp [hh, this]

theorem labelsFrom_congr (c1 c2 : List (UInt64 × Nat)) (hc : ∀ h, look c1 h = look c2 h)
    (hs : List UInt64) : labelsFrom c1 hs = labelsFrom c2 hs := by
  apply List.ext_getElem
  · rw [labelsFrom_length, labelsFrom_length]
  · intro i h1 h2
    have hi : i < hs.length := by rwa [labelsFrom_length] at h1
    rw [labelsFrom_getElem c1 hs i hi, labelsFrom_getElem c2 hs i hi, hc]

theorem labelsFrom_snd_gt (cnt) (hs : List UInt64) (p : UInt64 × Nat)
    (hp : p ∈ labelsFrom cnt hs) : look cnt p.1 < p.2 := by
  induction hs generalizing cnt with
  | nil => simp [labelsFrom] at hp
  | cons h rest ih =>
    simp only [labelsFrom, List.mem_cons] at hp
    rcases hp with rfl | hp
    · simp [bump_snd]
    · have := ih _ hp
      rw [look_bump] at this
      by_cases hh : p.1 = h
      · rw [if_pos hh] at this; rw [hh]; omega
      · rw [if_neg hh] at this; exact this

theorem labelsFrom_nodup (cnt) (hs : List UInt64) : (labelsFrom cnt hs).Nodup := by
  induction hs generalizing cnt with
  | nil => simp [labelsFrom]
  | cons h rest ih =>
    simp only [labelsFrom, List.nodup_cons]
    refine ⟨?_, ih _⟩
    intro hmem
    have := labelsFrom_snd_gt _ _ _ hmem
    simp [look_bump, bump_snd] at this

theorem labels_nodup (hs : List UInt64) : (labels hs).Nodup := labelsFrom_nodup [] hs

theorem labelsFrom_perm (cnt) (hs hs' : List UInt64) (h : hs.Perm hs') :
    (labelsFrom cnt hs).Perm (labelsFrom cnt hs') := by
  induction h generalizing cnt with
  | nil => exact List.Perm.refl _
  | cons a _ ih => simp only [labelsFrom]; exact (ih _).cons _
  | swap a b l =>
    by_cases hab : a = b
    · subst hab; exact List.Perm.refl _
    · simp only [labelsFrom, bump_snd, look_bump, if_neg hab, if_neg (Ne.symm hab)]
      rw [labelsFrom_congr (bump (bump cnt b).1 a).1 (bump (bump cnt a).1 b).1 ?_ l]
      · exact List.Perm.swap _ _ _
      · intro h'
        simp only [look_bump, if_neg hab, if_neg (Ne.symm hab)]
        by_cases h1 : h' = a
        · subst h1; simp [hab]
        · simp [h1]
  | trans _ _ ih1 ih2 => exact (ih1 cnt).trans (ih2 cnt)

theorem labels_perm (hs hs' : List UInt64) (h : hs.Perm hs') : (labels hs).Perm (labels hs') :=
  labelsFrom_perm [] hs hs' h

theorem look_nil (h : UInt64) : look [] h = 0 := rfl

/-- closed form -/
theorem labels_getElem (hs : List UInt64) (i : Nat) (hi : i < hs.length) :
    (labels hs)[i]'(by rw [labels, labelsFrom_length]; exact hi) = (hs[i], (hs.take (i+1)).count hs[i]) := by
  have := labelsFrom_getElem [] hs i hi
  simpa [labels, look_nil] using this

end PMH.OrdP

/-! ###
# Order-min-hash: the unpruned point stream `ptsFrom` / `elemPts` of one element

* `FYMid m pre fy` : the shuffle state `fy` is `pre.length` draws into a block after a reset and
  `pre` is the list of slots drawn so far (in order).
* `FYMid.step` : one more draw with an in-range (`Nice`) offset succeeds, returns a NEW slot `< m`.
* general (mid-stream) facts about `ptsFrom`, then the `elemPts` corollaries.
-/
namespace PMH.OrdP
open PMH PMH.OrdMH

/-! ### the shuffle-state invariant -/

/-- `fy` is `pre.length` draws into a block after a reset; `pre` = slots already drawn (in order):
the array spells `pre ++ rest`, which is a permutation of `0..m-1`, and the cursor is `pre.length`. -/
def FYMid (m : Nat) (pre : List Nat) (fy : FY) : Prop :=
  fy.m = m ∧ fy.lastidx = pre.length ∧
    ∃ rest, fy.v.toList = pre ++ rest ∧ (pre ++ rest).Perm (List.range m)

theorem fyMid_fy0 (m : Nat) : FYMid m [] (fy0 m) :=
  ⟨rfl, rfl, List.range m, by simp [fy0], by simp⟩

theorem FYMid.m_eq {m : Nat} {pre : List Nat} {fy : FY} (h : FYMid m pre fy) : fy.m = m := h.1

theorem FYMid.lastidx_eq {m : Nat} {pre : List Nat} {fy : FY} (h : FYMid m pre fy) :
    fy.lastidx = pre.length := h.2.1

theorem FYMid.length_le {m : Nat} {pre : List Nat} {fy : FY} (h : FYMid m pre fy) :
    pre.length ≤ m := by
  obtain ⟨_, _, rest, _, hp⟩ := h
  have := hp.length_eq
  simp at this; omega

theorem FYMid.nodup {m : Nat} {pre : List Nat} {fy : FY} (h : FYMid m pre fy) : pre.Nodup := by
  obtain ⟨_, _, rest, _, hp⟩ := h
  have := hp.nodup_iff.mpr List.nodup_range
  exact (List.nodup_append.mp this).1

theorem FYMid.lt {m : Nat} {pre : List Nat} {fy : FY} (h : FYMid m pre fy) : ∀ k ∈ pre, k < m := by
  obtain ⟨_, _, rest, _, hp⟩ := h
  intro k hk
  have := hp.subset (List.mem_append_left _ hk)
  simpa using this

/-- a complete block is a permutation of `0..m-1` -/
theorem FYMid.perm_of_length {m : Nat} {pre : List Nat} {fy : FY} (h : FYMid m pre fy)
    (hl : pre.length = m) : pre.Perm (List.range m) := by
  obtain ⟨_, _, rest, _, hp⟩ := h
  have := hp.length_eq
  simp at this
  have hr : rest = [] := List.length_eq_zero_iff.mp (by omega)
  subst hr
  simpa using hp

theorem FYMid.inv {m : Nat} {pre : List Nat} {fy : FY} (h : FYMid m pre fy) : C17.Inv fy := by
  obtain ⟨hm, _, rest, hv, hp⟩ := h
  unfold C17.Inv
  rw [hv, hm]; exact hp

theorem FYMid.cursor_eq {m : Nat} {pre : List Nat} {fy : FY} (h : FYMid m pre fy)
    (hlt : pre.length < m) : fy.cursor = pre.length := by
  unfold FY.cursor
  rw [h.2.1, h.1]
  simp; omega

section Step
variable {K G : Type} [Zero K] [LE K]

/-- **step lemma**: mid-block (`pre.length < m`) a draw with the source's offset succeeds, the new
state is `FYMid` for `pre ++ [k]`, and the slot `k` is `< m` and NEW. -/
theorem FYMid.step (t : TOps K G) (hn : Nice t) {m : Nat} {pre : List Nat} {fy : FY}
    (h : FYMid m pre fy) (hlt : pre.length < m) (u : UInt64) :
    ∃ k fy', fy.nextOff (t.offsetOf u (fy.m - fy.cursor)) = .ok (k, fy') ∧
      FYMid m (pre ++ [k]) fy' ∧ k < m ∧ k ∉ pre := by
  have hcur := h.cursor_eq hlt
  obtain ⟨hm, hl, rest, hv, hp⟩ := h
  have hlen : pre.length + rest.length = m := by simpa using hp.length_eq
  cases rest with
  | nil => simp at hlen; omega
  | cons x xs =>
    have hlen' : pre.length + (xs.length + 1) = m := by simpa using hlen
    have hoff : t.offsetOf u (fy.m - fy.cursor) < xs.length + 1 := by
      have := hn.2 u (fy.m - fy.cursor) (by rw [hm, hcur]; omega)
      rw [hm, hcur] at this ⊢
      omega
    obtain ⟨s', e, v', l', m'⟩ := FYP.nextOff_step fy pre x xs _ hv hcur hoff
    have hsp := FYL.step_perm x xs _ hoff
    have hmem : FYL.pick x xs (t.offsetOf u (fy.m - fy.cursor)) ∈ x :: xs :=
      hsp.subset List.mem_cons_self
    refine ⟨_, s', e, ⟨m'.trans hm, by simp [l'],
      FYL.nextRest x xs (t.offsetOf u (fy.m - fy.cursor)), by simp [v'], ?_⟩, ?_, ?_⟩
    · refine List.Perm.trans ?_ hp
      rw [List.append_assoc]
      exact List.Perm.append_left _ (by simpa using hsp)
    · have := hp.subset (List.mem_append_right _ hmem)
      simpa using this
    · have hnd := hp.nodup_iff.mpr List.nodup_range
      intro hk
      exact (List.disjoint_of_nodup_append hnd) hk hmem

end Step

/-! ### structural facts about `ptsFrom` (no order needed) -/
section Struct
variable {K G : Type} [Add K] [Mul K] [Zero K]

@[simp] theorem ptsFrom_zero (t : TOps K G) (gvec : Array K) (i : Nat) (fy : FY) (x : K) (j : Nat)
    (g : G) : ptsFrom t gvec i 0 fy x j g = [] := rfl

/-- the unfolding lemma -/
theorem ptsFrom_succ_of_ok (t : TOps K G) (gvec : Array K) (i n : Nat) (fy : FY) (x : K) (j : Nat)
    (g : G) (k : Nat) (fy' : FY)
    (h : fy.nextOff (t.offsetOf (t.fu g).1 (fy.m - fy.cursor)) = .ok (k, fy')) :
    ptsFrom t gvec i (n + 1) fy x j g =
      (k, x, i) :: ptsFrom t gvec i n fy' (x + (t.fe (t.fu g).2).1 * gvec.getD j 0) (j + 1)
        (t.fe (t.fu g).2).2 := by
  rw [ptsFrom, h]

theorem ptsFrom_succ_of_error (t : TOps K G) (gvec : Array K) (i n : Nat) (fy : FY) (x : K) (j : Nat)
    (g : G) (e : Err)
    (h : fy.nextOff (t.offsetOf (t.fu g).1 (fy.m - fy.cursor)) = .error e) :
    ptsFrom t gvec i (n + 1) fy x j g = [] := by
  rw [ptsFrom, h]

/-- case split used by all inductions -/
theorem ptsFrom_succ_cases (t : TOps K G) (gvec : Array K) (i n : Nat) (fy : FY) (x : K) (j : Nat)
    (g : G) :
    ptsFrom t gvec i (n + 1) fy x j g = [] ∨
    ∃ k fy', fy.nextOff (t.offsetOf (t.fu g).1 (fy.m - fy.cursor)) = .ok (k, fy') ∧
      ptsFrom t gvec i (n + 1) fy x j g =
        (k, x, i) :: ptsFrom t gvec i n fy' (x + (t.fe (t.fu g).2).1 * gvec.getD j 0) (j + 1)
          (t.fe (t.fu g).2).2 := by
  cases h : fy.nextOff (t.offsetOf (t.fu g).1 (fy.m - fy.cursor)) with
  | error e => exact Or.inl (ptsFrom_succ_of_error t gvec i n fy x j g e h)
  | ok p =>
    obtain ⟨k, fy'⟩ := p
    exact Or.inr ⟨k, fy', rfl, ptsFrom_succ_of_ok t gvec i n fy x j g k fy' h⟩

theorem ptsFrom_length_le (t : TOps K G) (gvec : Array K) (i : Nat) :
    ∀ (n : Nat) (fy : FY) (x : K) (j : Nat) (g : G), (ptsFrom t gvec i n fy x j g).length ≤ n := by
  intro n
  induction n with
  | zero => intro fy x j g; simp
  | succ n ih =>
    intro fy x j g
    rcases ptsFrom_succ_cases t gvec i n fy x j g with h | ⟨k, fy', _, h⟩
    · rw [h]; simp
    · rw [h]; simpa using ih _ _ _ _

theorem ptsFrom_idx (t : TOps K G) (gvec : Array K) (i : Nat) :
    ∀ (n : Nat) (fy : FY) (x : K) (j : Nat) (g : G), ∀ p ∈ ptsFrom t gvec i n fy x j g, p.2.2 = i := by
  intro n
  induction n with
  | zero => intro fy x j g p hp; simp at hp
  | succ n ih =>
    intro fy x j g p hp
    rcases ptsFrom_succ_cases t gvec i n fy x j g with h | ⟨k, fy', _, h⟩
    · rw [h] at hp; simp at hp
    · rw [h] at hp
      rcases List.mem_cons.mp hp with rfl | hp
      · rfl
      · exact ih _ _ _ _ p hp

/-- the index does not influence slots and values -/
theorem ptsFrom_reindex (t : TOps K G) (gvec : Array K) (i i' : Nat) :
    ∀ (n : Nat) (fy : FY) (x : K) (j : Nat) (g : G),
      (ptsFrom t gvec i n fy x j g).map (fun p => (p.1, p.2.1)) =
        (ptsFrom t gvec i' n fy x j g).map (fun p => (p.1, p.2.1)) := by
  intro n
  induction n with
  | zero => intro fy x j g; rfl
  | succ n ih =>
    intro fy x j g
    cases h : fy.nextOff (t.offsetOf (t.fu g).1 (fy.m - fy.cursor)) with
    | error e =>
      rw [ptsFrom_succ_of_error t gvec i n fy x j g e h, ptsFrom_succ_of_error t gvec i' n fy x j g e h]
    | ok p =>
      obtain ⟨k, fy'⟩ := p
      rw [ptsFrom_succ_of_ok t gvec i n fy x j g k fy' h, ptsFrom_succ_of_ok t gvec i' n fy x j g k fy' h]
      simp only [List.map_cons, ih]

/-! ### slot facts (need only `Nice`) -/
section Slots
variable [LE K]

/-- mid-stream unfolding: under `FYMid` with room left the draw succeeds with a NEW slot -/
theorem ptsFrom_succ_mid (t : TOps K G) (hn : Nice t) (gvec : Array K) (i n : Nat) {m : Nat}
    {pre : List Nat} {fy : FY} (h : FYMid m pre fy) (hlt : pre.length < m) (x : K) (j : Nat) (g : G) :
    ∃ k fy', fy.nextOff (t.offsetOf (t.fu g).1 (fy.m - fy.cursor)) = .ok (k, fy') ∧
      FYMid m (pre ++ [k]) fy' ∧ k < m ∧ k ∉ pre ∧
      ptsFrom t gvec i (n + 1) fy x j g =
        (k, x, i) :: ptsFrom t gvec i n fy' (x + (t.fe (t.fu g).2).1 * gvec.getD j 0) (j + 1)
          (t.fe (t.fu g).2).2 := by
  obtain ⟨k, fy', e, hmid, hk, hnk⟩ := h.step t hn hlt (t.fu g).1
  exact ⟨k, fy', e, hmid, hk, hnk, ptsFrom_succ_of_ok t gvec i n fy x j g k fy' e⟩

/-- with room for `n` more draws, exactly `n` points are produced -/
theorem ptsFrom_length (t : TOps K G) (hn : Nice t) (gvec : Array K) (i m : Nat) :
    ∀ (n : Nat) (pre : List Nat) (fy : FY) (x : K) (j : Nat) (g : G), FYMid m pre fy →
      pre.length + n ≤ m → (ptsFrom t gvec i n fy x j g).length = n := by
  intro n
  induction n with
  | zero => intro pre fy x j g _ _; rfl
  | succ n ih =>
    intro pre fy x j g h hl
    obtain ⟨k, fy', _, hmid, _, _, e⟩ := ptsFrom_succ_mid t hn gvec i n h (by omega) x j g
    rw [e, List.length_cons, ih (pre ++ [k]) fy' _ _ _ hmid (by simp; omega)]

/-- **master slot lemma**: the slots drawn so far followed by the slots of the next `n` points are
again the drawn-prefix of a valid mid-block shuffle state; hence (`FYMid.nodup`, `FYMid.lt`,
`FYMid.perm_of_length`) they are distinct, new, `< m` and, for a complete block, a permutation. -/
theorem ptsFrom_slots_mid (t : TOps K G) (hn : Nice t) (gvec : Array K) (i m : Nat) :
    ∀ (n : Nat) (pre : List Nat) (fy : FY) (x : K) (j : Nat) (g : G), FYMid m pre fy →
      pre.length + n ≤ m →
      ∃ fy', FYMid m (pre ++ (ptsFrom t gvec i n fy x j g).map (·.1)) fy' := by
  intro n
  induction n with
  | zero => intro pre fy x j g h _; exact ⟨fy, by simpa using h⟩
  | succ n ih =>
    intro pre fy x j g h hl
    obtain ⟨k, fy', _, hmid, _, _, e⟩ := ptsFrom_succ_mid t hn gvec i n h (by omega) x j g
    obtain ⟨fy'', h''⟩ := ih (pre ++ [k]) fy' (x + (t.fe (t.fu g).2).1 * gvec.getD j 0) (j + 1)
      (t.fe (t.fu g).2).2 hmid (by simp; omega)
    refine ⟨fy'', ?_⟩
    rw [e]
    simpa using h''

theorem ptsFrom_slots_nodup (t : TOps K G) (hn : Nice t) (gvec : Array K) (i m n : Nat)
    (pre : List Nat) (fy : FY) (x : K) (j : Nat) (g : G) (h : FYMid m pre fy)
    (hl : pre.length + n ≤ m) : ((ptsFrom t gvec i n fy x j g).map (·.1)).Nodup := by
  obtain ⟨fy', h'⟩ := ptsFrom_slots_mid t hn gvec i m n pre fy x j g h hl
  exact (List.nodup_append.mp h'.nodup).2.1

/-- the new slots avoid the slots drawn before -/
theorem ptsFrom_slots_disjoint (t : TOps K G) (hn : Nice t) (gvec : Array K) (i m n : Nat)
    (pre : List Nat) (fy : FY) (x : K) (j : Nat) (g : G) (h : FYMid m pre fy)
    (hl : pre.length + n ≤ m) : ∀ p ∈ ptsFrom t gvec i n fy x j g, p.1 ∉ pre := by
  obtain ⟨fy', h'⟩ := ptsFrom_slots_mid t hn gvec i m n pre fy x j g h hl
  intro p hp hpre
  exact (List.disjoint_of_nodup_append h'.nodup) hpre (List.mem_map_of_mem hp)

theorem ptsFrom_slot_lt (t : TOps K G) (hn : Nice t) (gvec : Array K) (i m n : Nat)
    (pre : List Nat) (fy : FY) (x : K) (j : Nat) (g : G) (h : FYMid m pre fy)
    (hl : pre.length + n ≤ m) : ∀ p ∈ ptsFrom t gvec i n fy x j g, p.1 < m := by
  obtain ⟨fy', h'⟩ := ptsFrom_slots_mid t hn gvec i m n pre fy x j g h hl
  intro p hp
  exact h'.lt _ (List.mem_append_right _ (List.mem_map_of_mem hp))

/-- running the block to its end covers every slot exactly once -/
theorem ptsFrom_slots_perm (t : TOps K G) (hn : Nice t) (gvec : Array K) (i m n : Nat)
    (pre : List Nat) (fy : FY) (x : K) (j : Nat) (g : G) (h : FYMid m pre fy)
    (hl : pre.length + n = m) :
    (pre ++ (ptsFrom t gvec i n fy x j g).map (·.1)).Perm (List.range m) := by
  obtain ⟨fy', h'⟩ := ptsFrom_slots_mid t hn gvec i m n pre fy x j g h (le_of_eq hl)
  refine h'.perm_of_length ?_
  rw [List.length_append, List.length_map, ptsFrom_length t hn gvec i m n pre fy x j g h (le_of_eq hl)]
  exact hl

/-! ### the element's full stream: slots -/

theorem elemPts_length (t : TOps K G) (hn : Nice t) (m : Nat) (gvec : Array K) (g : G) (i : Nat) :
    (elemPts t m gvec g i).length = m :=
  ptsFrom_length t hn gvec i m m [] (fy0 m) _ _ _ (fyMid_fy0 m) (by simp)

theorem elemPts_slots_distinct (t : TOps K G) (hn : Nice t) (m : Nat) (gvec : Array K) (g : G)
    (i : Nat) : ((elemPts t m gvec g i).map (·.1)).Nodup :=
  ptsFrom_slots_nodup t hn gvec i m m [] (fy0 m) _ _ _ (fyMid_fy0 m) (by simp)

theorem elemPts_slot_lt (t : TOps K G) (hn : Nice t) (m : Nat) (gvec : Array K) (g : G) (i : Nat) :
    ∀ p ∈ elemPts t m gvec g i, p.1 < m :=
  ptsFrom_slot_lt t hn gvec i m m [] (fy0 m) _ _ _ (fyMid_fy0 m) (by simp)

/-- the m points of an element cover every slot exactly once -/
theorem elemPts_slots_perm (t : TOps K G) (hn : Nice t) (m : Nat) (gvec : Array K) (g : G)
    (i : Nat) : ((elemPts t m gvec g i).map (·.1)).Perm (List.range m) := by
  have := ptsFrom_slots_perm t hn gvec i m m [] (fy0 m) (t.fe g).1 0 (t.fe g).2 (fyMid_fy0 m) (by simp)
  simpa [elemPts] using this

end Slots

theorem elemPts_idx (t : TOps K G) (m : Nat) (gvec : Array K) (g : G) (i : Nat) :
    ∀ p ∈ elemPts t m gvec g i, p.2.2 = i :=
  ptsFrom_idx t gvec i m _ _ _ _

/-- the index does not influence slots and values -/
theorem elemPts_reindex (t : TOps K G) (m : Nat) (gvec : Array K) (g : G) (i i' : Nat) :
    (elemPts t m gvec g i).map (fun p => (p.1, p.2.1)) =
      (elemPts t m gvec g i').map (fun p => (p.1, p.2.1)) :=
  ptsFrom_reindex t gvec i i' m _ _ _ _

end Struct

/-! ### order facts (values) -/

/-- hypothesis on the increments' weights -/
def GNonneg {K : Type} [Zero K] [LE K] (gvec : Array K) : Prop := ∀ j, 0 ≤ gvec.getD j 0

variable {K G : Type} [Field K] [LinearOrder K] [IsStrictOrderedRing K]

/-- all values of the stream are `≥` the current value (no shuffle hypothesis needed) -/
theorem ptsFrom_ge (t : TOps K G) (hn : Nice t) (gvec : Array K) (hg : GNonneg gvec) (i : Nat) :
    ∀ (n : Nat) (fy : FY) (x : K) (j : Nat) (g : G), ∀ p ∈ ptsFrom t gvec i n fy x j g, x ≤ p.2.1 := by
  intro n
  induction n with
  | zero => intro fy x j g p hp; simp at hp
  | succ n ih =>
    intro fy x j g p hp
    rcases ptsFrom_succ_cases t gvec i n fy x j g with h | ⟨k, fy', _, h⟩
    · rw [h] at hp; simp at hp
    · rw [h] at hp
      rcases List.mem_cons.mp hp with rfl | hp
      · exact le_refl _
      · have h1 := ih _ _ _ _ p hp
        have h2 : 0 ≤ (t.fe (t.fu g).2).1 * gvec.getD j 0 := mul_nonneg (hn.1 _) (hg j)
        exact le_trans (le_add_of_nonneg_right h2) h1

/-- values non-decreasing along the stream (no shuffle hypothesis needed) -/
theorem ptsFrom_mono (t : TOps K G) (hn : Nice t) (gvec : Array K) (hg : GNonneg gvec) (i : Nat) :
    ∀ (n : Nat) (fy : FY) (x : K) (j : Nat) (g : G),
      (ptsFrom t gvec i n fy x j g).Pairwise (fun p q => p.2.1 ≤ q.2.1) := by
  intro n
  induction n with
  | zero => intro fy x j g; simp
  | succ n ih =>
    intro fy x j g
    rcases ptsFrom_succ_cases t gvec i n fy x j g with h | ⟨k, fy', _, h⟩
    · rw [h]; exact List.Pairwise.nil
    · rw [h]
      refine List.Pairwise.cons ?_ (ih _ _ _ _)
      intro q hq
      have h1 := ptsFrom_ge t hn gvec hg i n _ _ _ _ q hq
      have h2 : 0 ≤ (t.fe (t.fu g).2).1 * gvec.getD j 0 := mul_nonneg (hn.1 _) (hg j)
      exact le_trans (le_add_of_nonneg_right h2) h1

/-- values non-decreasing along j -/
theorem elemPts_mono (t : TOps K G) (hn : Nice t) (m : Nat) (gvec : Array K) (hg : GNonneg gvec)
    (g : G) (i : Nat) : (elemPts t m gvec g i).Pairwise (fun p q => p.2.1 ≤ q.2.1) :=
  ptsFrom_mono t hn gvec hg i m _ _ _ _

/-- first value is ≥ 0 and all values are ≥ the first draw -/
theorem elemPts_ge_first (t : TOps K G) (hn : Nice t) (m : Nat) (gvec : Array K)
    (hg : GNonneg gvec) (g : G) (i : Nat) : ∀ p ∈ elemPts t m gvec g i, (t.fe g).1 ≤ p.2.1 :=
  ptsFrom_ge t hn gvec hg i m _ _ _ _

theorem elemPts_nonneg (t : TOps K G) (hn : Nice t) (m : Nat) (gvec : Array K)
    (hg : GNonneg gvec) (g : G) (i : Nat) : ∀ p ∈ elemPts t m gvec g i, 0 ≤ p.2.1 :=
  fun p hp => le_trans (hn.1 g) (elemPts_ge_first t hn m gvec hg g i p hp)

end PMH.OrdP

/-! ###
# Order-min-hash: the block specification (`lSmallest`, `BlockSpec`) — list level
-/
namespace PMH.OrdP
open PMH PMH.OrdMH

section ListSpec
variable {K : Type} [LinearOrder K]

/-- the content of a free cell -/
def pad (top : K) : K × Nat := (top, u64Max)

/-- stable sorted insertion: `p` goes after every entry whose value is `≤ p.1` -/
def insLast (p : K × Nat) (B : List (K × Nat)) : List (K × Nat) :=
  B.takeWhile (fun q => decide (q.1 ≤ p.1)) ++ p :: B.dropWhile (fun q => decide (q.1 ≤ p.1))

/-- stable insertion sort by value (pairs offered in list order) -/
def ssort (A : List (K × Nat)) : List (K × Nat) := A.foldl (fun B p => insLast p B) []

/-- the `l` smallest pairs of `A` by value, ties broken by insertion order, sorted by value,
padded with `(top, u64Max)`; pairs whose value is not `< top` can never enter a block. -/
def lSmallest (top : K) (l : Nat) (A : List (K × Nat)) : List (K × Nat) :=
  (ssort (A.filter (fun p => decide (p.1 < top))) ++ List.replicate l (pad top)).take l

/-- block `B` holds the `l` smallest pairs offered in `A` -/
def BlockSpec (top : K) (l : Nat) (A B : List (K × Nat)) : Prop := B = lSmallest top l A

theorem insLast_nil (p : K × Nat) : insLast p [] = [p] := rfl

theorem insLast_cons (p a : K × Nat) (B : List (K × Nat)) :
    insLast p (a :: B) = if a.1 ≤ p.1 then a :: insLast p B else p :: a :: B := by
  unfold insLast
  by_cases h : a.1 ≤ p.1
  · simp [h]
  · simp [h]

theorem insLast_perm (p : K × Nat) (B : List (K × Nat)) : (insLast p B).Perm (p :: B) := by
  unfold insLast
  refine List.perm_middle.trans ?_
  exact List.Perm.cons _ (by rw [List.takeWhile_append_dropWhile])

theorem mem_insLast (p q : K × Nat) (B : List (K × Nat)) : q ∈ insLast p B ↔ q = p ∨ q ∈ B := by
  rw [(insLast_perm p B).mem_iff]; simp

theorem insLast_length (p : K × Nat) (B : List (K × Nat)) : (insLast p B).length = B.length + 1 := by
  rw [(insLast_perm p B).length_eq]; simp

theorem insLast_sorted (p : K × Nat) (B : List (K × Nat)) (h : B.Pairwise (fun a b => a.1 ≤ b.1)) :
    (insLast p B).Pairwise (fun a b => a.1 ≤ b.1) := by
  induction B with
  | nil => simp [insLast_nil]
  | cons a B ih =>
    rw [insLast_cons]
    obtain ⟨h1, h2⟩ := List.pairwise_cons.mp h
    split
    · rename_i hle
      refine List.pairwise_cons.mpr ⟨?_, ih h2⟩
      intro q hq
      rcases (mem_insLast p q B).mp hq with rfl | hq
      · exact hle
      · exact h1 q hq
    · rename_i hle
      have hlt : p.1 < a.1 := not_le.mp hle
      refine List.pairwise_cons.mpr ⟨?_, h⟩
      intro q hq
      rcases List.mem_cons.mp hq with rfl | hq
      · exact le_of_lt hlt
      · exact le_trans (le_of_lt hlt) (h1 q hq)

theorem ssort_append_singleton (A : List (K × Nat)) (p : K × Nat) : ssort (A ++ [p]) = insLast p (ssort A) := by
  simp [ssort, List.foldl_append]

theorem ssort_nil : ssort ([] : List (K × Nat)) = [] := rfl

theorem ssort_perm (A : List (K × Nat)) : (ssort A).Perm A := by
  induction A using List.reverseRecOn with
  | nil => simp [ssort_nil]
  | append_singleton A p ih =>
    rw [ssort_append_singleton]
    refine (insLast_perm p _).trans ?_
    refine (List.Perm.cons p ih).trans ?_
    exact (List.perm_append_singleton p A).symm

theorem ssort_sorted (A : List (K × Nat)) : (ssort A).Pairwise (fun a b => a.1 ≤ b.1) := by
  induction A using List.reverseRecOn with
  | nil => simp [ssort_nil]
  | append_singleton A p ih => rw [ssort_append_singleton]; exact insLast_sorted p _ ih

theorem mem_ssort (A : List (K × Nat)) (q : K × Nat) : q ∈ ssort A ↔ q ∈ A := (ssort_perm A).mem_iff

theorem ssort_length (A : List (K × Nat)) : (ssort A).length = A.length := (ssort_perm A).length_eq

/-- stability: pairs of equal value keep their insertion order -/
theorem insLast_filter_eq (p : K × Nat) (B : List (K × Nat)) (hB : B.Pairwise (fun a b => a.1 ≤ b.1)) (v : K) :
    (insLast p B).filter (fun q => decide (q.1 = v)) =
      if p.1 = v then B.filter (fun q => decide (q.1 = v)) ++ [p] else B.filter (fun q => decide (q.1 = v)) := by
  induction B with
  | nil => by_cases h : p.1 = v <;> simp [insLast_nil, h]
  | cons a B ih =>
    obtain ⟨h1, h2⟩ := List.pairwise_cons.mp hB
    rw [insLast_cons]
    by_cases hle : a.1 ≤ p.1
    · rw [if_pos hle, List.filter_cons, ih h2]
      by_cases hp : p.1 = v <;> by_cases ha : a.1 = v <;> simp [hp, ha]
    · rw [if_neg hle]
      have hlt : p.1 < a.1 := not_le.mp hle
      by_cases hp : p.1 = v
      · have hnil : (a :: B).filter (fun q => decide (q.1 = v)) = [] := by
          rw [List.filter_eq_nil_iff]
          intro q hq
          have : a.1 ≤ q.1 := by
            rcases List.mem_cons.mp hq with rfl | hq
            · exact le_refl _
            · exact h1 q hq
          have : v < q.1 := hp ▸ lt_of_lt_of_le hlt this
          simpa using ne_of_gt this
        rw [if_pos hp, hnil, List.filter_cons, hnil]
        simp [hp]
      · rw [if_neg hp, List.filter_cons]
        simp [hp]

theorem ssort_stable (A : List (K × Nat)) (v : K) :
    (ssort A).filter (fun q => decide (q.1 = v)) = A.filter (fun q => decide (q.1 = v)) := by
  induction A using List.reverseRecOn with
  | nil => simp [ssort_nil]
  | append_singleton A p ih =>
    rw [ssort_append_singleton, insLast_filter_eq p _ (ssort_sorted A), ih, List.filter_append]
    by_cases hp : p.1 = v <;> simp [hp]

/-- truncation commutes with insertion -/
theorem take_insLast (p : K × Nat) (T : List (K × Nat)) (l : Nat) :
    (insLast p T).take l = (insLast p (T.take l)).take l := by
  induction T generalizing l with
  | nil => simp
  | cons a T ih =>
    cases l with
    | zero => simp
    | succ l =>
      rw [List.take_succ_cons, insLast_cons, insLast_cons]
      split
      · rw [List.take_succ_cons, List.take_succ_cons, ih]
      · rw [List.take_succ_cons, List.take_succ_cons]
        congr 1
        cases l with
        | zero => simp
        | succ l => rw [List.take_succ_cons, List.take_succ_cons, List.take_take]; simp

theorem insLast_append_of_lt (p : K × Nat) (S P : List (K × Nat)) (h : ∀ q ∈ P, p.1 < q.1) :
    insLast p (S ++ P) = insLast p S ++ P := by
  induction S with
  | nil =>
    cases P with
    | nil => simp
    | cons a P =>
      have : ¬ a.1 ≤ p.1 := not_le.mpr (h a (by simp))
      simp [insLast_cons, insLast_nil, this]
  | cons a S ih =>
    rw [List.cons_append, insLast_cons, insLast_cons]
    split
    · rw [ih]; rfl
    · rfl

theorem insLast_of_all_le (p : K × Nat) (B : List (K × Nat)) (h : ∀ q ∈ B, q.1 ≤ p.1) :
    insLast p B = B ++ [p] := by
  induction B with
  | nil => rfl
  | cons a B ih =>
    rw [insLast_cons, if_pos (h a (by simp)), ih (fun q hq => h q (by simp [hq]))]
    rfl

/-- a value that is not below the last (largest) kept value is rejected -/
theorem take_insLast_of_ge_last (p : K × Nat) (B : List (K × Nat)) (hB : B.Pairwise (fun a b => a.1 ≤ b.1))
    (hne : B ≠ []) (h : (B.getLast hne).1 ≤ p.1) : (insLast p B).take B.length = B := by
  have hall : ∀ q ∈ B, q.1 ≤ p.1 := by
    intro q hq
    refine le_trans ?_ h
    obtain ⟨B', b, rfl⟩ : ∃ B' b, B = B' ++ [b] := ⟨B.dropLast, B.getLast hne, (List.dropLast_append_getLast hne).symm⟩
    rw [List.getLast_append_singleton]
    rcases List.mem_append.mp hq with hq | hq
    · exact (List.pairwise_append.mp hB).2.2 q hq b (by simp)
    · simp at hq; rw [hq]
  rw [insLast_of_all_le p B hall]
  simp

/-! ### `lSmallest` -/

/-- the real (non-padding) part of the block and the rejected pairs -/
def kept (top : K) (l : Nat) (A : List (K × Nat)) : List (K × Nat) :=
  (ssort (A.filter (fun p => decide (p.1 < top)))).take l
def dropped (top : K) (l : Nat) (A : List (K × Nat)) : List (K × Nat) :=
  (ssort (A.filter (fun p => decide (p.1 < top)))).drop l

theorem lSmallest_eq (top : K) (l : Nat) (A : List (K × Nat)) :
    lSmallest top l A = kept top l A ++ List.replicate (l - (kept top l A).length) (pad top) := by
  unfold lSmallest kept
  rw [List.take_append, List.take_replicate]
  congr 2
  simp only [List.length_take]
  omega

theorem lSmallest_length (top : K) (l : Nat) (A : List (K × Nat)) : (lSmallest top l A).length = l := by
  simp [lSmallest]

theorem kept_dropped_perm (top : K) (l : Nat) (A : List (K × Nat)) :
    (kept top l A ++ dropped top l A).Perm (A.filter (fun p => decide (p.1 < top))) := by
  unfold kept dropped
  rw [List.take_append_drop]
  exact ssort_perm _

theorem mem_kept (top : K) (l : Nat) (A : List (K × Nat)) (q : K × Nat) (h : q ∈ kept top l A) :
    q ∈ A ∧ q.1 < top := by
  have := (kept_dropped_perm top l A).subset (List.mem_append_left _ h)
  simpa using this

theorem mem_lSmallest (top : K) (l : Nat) (A : List (K × Nat)) (q : K × Nat) (h : q ∈ lSmallest top l A) :
    (q ∈ A ∧ q.1 < top) ∨ q = pad top := by
  rw [lSmallest_eq] at h
  rcases List.mem_append.mp h with h | h
  · exact Or.inl (mem_kept top l A q h)
  · exact Or.inr (List.eq_of_mem_replicate h)

theorem lSmallest_le_top (top : K) (l : Nat) (A : List (K × Nat)) (q : K × Nat) (h : q ∈ lSmallest top l A) :
    q.1 ≤ top := by
  rcases mem_lSmallest top l A q h with ⟨_, h⟩ | rfl
  · exact le_of_lt h
  · exact le_refl _

theorem sorted_append_pad (top : K) (S : List (K × Nat)) (n : Nat) (hS : S.Pairwise (fun a b => a.1 ≤ b.1))
    (hlt : ∀ q ∈ S, q.1 < top) : (S ++ List.replicate n (pad top)).Pairwise (fun a b => a.1 ≤ b.1) := by
  rw [List.pairwise_append]
  refine ⟨hS, ?_, ?_⟩
  · rw [List.pairwise_replicate]
    exact Or.inr (le_refl _)
  · intro a ha b hb
    rw [List.eq_of_mem_replicate hb]
    exact le_of_lt (hlt a ha)

theorem lSmallest_sorted (top : K) (l : Nat) (A : List (K × Nat)) :
    (lSmallest top l A).Pairwise (fun a b => a.1 ≤ b.1) := by
  unfold lSmallest
  refine List.Pairwise.sublist (List.take_sublist _ _) ?_
  refine sorted_append_pad top _ l (ssort_sorted _) ?_
  intro q hq
  have := (mem_ssort _ q).mp hq
  simpa using (List.mem_filter.mp this).2

/-- everything rejected is dominated by everything in the block -/
theorem dropped_ge (top : K) (l : Nat) (A : List (K × Nat)) :
    ∀ r ∈ dropped top l A, ∀ b ∈ lSmallest top l A, b.1 ≤ r.1 := by
  intro r hr b hb
  have hlen : l < (ssort (A.filter (fun p => decide (p.1 < top)))).length := by
    by_contra hcon
    unfold dropped at hr
    rw [List.drop_eq_nil_of_le (not_lt.mp hcon)] at hr
    simp at hr
  have hk : (kept top l A).length = l := by unfold kept; simp; omega
  rw [lSmallest_eq, hk] at hb
  simp only [Nat.sub_self, List.replicate_zero, List.append_nil] at hb
  have hs := ssort_sorted (A.filter (fun p => decide (p.1 < top)))
  rw [← List.take_append_drop l (ssort _)] at hs
  exact (List.pairwise_append.mp hs).2.2 b hb r hr

/-- if the block is not full of real pairs then nothing (with value `< top`) was rejected -/
theorem dropped_nil_of_pad (top : K) (l : Nat) (A : List (K × Nat)) (h : (kept top l A).length < l) :
    dropped top l A = [] := by
  unfold dropped
  apply List.drop_eq_nil_of_le
  unfold kept at h
  simp only [List.length_take] at h
  omega

theorem lSmallest_nil (top : K) (l : Nat) : lSmallest top l ([] : List (K × Nat)) = List.replicate l (pad top) := by
  simp [lSmallest, ssort_nil]

theorem lSmallest_snoc_ge_top (top : K) (l : Nat) (A : List (K × Nat)) (p : K × Nat) (h : ¬ p.1 < top) :
    lSmallest top l (A ++ [p]) = lSmallest top l A := by
  unfold lSmallest
  rw [List.filter_append]
  simp [h]

theorem lSmallest_snoc_lt_top (top : K) (l : Nat) (A : List (K × Nat)) (p : K × Nat) (h : p.1 < top) :
    lSmallest top l (A ++ [p]) = (insLast p (lSmallest top l A)).take l := by
  unfold lSmallest
  rw [List.filter_append]
  have : [p].filter (fun p => decide (p.1 < top)) = [p] := by simp [h]
  rw [this, ssort_append_singleton, ← take_insLast, insLast_append_of_lt]
  intro q hq
  rw [List.eq_of_mem_replicate hq]
  exact h

/-- a pair whose value is not below the block's last value leaves the block unchanged
(this is what makes the pruned points harmless) -/
theorem lSmallest_snoc_of_ge_last (top : K) (l : Nat) (A : List (K × Nat)) (p : K × Nat)
    (hne : lSmallest top l A ≠ []) (h : ((lSmallest top l A).getLast hne).1 ≤ p.1) :
    lSmallest top l (A ++ [p]) = lSmallest top l A := by
  by_cases hp : p.1 < top
  · rw [lSmallest_snoc_lt_top top l A p hp]
    have := take_insLast_of_ge_last p _ (lSmallest_sorted top l A) hne h
    rwa [lSmallest_length] at this
  · exact lSmallest_snoc_ge_top top l A p hp

theorem BlockSpec.snoc_of_ge_last {top : K} {l : Nat} {A B : List (K × Nat)} (hB : BlockSpec top l A B)
    (p : K × Nat) (hne : B ≠ []) (h : (B.getLast hne).1 ≤ p.1) : BlockSpec top l (A ++ [p]) B := by
  unfold BlockSpec at *
  subst hB
  exact (lSmallest_snoc_of_ge_last top l A p hne h).symm

/-- declarative reading of `BlockSpec`: `B` has length `l`, is sorted by value, every kept pair is a
pair of `A` (with value `< top`) or padding, the pairs of `A` (below `top`) split into the kept ones
and rejected ones `R`, every rejected pair is dominated by every entry of the block, and if the
block still contains padding nothing was rejected.  (Ties: `ssort_stable` — equal values keep
their insertion order, so the earlier-offered pair is kept.) -/
theorem BlockSpec.char {top : K} {l : Nat} {A B : List (K × Nat)} (h : BlockSpec top l A B) :
    B.length = l ∧ B.Pairwise (fun a b => a.1 ≤ b.1) ∧
    (∀ q ∈ B, (q ∈ A ∧ q.1 < top) ∨ q = pad top) ∧
    B = kept top l A ++ List.replicate (l - (kept top l A).length) (pad top) ∧
    ∃ R, (kept top l A ++ R).Perm (A.filter (fun p => decide (p.1 < top))) ∧
      (∀ r ∈ R, ∀ b ∈ B, b.1 ≤ r.1) ∧ ((kept top l A).length < l → R = []) := by
  unfold BlockSpec at h
  subst h
  exact ⟨lSmallest_length top l A, lSmallest_sorted top l A, mem_lSmallest top l A, lSmallest_eq top l A,
    dropped top l A, kept_dropped_perm top l A, dropped_ge top l A, dropped_nil_of_pad top l A⟩

end ListSpec
end PMH.OrdP

/-! ###
# Order-min-hash: `update_with_maxtracker` keeps the `l` smallest pairs of a slot (`update_spec`)
-/
namespace PMH.OrdP
open PMH PMH.OrdMH PMH.MT PMH.C15
variable {K : Type} [LinearOrder K]
set_option linter.unusedSectionVars false

theorem getD_congr {α : Type} (a : Array α) (i : Nat) (d d' : α) (h : i < a.size) : a.getD i d = a.getD i d' := by
  simp [Array.getD_eq_getD_getElem?, h]

theorem getD_setIfInBounds {α : Type} (a : Array α) (i j : Nat) (x d : α) (h : i < a.size) :
    (a.setIfInBounds i x).getD j d = if j = i then x else a.getD j d := by
  simp only [Array.getD_eq_getD_getElem?, Array.getElem?_setIfInBounds]
  by_cases hji : j = i
  · subst hji; simp [h]
  · have : ¬ i = j := fun e => hji e.symm
    simp [hji, this]

theorem insertAt_spec (first : Nat) (value : K) (dv : K) (di : Nat) :
    ∀ (f a : Nat) (vals : Array K) (idxs : Array Nat),
      first ≤ a → a < first + f → a < vals.size → idxs.size = vals.size →
      ∃ vals' idxs' a', insertAt first value f a vals idxs = (vals', idxs', a') ∧
        first ≤ a' ∧ a' ≤ a ∧ vals'.size = vals.size ∧ idxs'.size = idxs.size ∧
        (a' = first ∨ ¬ value < vals.getD (a' - 1) dv) ∧
        (∀ j, a' ≤ j → j < a → value < vals.getD j dv) ∧
        (∀ j, vals'.getD j dv = if a' < j ∧ j ≤ a then vals.getD (j - 1) dv else vals.getD j dv) ∧
        (∀ j, idxs'.getD j di = if a' < j ∧ j ≤ a then idxs.getD (j - 1) di else idxs.getD j di) := by
  intro f
  induction f with
  | zero => intro a vals idxs h1 h2; omega
  | succ f ih =>
    intro a vals idxs h1 h2 h3 h4
    unfold insertAt
    have hget : vals[a - 1]? = some (vals.getD (a - 1) dv) := by
      simp [Array.getD_eq_getD_getElem?, show a - 1 < vals.size by omega]
    rw [hget]
    by_cases hc : a > first ∧ value < vals.getD (a - 1) dv
    · obtain ⟨hc1, hc2⟩ := hc
      simp only [hc1, hc2, decide_true, Bool.and_self, if_true]
      have hsz : (vals.setIfInBounds a (vals.getD (a - 1) value)).size = vals.size := by simp
      obtain ⟨vals', idxs', a', e, g1, g2, g3, g4, g5, g6, g7, g8⟩ :=
        ih (a - 1) (vals.setIfInBounds a (vals.getD (a - 1) value)) (idxs.setIfInBounds a (idxs.getD (a - 1) 0))
          (by omega) (by omega) (by rw [hsz]; omega) (by simp [h4])
      refine ⟨vals', idxs', a', e, g1, by omega, by rw [g3, hsz], by rw [g4]; simp, ?_, ?_, ?_, ?_⟩
      · rcases g5 with g5 | g5
        · exact Or.inl g5
        · right
          rwa [getD_setIfInBounds _ _ _ _ _ h3, if_neg (by omega)] at g5
      · intro j hj1 hj2
        by_cases hja : j = a - 1
        · subst hja; exact hc2
        · have := g6 j hj1 (by omega)
          rwa [getD_setIfInBounds _ _ _ _ _ h3, if_neg (by omega)] at this
      · intro j
        rw [g7 j]
        by_cases hj : a' < j ∧ j ≤ a - 1
        · rw [if_pos hj, if_pos (by omega), getD_setIfInBounds _ _ _ _ _ h3, if_neg (by omega)]
        · rw [if_neg hj, getD_setIfInBounds _ _ _ _ _ h3]
          by_cases hja : j = a
          · subst hja
            rw [if_pos rfl, if_pos (by omega)]
            exact getD_congr _ _ _ _ (by omega)
          · rw [if_neg hja, if_neg (by omega)]
      · intro j
        rw [g8 j]
        have h3' : a < idxs.size := by omega
        by_cases hj : a' < j ∧ j ≤ a - 1
        · rw [if_pos hj, if_pos (by omega), getD_setIfInBounds _ _ _ _ _ h3', if_neg (by omega)]
        · rw [if_neg hj, getD_setIfInBounds _ _ _ _ _ h3']
          by_cases hja : j = a
          · subst hja
            rw [if_pos rfl, if_pos (by omega)]
            exact getD_congr _ _ _ _ (by omega)
          · rw [if_neg hja, if_neg (by omega)]
    · have hc' : (decide (a > first) && decide (value < vals.getD (a - 1) dv)) = false := by
        rcases not_and_or.mp hc with h | h
        · simp [h]
        · rw [decide_eq_false h]; simp
      simp only [hc']
      refine ⟨vals, idxs, a, by simp, h1, le_refl _, rfl, rfl, ?_, ?_, ?_, ?_⟩
      · rcases not_and_or.mp hc with h | h
        · left; omega
        · right; exact h
      · intro j h1 h2; omega
      · intro j; rw [if_neg (by omega)]
      · intro j; rw [if_neg (by omega)]
theorem takeWhile_eq_take {α : Type} (q : α → Bool) : ∀ (B : List α) (n : Nat),
    (∀ j b, B[j]? = some b → j < n → q b = true) → (∀ b, B[n]? = some b → q b = false) →
    B.takeWhile q = B.take n ∧ B.dropWhile q = B.drop n := by
  intro B
  induction B with
  | nil => intro n _ _; simp
  | cons a B ih =>
    intro n h1 h2
    cases n with
    | zero =>
      have := h2 a (by simp)
      simp [this]
    | succ n =>
      have ha : q a = true := h1 0 a (by simp) (by omega)
      obtain ⟨e1, e2⟩ := ih n (fun j b hj hjn => h1 (j + 1) b (by simpa using hj) (by omega))
        (fun b h => h2 b (by simpa using h))
      simp [ha, e1, e2]

theorem getElem?_take_cons_drop {α : Type} (B : List α) (n : Nat) (p : α) (hn : n ≤ B.length) (j : Nat) :
    (B.take n ++ p :: B.drop n)[j]? = if j < n then B[j]? else if j = n then some p else B[j - 1]? := by
  rw [List.getElem?_append]
  simp only [List.length_take, Nat.min_eq_left hn]
  by_cases h1 : j < n
  · simp [h1]
  · rw [if_neg h1, if_neg h1]
    by_cases h2 : j = n
    · subst h2; simp
    · rw [if_neg h2]
      obtain ⟨d, rfl⟩ : ∃ d, j = n + 1 + d := ⟨j - n - 1, by omega⟩
      have : n + 1 + d - n = d + 1 := by omega
      rw [this, List.getElem?_cons_succ, List.getElem?_drop]
      congr 1
      omega

/-- the array insertion, seen on the block as a list -/
theorem block_insert_eq (B B' : List (K × Nat)) (l n : Nat) (p : K × Nat) (hlen : B.length = l) (hlen' : B'.length = l)
    (hn : n < l)
    (hlo : ∀ j b, B[j]? = some b → j < n → b.1 ≤ p.1)
    (hhi : ∀ j b, B[j]? = some b → n ≤ j → p.1 < b.1)
    (hget : ∀ j, j < l → B'[j]? = if j < n then B[j]? else if j = n then some p else B[j - 1]?) :
    B' = (insLast p B).take l := by
  obtain ⟨e1, e2⟩ := takeWhile_eq_take (fun q : K × Nat => decide (q.1 ≤ p.1)) B n
    (fun j b h hjn => by simpa using hlo j b h hjn)
    (fun b h => by simpa using hhi n b h (le_refl _))
  unfold insLast
  rw [e1, e2]
  apply List.ext_getElem?
  intro j
  rw [List.getElem?_take]
  by_cases hj : j < l
  · rw [if_pos hj, hget j hj, getElem?_take_cons_drop B n p (by omega)]
  · rw [if_neg hj, List.getElem?_eq_none (by omega)]

/-! ### array level -/

/-- block `k` of the store as a list of `(value, index)` pairs -/
def blockOf (top : K) (s : OrdMH K) (k : Nat) : List (K × Nat) :=
  (List.range s.l).map (fun j => (s.values.getD (k * s.l + j) top, s.indices.getD (k * s.l + j) u64Max))

/-- well-formed store: sizes, a good tracker whose leaf `k` is the last value of block `k` -/
structure WF (top : K) (m l : Nat) (s : OrdMH K) : Prop where
  hm : s.m = m
  hl : s.l = l
  vsz : s.values.size = m * l
  isz : s.indices.size = m * l
  good : Good top m s.tracker
  leaf : ∀ k, k < m → vw top s.tracker.vals k = s.values.getD (k * l + (l - 1)) top

theorem blockOf_getElem? (top : K) (s : OrdMH K) (k j : Nat) :
    (blockOf top s k)[j]? = if j < s.l then some (s.values.getD (k * s.l + j) top, s.indices.getD (k * s.l + j) u64Max) else none := by
  unfold blockOf
  rw [List.getElem?_map]
  by_cases h : j < s.l
  · rw [List.getElem?_range h, if_pos h]; rfl
  · rw [if_neg h, List.getElem?_eq_none (by simpa using h)]; rfl

theorem blockOf_length (top : K) (s : OrdMH K) (k : Nat) : (blockOf top s k).length = s.l := by
  simp [blockOf]

theorem block_disjoint (k k' l j : Nat) (hne : k' ≠ k) (hj : j < l) : ¬ (k * l ≤ k' * l + j ∧ k' * l + j < k * l + l) := by
  rcases Nat.lt_or_gt_of_ne hne with h | h
  · have := Nat.mul_le_mul_right l (Nat.succ_le_of_lt h)
    rw [Nat.succ_mul] at this
    omega
  · have := Nat.mul_le_mul_right l (Nat.succ_le_of_lt h)
    rw [Nat.succ_mul] at this
    omega

theorem block_in_range (k m l j : Nat) (hk : k < m) (hj : j < l) : k * l + j < m * l := by
  have := Nat.mul_le_mul_right l (Nat.succ_le_of_lt hk)
  rw [Nat.succ_mul] at this
  omega

theorem blockOf_congr (top : K) (s s' : OrdMH K) (k : Nat) (hl : s'.l = s.l)
    (hv : ∀ j, j < s.l → s'.values.getD (k * s.l + j) top = s.values.getD (k * s.l + j) top)
    (hi : ∀ j, j < s.l → s'.indices.getD (k * s.l + j) u64Max = s.indices.getD (k * s.l + j) u64Max) :
    blockOf top s' k = blockOf top s k := by
  unfold blockOf
  rw [hl]
  apply List.map_congr_left
  intro j hj
  rw [List.mem_range] at hj
  rw [hv j hj, hi j hj]

theorem getLast_blockOf (top : K) (s : OrdMH K) (k : Nat) (hne : blockOf top s k ≠ []) :
    ((blockOf top s k).getLast hne).1 = s.values.getD (k * s.l + (s.l - 1)) top := by
  have h := List.getLast_eq_getElem hne
  have hlen := blockOf_length top s k
  have hpos : 0 < s.l := by
    rw [← hlen]; exact List.length_pos_iff.mpr hne
  have h2 := blockOf_getElem? top s k (s.l - 1)
  rw [if_pos (by omega)] at h2
  have h3 : (blockOf top s k)[(blockOf top s k).length - 1]? = some ((blockOf top s k).getLast hne) := by
    rw [h]; exact List.getElem?_eq_getElem _
  rw [hlen] at h3
  rw [h2] at h3
  have := Option.some.inj h3
  rw [← this]

/-- **`update_spec`** one `update_with_maxtracker(k, x, i)` on a well-formed store never fails; block `k`
then holds the `l` smallest of `A ++ [(x, i)]`, the other blocks are untouched, and the tracker leaf
again equals the block's last value. -/
theorem update_spec (top : K) (m l : Nat) (hm : 1 ≤ m) (hl : 1 ≤ l) (s : OrdMH K) (hwf : WF top m l s)
    (k : Nat) (hk : k < m) (A : List (K × Nat)) (hB : BlockSpec top l A (blockOf top s k)) (x : K) (i : Nat) :
    ∃ s' b, s.update k x i = .ok (s', b) ∧ WF top m l s' ∧
      BlockSpec top l (A ++ [(x, i)]) (blockOf top s' k) ∧
      (∀ k', k' ≠ k → blockOf top s' k' = blockOf top s k') ∧
      s'.g = s.g ∧ s'.fy = s.fy ∧ s'.seed = s.seed := by
  obtain ⟨hsm, hsl, vsz, isz, good, leaf⟩ := hwf
  have hB' := hB
  unfold BlockSpec at hB'
  have hlast : k * l + (l - 1) < m * l := block_in_range k m l (l - 1) hk (by omega)
  have hidx : k * s.l + s.l - 1 = k * l + (l - 1) := by rw [hsl]; omega
  have hBlen : (blockOf top s k).length = l := by rw [blockOf_length, hsl]
  have hBne : blockOf top s k ≠ [] := by
    intro h; rw [h] at hBlen; simp at hBlen; omega
  have hBlast : ((blockOf top s k).getLast hBne).1 = s.values.getD (k * l + (l - 1)) top := by
    rw [getLast_blockOf, hsl]
  unfold OrdMH.update
  rw [if_neg (by rw [hsm]; exact not_not.mpr hk), if_neg (by omega)]
  dsimp only
  rw [hidx]
  have hget : s.values[k * l + (l - 1)]? = some (s.values.getD (k * l + (l - 1)) top) := by
    simp [Array.getD_eq_getD_getElem?, show k * l + (l - 1) < s.values.size by omega]
  rw [hget]
  dsimp only
  by_cases hlt : x < s.values.getD (k * l + (l - 1)) top
  · rw [if_pos hlt, hsl]
    obtain ⟨vals', idxs', a', e, g1, g2, g3, g4, g5, g6, g7, g8⟩ :=
      insertAt_spec (k * l) x top u64Max l (k * l + (l - 1)) s.values s.indices (by omega) (by omega) (by omega) (by omega)
    rw [e]
    dsimp only
    obtain ⟨n, rfl⟩ : ∃ n, a' = k * l + n := ⟨a' - k * l, by omega⟩
    have hn : n < l := by omega
    -- sortedness of the old block
    have hsorted : ∀ j1 j2, j1 < j2 → j2 < l →
        s.values.getD (k * l + j1) top ≤ s.values.getD (k * l + j2) top := by
      intro j1 j2 h12 h2
      have hs := lSmallest_sorted top l A
      rw [← hB', List.pairwise_iff_getElem] at hs
      have := hs j1 j2 (by rw [hBlen]; omega) (by rw [hBlen]; omega) h12
      have e1 : (blockOf top s k)[j1]? = some (s.values.getD (k * l + j1) top, s.indices.getD (k * l + j1) u64Max) := by
        rw [blockOf_getElem?, hsl, if_pos (by omega)]
      have e2 : (blockOf top s k)[j2]? = some (s.values.getD (k * l + j2) top, s.indices.getD (k * l + j2) u64Max) := by
        rw [blockOf_getElem?, hsl, if_pos (by omega)]
      rw [List.getElem?_eq_getElem (by rw [hBlen]; omega)] at e1 e2
      rw [Option.some.inj e1, Option.some.inj e2] at this
      exact this
    -- pointwise description of the new arrays
    have hvin : ∀ j, j < l → (vals'.setIfInBounds (k * l + n) x).getD (k * l + j) top =
        if j < n then s.values.getD (k * l + j) top else if j = n then x else s.values.getD (k * l + (j - 1)) top := by
      intro j hj
      rw [getD_setIfInBounds _ _ _ _ _ (by omega), g7]
      by_cases h1 : j < n
      · rw [if_neg (by omega), if_neg (by omega), if_pos h1]
      · by_cases h2 : j = n
        · subst h2; rw [if_pos rfl, if_neg h1, if_pos rfl]
        · rw [if_neg (by omega), if_pos (by omega), if_neg h1, if_neg h2]
          congr 1; omega
    have hiin : ∀ j, j < l → (idxs'.setIfInBounds (k * l + n) i).getD (k * l + j) u64Max =
        if j < n then s.indices.getD (k * l + j) u64Max else if j = n then i else s.indices.getD (k * l + (j - 1)) u64Max := by
      intro j hj
      rw [getD_setIfInBounds _ _ _ _ _ (by omega), g8]
      by_cases h1 : j < n
      · rw [if_neg (by omega), if_neg (by omega), if_pos h1]
      · by_cases h2 : j = n
        · subst h2; rw [if_pos rfl, if_neg h1, if_pos rfl]
        · rw [if_neg (by omega), if_pos (by omega), if_neg h1, if_neg h2]
          congr 1; omega
    have hvout : ∀ q, ¬ (k * l ≤ q ∧ q < k * l + l) → (vals'.setIfInBounds (k * l + n) x).getD q top = s.values.getD q top := by
      intro q hq
      rw [getD_setIfInBounds _ _ _ _ _ (by omega), g7, if_neg (by omega), if_neg (by omega)]
    have hiout : ∀ q, ¬ (k * l ≤ q ∧ q < k * l + l) → (idxs'.setIfInBounds (k * l + n) i).getD q u64Max = s.indices.getD q u64Max := by
      intro q hq
      rw [getD_setIfInBounds _ _ _ _ _ (by omega), g8, if_neg (by omega), if_neg (by omega)]
    have hnl : (vals'.setIfInBounds (k * l + n) x)[k * l + (l - 1)]? =
        some ((vals'.setIfInBounds (k * l + n) x).getD (k * l + (l - 1)) top) := by
      simp [Array.getD_eq_getD_getElem?, show k * l + (l - 1) < vals'.size by omega]
    rw [hnl]
    dsimp only
    -- the new last value is below the old one
    have hnle : (vals'.setIfInBounds (k * l + n) x).getD (k * l + (l - 1)) top ≤ s.values.getD (k * l + (l - 1)) top := by
      rw [hvin (l - 1) (by omega), if_neg (by omega)]
      split
      · exact le_of_lt hlt
      · exact hsorted _ _ (by omega) (by omega)
    obtain ⟨t', et, gt, lt'⟩ := update_good top m hm s.tracker good k hk
      ((vals'.setIfInBounds (k * l + n) x).getD (k * l + (l - 1)) top)
    rw [et]
    dsimp only
    refine ⟨_, true, rfl, ⟨hsm, rfl, by simp [g3, vsz], by simp [g4, isz], gt, ?_⟩, ?_, ?_, rfl, rfl, rfl⟩
    · intro k' hk'
      dsimp only
      rw [lt' k' hk']
      by_cases hkk : k' = k
      · subst hkk
        rw [Function.update_self, leaf k' hk', min_eq_right hnle]
      · rw [Function.update_of_ne hkk, leaf k' hk', hvout _ (block_disjoint k k' l (l - 1) hkk (by omega))]
    · -- the block
      unfold BlockSpec
      have hxtop : x < top := by
        refine lt_of_lt_of_le hlt ?_
        rw [← hBlast]
        exact lSmallest_le_top top l A _ (hB' ▸ List.getLast_mem hBne)
      rw [lSmallest_snoc_lt_top top l A (x, i) hxtop, ← hB']
      refine block_insert_eq (blockOf top s k) _ l n (x, i) hBlen (by rw [blockOf_length]) hn ?_ ?_ ?_
      · intro j b hb hjn
        rw [blockOf_getElem?, hsl, if_pos (by omega)] at hb
        rw [← Option.some.inj hb]
        dsimp only
        rcases g5 with g5 | g5
        · omega
        · refine le_trans ?_ (not_lt.mp g5)
          rcases Nat.lt_or_ge j (n - 1) with h | h
          · have := hsorted j (n - 1) h (by omega)
            rwa [show k * l + n - 1 = k * l + (n - 1) by omega]
          · have : j = n - 1 := by omega
            subst this
            rw [show k * l + n - 1 = k * l + (n - 1) by omega]
      · intro j b hb hjn
        have hjl : j < l := by
          by_contra hcon
          rw [blockOf_getElem?, hsl, if_neg hcon] at hb
          exact absurd hb (by simp)
        rw [blockOf_getElem?, hsl, if_pos hjl] at hb
        rw [← Option.some.inj hb]
        dsimp only
        by_cases hjlast : j = l - 1
        · subst hjlast; exact hlt
        · exact g6 (k * l + j) (by omega) (by omega)
      · intro j hj
        rw [blockOf_getElem?]
        dsimp only
        rw [if_pos hj, hvin j hj, hiin j hj, blockOf_getElem?, blockOf_getElem?, hsl]
        by_cases h1 : j < n
        · simp only [h1, if_true, hj]
        · by_cases h2 : j = n
          · subst h2; simp
          · rw [if_neg h1, if_neg h1, if_neg h1, if_neg h2, if_neg h2, if_neg h2, if_pos (by omega)]
    · intro k' hkk
      apply blockOf_congr
      · exact hsl.symm
      · intro j hj
        rw [hsl] at hj ⊢
        exact hvout _ (block_disjoint k k' l j hkk hj)
      · intro j hj
        rw [hsl] at hj ⊢
        exact hiout _ (block_disjoint k k' l j hkk hj)
  · rw [if_neg hlt]
    refine ⟨s, false, rfl, ⟨hsm, hsl, vsz, isz, good, leaf⟩, ?_, fun _ _ => rfl, rfl, rfl, rfl⟩
    exact hB.snoc_of_ge_last (x, i) hBne (by rw [hBlast]; exact not_lt.mp hlt)

end PMH.OrdP

/-! ###
# Order-min-hash: `hash_set` is self-clearing (C13/C12)
-/
namespace PMH.OrdP
open PMH PMH.OrdMH
set_option linter.unusedSectionVars false
variable {F G : Type} [Add F] [Mul F] [Div F] [LT F] [DecidableLT F] [NatCast F]

/-- the parameters of a sketcher: everything `hash_set` does not overwrite (of the shuffle only its size) -/
def Agree (s s' : OrdMH F) : Prop :=
  s.m = s'.m ∧ s.l = s'.l ∧ s.g = s'.g ∧ s.seed = s'.seed ∧ s.fy.m = s'.fy.m

/-- equal up to the shuffle's scratch state -/
def Eqv (s s' : OrdMH F) : Prop :=
  Agree s s' ∧ s.indices = s'.indices ∧ s.values = s'.values ∧ s.tracker = s'.tracker

theorem reset_eq {s s' : OrdMH F} (h : Eqv s s') :
    ({ s with fy := s.fy.reset } : OrdMH F) = { s' with fy := s'.fy.reset } := by
  obtain ⟨⟨h1, h2, h3, h4, h5⟩, h6, h7, h8⟩ := h
  cases s; cases s'
  simp only at h1 h2 h3 h4 h5 h6 h7 h8
  subst h1 h2 h3 h4 h6 h7 h8
  simp [C17.reset_forgets _ _ h5]

theorem setLoop_eqv (o : OrdOps F G) : ∀ (hs : List UInt64) (i : Nat) (cnt : List (UInt64 × Nat)) (s s' : OrdMH F),
    Eqv s s' →
    (∃ r r', setLoop o hs i cnt s = .ok r ∧ setLoop o hs i cnt s' = .ok r' ∧ Eqv r r') ∨
    (∃ e, setLoop o hs i cnt s = .error e ∧ setLoop o hs i cnt s' = .error e) := by
  intro hs
  cases hs with
  | nil => intro i cnt s s' h; exact Or.inl ⟨s, s', rfl, rfl, h⟩
  | cons a rest =>
    intro i cnt s s' h
    have : setLoop o (a :: rest) i cnt s = setLoop o (a :: rest) i cnt s' := by
      simp only [setLoop]
      rw [reset_eq h, h.1.2.2.2.1, h.1.1]
    rw [this]
    cases hr : setLoop o (a :: rest) i cnt s' with
    | ok r => exact Or.inl ⟨r, r, rfl, rfl, ⟨rfl, rfl, rfl, rfl, rfl⟩, rfl, rfl, rfl⟩
    | error e => exact Or.inr ⟨e, rfl, rfl⟩

/-- **`hashSet_self_clearing`** (C13/C12): the result of `hash_set` depends on the sketcher only
through `(m, l, g, seed, shuffle size)` and the tracker's shape — not on the store, the tracker
values or the shuffle state left behind by earlier calls. -/
theorem hashSet_self_clearing (o : OrdOps F G) (top : F) (s s' : OrdMH F) (hs : List UInt64)
    (h : Agree s s') (htm : s.tracker.m = s'.tracker.m) (hts : s.tracker.vals.size = s'.tracker.vals.size) :
    (hashSet o top s hs).map (fun r => (r.indices, r.values)) =
      (hashSet o top s' hs).map (fun r => (r.indices, r.values)) := by
  have h0 : Eqv ({ s with indices := Array.replicate (s.m * s.l) u64Max, values := Array.replicate (s.m * s.l) top
                          tracker := s.tracker.reset top } : OrdMH F)
      { s' with indices := Array.replicate (s'.m * s'.l) u64Max, values := Array.replicate (s'.m * s'.l) top
                tracker := s'.tracker.reset top } := by
    obtain ⟨h1, h2, h3, h4, h5⟩ := h
    refine ⟨⟨h1, h2, h3, h4, h5⟩, ?_, ?_, ?_⟩
    · simp only [h1, h2]
    · simp only [h1, h2]
    · simp only [Tracker.reset, htm, hts]
  by_cases hlen : hs.length < s.l
  · have hlen' : hs.length < s'.l := h.2.1 ▸ hlen
    simp only [hashSet, hlen, hlen', if_true]
  · have hlen' : ¬ hs.length < s'.l := h.2.1 ▸ hlen
    simp only [hashSet, hlen, hlen', if_false]
    rcases setLoop_eqv o hs 0 [] _ _ h0 with ⟨r, r', e1, e2, hr⟩ | ⟨e, e1, e2⟩
    · rw [e1, e2]
      obtain ⟨⟨h1, h2, h3, h4, h5⟩, h6, h7, h8⟩ := hr
      simp only [h1, h2, h6, h7]
      split <;> rfl
    · rw [e1, e2]

end PMH.OrdP

/-! ###
# Order-min-hash: the element loop and the sequence loop keep the `l` smallest points of every slot
-/
namespace PMH.OrdP
open PMH PMH.OrdMH PMH.MT PMH.C15
set_option linter.unusedSectionVars false
variable {K G : Type} [Field K] [LinearOrder K] [IsStrictOrderedRing K]

/-- the `(value, index)` pairs of the points of `P` that land on slot `k`, in order -/
def ptsOn (k : Nat) (P : List (Nat × K × Nat)) : List (K × Nat) :=
  (P.filter (fun p => decide (p.1 = k))).map (fun p => p.2)

theorem ptsOn_nil (k : Nat) : ptsOn k ([] : List (Nat × K × Nat)) = [] := rfl

theorem ptsOn_append (k : Nat) (P Q : List (Nat × K × Nat)) : ptsOn k (P ++ Q) = ptsOn k P ++ ptsOn k Q := by
  simp [ptsOn, List.filter_append]

theorem ptsOn_singleton (k : Nat) (p : Nat × K × Nat) : ptsOn k [p] = if p.1 = k then [p.2] else [] := by
  by_cases h : p.1 = k <;> simp [ptsOn, h]

theorem mem_ptsOn (k : Nat) (P : List (Nat × K × Nat)) (q : K × Nat) :
    q ∈ ptsOn k P ↔ (k, q.1, q.2) ∈ P := by
  unfold ptsOn
  simp only [List.mem_map, List.mem_filter, decide_eq_true_eq]
  constructor
  · rintro ⟨p, ⟨hp, rfl⟩, rfl⟩; exact hp
  · intro h; exact ⟨(k, q.1, q.2), ⟨h, rfl⟩, rfl⟩

/-- store invariant: well-formed, and every block holds the `l` smallest points of `P` on its slot -/
def Inv (top : K) (m l : Nat) (s : OrdMH K) (P : List (Nat × K × Nat)) : Prop :=
  WF top m l s ∧ ∀ k, k < m → BlockSpec top l (ptsOn k P) (blockOf top s k)

theorem Inv.set_fy {top : K} {m l : Nat} {s : OrdMH K} {P : List (Nat × K × Nat)} (h : Inv top m l s P) (fy : FY) :
    Inv top m l { s with fy := fy } P := by
  obtain ⟨⟨h1, h2, h3, h4, h5, h6⟩, hb⟩ := h
  exact ⟨⟨h1, h2, h3, h4, h5, h6⟩, hb⟩

theorem BlockSpec.append_of_ge_last {top : K} {l : Nat} {B : List (K × Nat)} (hne : B ≠ []) :
    ∀ (R A : List (K × Nat)), BlockSpec top l A B → (∀ p ∈ R, (B.getLast hne).1 ≤ p.1) → BlockSpec top l (A ++ R) B := by
  intro R
  induction R with
  | nil => intro A h _; simpa using h
  | cons p R ih =>
    intro A h hR
    have := ih (A ++ [p]) (h.snoc_of_ge_last p hne (hR p (by simp))) (fun q hq => hR q (by simp [hq]))
    simpa using this

/-- points whose value is not below the tracker maximum change no block -/
theorem Inv.append_dominated {top : K} {m l : Nat} (hl : 1 ≤ l) {s : OrdMH K} {P : List (Nat × K × Nat)}
    (h : Inv top m l s P) (mx : K) (hmx : ∀ k, k < m → vw top s.tracker.vals k ≤ mx)
    (R : List (Nat × K × Nat)) (hR : ∀ p ∈ R, mx ≤ p.2.1) : Inv top m l s (P ++ R) := by
  refine ⟨h.1, ?_⟩
  intro k hk
  rw [ptsOn_append]
  have hlen : (blockOf top s k).length = l := by rw [blockOf_length, h.1.hl]
  have hne : blockOf top s k ≠ [] := by
    intro e; rw [e] at hlen; simp at hlen; omega
  refine BlockSpec.append_of_ge_last hne _ _ (h.2 k hk) ?_
  intro q hq
  rw [getLast_blockOf, h.1.hl, ← h.1.leaf k hk]
  exact le_trans (hmx k hk) (hR _ ((mem_ptsOn k R q).mp hq))

/-- the static parameters a run never changes -/
def Static (m : Nat) (gvec : Array K) (seed : UInt64) (s : OrdMH K) : Prop :=
  s.g = gvec ∧ s.seed = seed ∧ s.fy.m = m

/-- **`elem_spec`** the `while x < max` loop of one element never fails, and is equivalent to offering
ALL the element's remaining points: the pruned ones are dominated by every block's last value. -/
theorem elemLoop_spec (top : K) (m l : Nat) (hm : 1 ≤ m) (hl : 1 ≤ l) (t : TOps K G) (hn : Nice t)
    (gvec : Array K) (hg : GNonneg gvec) (hgs : m - 1 ≤ gvec.size) (i : Nat) :
    ∀ (n fuel : Nat) (s : OrdMH K) (x : K) (j : Nat) (g : G) (pre : List Nat) (P : List (Nat × K × Nat)),
      1 ≤ n → n ≤ fuel → j + n = m → pre.length = j → FYMid m pre s.fy → s.g = gvec → Inv top m l s P →
      ∃ s', elemLoop t.toOps i fuel s x j g = .ok s' ∧ Inv top m l s' (P ++ ptsFrom t gvec i n s.fy x j g) ∧
        s'.g = s.g ∧ s'.seed = s.seed ∧ s'.fy.m = m := by
  intro n
  induction n with
  | zero => intro fuel s x j g pre P h1; omega
  | succ n ih =>
    intro fuel s x j g pre P _ hfuel hjn hpre hfy hsg hinv
    cases fuel with
    | zero => omega
    | succ f =>
    unfold elemLoop
    obtain ⟨mx, emx, hle, _⟩ := max_spec top m hm s.tracker hinv.1.good
    rw [emx]
    dsimp only
    by_cases hx : x < mx
    · rw [if_pos hx]
      obtain ⟨k, fy', enx, hfy', hk, _, hpts⟩ := ptsFrom_succ_mid t hn gvec i n hfy (by omega) x j g
      rw [hpts]
      simp only [TOps.toOps]
      rw [enx]
      dsimp only
      have hinv1 := hinv.set_fy fy'
      obtain ⟨s2, b, eu, wf2, hb2, hoth, hg2, hfy2, hseed2⟩ :=
        update_spec top m l hm hl _ hinv1.1 k hk (ptsOn k P) (hinv1.2 k hk) x i
      rw [eu]
      dsimp only
      have hinv2 : Inv top m l s2 (P ++ [(k, x, i)]) := by
        refine ⟨wf2, ?_⟩
        intro k' hk'
        rw [ptsOn_append, ptsOn_singleton]
        by_cases hkk : k = k'
        · subst hkk; rw [if_pos rfl]; exact hb2
        · rw [if_neg hkk, List.append_nil, hoth k' (fun e => hkk e.symm)]
          exact hinv1.2 k' hk'
      obtain ⟨mx2, emx2, hle2, _⟩ := max_spec top m hm s2.tracker wf2.good
      unfold Tracker.isUpdatePossible
      rw [emx2]
      dsimp only
      have hy : 0 ≤ (t.fe (t.fu g).2).1 := hn.1 _
      have hx' : x ≤ x + (t.fe (t.fu g).2).1 * gvec.getD j 0 := le_add_of_nonneg_right (mul_nonneg hy (hg j))
      by_cases hx2 : x < mx2
      · rw [decide_eq_true hx2]
        dsimp only
        rw [wf2.hm]
        by_cases hjm : j + 1 ≥ m
        · rw [if_pos hjm]
          have hn0 : n = 0 := by omega
          subst hn0
          refine ⟨s2, rfl, ?_, hg2, hseed2, by rw [hfy2]; exact hfy'.m_eq⟩
          simpa using hinv2
        · rw [if_neg hjm]
          have hgj : s2.g[j]? = some (gvec.getD j 0) := by
            rw [hg2]
            show s.g[j]? = _
            rw [hsg]
            simp [Array.getD_eq_getD_getElem?, show j < gvec.size by omega]
          rw [hgj]
          dsimp only
          have hfy2' : FYMid m (pre ++ [k]) s2.fy := by rw [hfy2]; exact hfy'
          obtain ⟨s', e', hinv', hg', hseed', hfm'⟩ := ih f s2 (x + (t.fe (t.fu g).2).1 * gvec.getD j 0) (j + 1) (t.fe (t.fu g).2).2 (pre ++ [k])
            (P ++ [(k, x, i)]) (by omega) (by omega) (by omega) (by simp [hpre]) hfy2' (by rw [hg2]; exact hsg) hinv2
          refine ⟨s', e', ?_, by rw [hg', hg2], by rw [hseed', hseed2], hfm'⟩
          rw [hfy2] at hinv'
          simpa using hinv'
      · rw [decide_eq_false hx2]
        dsimp only
        refine ⟨s2, rfl, ?_, hg2, hseed2, by rw [hfy2]; exact hfy'.m_eq⟩
        have := hinv2.append_dominated hl mx2 hle2
          (ptsFrom t gvec i n fy' (x + (t.fe (t.fu g).2).1 * gvec.getD j 0) (j + 1) (t.fe (t.fu g).2).2) (by
            intro p hp
            have := ptsFrom_ge t hn gvec hg i n fy' _ (j + 1) _ p hp
            exact le_trans (not_lt.mp hx2) (le_trans hx' this))
        simpa using this
    · rw [if_neg hx]
      refine ⟨s, rfl, ?_, rfl, rfl, hfy.m_eq⟩
      exact hinv.append_dominated hl mx hle _ (by
        intro p hp
        have := ptsFrom_ge t hn gvec hg i (n + 1) s.fy x j g p hp
        exact le_trans (not_lt.mp hx) this)

/-- **`elem_spec`**: processing one element (fresh shuffle, first draw `x_0`, then the pruned loop)
never fails and has the same effect on every block as offering ALL `m` points of the element. -/
theorem elem_spec (top : K) (m l : Nat) (hm : 1 ≤ m) (hl : 1 ≤ l) (t : TOps K G) (hn : Nice t)
    (gvec : Array K) (hg : GNonneg gvec) (hgs : m - 1 ≤ gvec.size) (i : Nat) (s : OrdMH K)
    (P : List (Nat × K × Nat)) (hinv : Inv top m l s P) (hsg : s.g = gvec) (hfm : s.fy.m = m) (g : G) :
    ∃ s', elemLoop t.toOps i (s.m + 2) { s with fy := s.fy.reset } (t.fe g).1 0 (t.fe g).2 = .ok s' ∧
      Inv top m l s' (P ++ elemPts t m gvec g i) ∧ s'.g = s.g ∧ s'.seed = s.seed ∧ s'.fy.m = m := by
  have hfy : ({ s with fy := s.fy.reset } : OrdMH K).fy = fy0 m := by
    show s.fy.reset = _
    rw [reset_eq_fy0, hfm]
  have hfy0 : FYMid m [] ({ s with fy := s.fy.reset } : OrdMH K).fy := by
    rw [hfy]; exact fyMid_fy0 m
  obtain ⟨s1, e1, hinv1, hg1, hseed1, hfm1⟩ := elemLoop_spec top m l hm hl t hn gvec hg hgs i m (s.m + 2)
    { s with fy := s.fy.reset } (t.fe g).1 0 (t.fe g).2 [] P hm (by rw [hinv.1.hm]; omega) (by omega) rfl hfy0 hsg
    (hinv.set_fy s.fy.reset)
  rw [hfy] at hinv1
  exact ⟨s1, e1, hinv1, hg1, hseed1, hfm1⟩

/-- all points of all elements of the sequence (unpruned), element by element; indices start at `i`,
occurrence counter `cnt` (threaded exactly as `setLoop` does) -/
def allPtsFrom (t : TOps K G) (m : Nat) (gvec : Array K) (seed : UInt64) :
    List UInt64 → Nat → List (UInt64 × Nat) → List (Nat × K × Nat)
  | [], _, _ => []
  | h :: rest, i, cnt =>
    elemPts t m gvec (t.mkGen h (bump cnt h).2.toUInt64 seed) i ++
      allPtsFrom t m gvec seed rest (i + 1) (bump cnt h).1

theorem setLoop_cons {F G : Type} [Add F] [Mul F] [Div F] [LT F] [DecidableLT F] [NatCast F]
    (o : OrdOps F G) (h : UInt64) (rest : List UInt64) (i : Nat) (cnt : List (UInt64 × Nat)) (s : OrdMH F) :
    setLoop o (h :: rest) i cnt s =
      match o.nextE (o.mkGen h (bump cnt h).2.toUInt64 s.seed) with
      | .error e => .error e
      | .ok p =>
        match elemLoop o i (s.m + 2) { s with fy := s.fy.reset } p.1 0 p.2 with
        | .error e => .error e
        | .ok s' => setLoop o rest (i + 1) (bump cnt h).1 s' := by
  simp only [setLoop]
  cases o.nextE (o.mkGen h (bump cnt h).2.toUInt64 s.seed) with
  | error e => rfl
  | ok p => rfl

theorem setLoop_spec (top : K) (m l : Nat) (hm : 1 ≤ m) (hl : 1 ≤ l) (t : TOps K G) (hn : Nice t)
    (gvec : Array K) (hg : GNonneg gvec) (hgs : m - 1 ≤ gvec.size) (seed : UInt64) :
    ∀ (hs : List UInt64) (i : Nat) (cnt : List (UInt64 × Nat)) (s : OrdMH K) (P : List (Nat × K × Nat)),
      Inv top m l s P → s.g = gvec → s.seed = seed → s.fy.m = m →
      ∃ s', setLoop t.toOps hs i cnt s = .ok s' ∧ Inv top m l s' (P ++ allPtsFrom t m gvec seed hs i cnt) ∧
        s'.g = gvec ∧ s'.seed = seed ∧ s'.fy.m = m := by
  intro hs
  induction hs with
  | nil => intro i cnt s P hinv h1 h2 h3; exact ⟨s, rfl, by simpa [allPtsFrom] using hinv, h1, h2, h3⟩
  | cons h rest ih =>
    intro i cnt s P hinv h1 h2 h3
    rw [setLoop_cons]
    have hne : t.toOps.nextE (t.toOps.mkGen h (bump cnt h).2.toUInt64 s.seed) =
        .ok (t.fe (t.mkGen h (bump cnt h).2.toUInt64 s.seed)) := rfl
    rw [hne]
    dsimp only
    have hinv0 := hinv.set_fy s.fy.reset
    have hfy : ({ s with fy := s.fy.reset } : OrdMH K).fy = fy0 m := by
      show s.fy.reset = _
      rw [reset_eq_fy0, h3]
    have hfy0 : FYMid m [] ({ s with fy := s.fy.reset } : OrdMH K).fy := by
      rw [hfy]; exact fyMid_fy0 m
    obtain ⟨s1, e1, hinv1, hg1, hseed1, hfm1⟩ := elemLoop_spec top m l hm hl t hn gvec hg hgs i m (s.m + 2)
      { s with fy := s.fy.reset } (t.fe (t.mkGen h (bump cnt h).2.toUInt64 s.seed)).1 0
      (t.fe (t.mkGen h (bump cnt h).2.toUInt64 s.seed)).2 [] P hm (by rw [hinv.1.hm]; omega) (by omega) rfl hfy0 h1 hinv0
    rw [e1]
    dsimp only
    obtain ⟨s', e', hinv', hg', hseed', hfm'⟩ := ih (i + 1) (bump cnt h).1 s1 _ hinv1 (by rw [hg1]; exact h1)
      (by rw [hseed1]; exact h2) hfm1
    refine ⟨s', e', ?_, hg', hseed', hfm'⟩
    rw [hfy] at hinv'
    rw [allPtsFrom, elemPts, ← List.append_assoc]
    rw [h2] at hinv'
    exact hinv'

end PMH.OrdP

/-! ###
# Order-min-hash: `hash_set` — main specification theorem, sorted index blocks
-/
namespace PMH.OrdP
open PMH PMH.OrdMH PMH.MT PMH.C15
set_option linter.unusedSectionVars false
variable {K G : Type} [Field K] [LinearOrder K] [IsStrictOrderedRing K]

theorem getElem?_flatten_uniform {α : Type} (l : Nat) : ∀ (L : List (List α)), (∀ b ∈ L, b.length = l) →
    ∀ (k j : Nat), j < l → L.flatten[k * l + j]? = (L[k]?).bind (fun b => b[j]?) := by
  intro L
  induction L with
  | nil => intro _ k j _; simp
  | cons b L ih =>
    intro hL k j hj
    have hb : b.length = l := hL b (by simp)
    rw [List.flatten_cons]
    cases k with
    | zero =>
      rw [Nat.zero_mul, Nat.zero_add, List.getElem?_append_left (by omega)]
      simp
    | succ k =>
      rw [List.getElem?_append_right (by rw [hb, Nat.succ_mul]; omega)]
      have : (k + 1) * l + j - b.length = k * l + j := by rw [hb, Nat.succ_mul]; omega
      rw [this, ih (fun b hb => hL b (by simp [hb])) k j hj]
      simp

/-- static well-formedness of a sketcher: what `ProbOrdMinHash2::new` establishes -/
structure Params (m l : Nat) (s : OrdMH K) : Prop where
  hm : s.m = m
  hl : s.l = l
  tm : s.tracker.m = m
  tsz : s.tracker.vals.size = 2 * m - 1
  fym : s.fy.m = m
  gsz : m - 1 ≤ s.g.size
  gnn : GNonneg s.g

/-- the state after the clearing prologue of `hash_set` -/
def cleared (top : K) (s : OrdMH K) : OrdMH K :=
  { s with indices := Array.replicate (s.m * s.l) u64Max, values := Array.replicate (s.m * s.l) top,
           tracker := s.tracker.reset top }

/-- the sorted index block `k` of a final state (what `create_signature` hashes) -/
def finalBlock (r : OrdMH K) (k : Nat) : List Nat := (List.range r.l).map (fun j => r.indices.getD (k * r.l + j) 0)

/-- `create_signature`'s bad-index test -/
def badIdx (s : OrdMH K) (n : Nat) : Bool :=
  ((List.range s.m).map (fun b => sortBlock (finalBlock s b))).any (fun b => b.any (fun ix => decide (ix ≥ n)))

theorem hashSet_eq (o : OrdOps K G) (top : K) (s : OrdMH K) (hs : List UInt64) :
    hashSet o top s hs =
      if hs.length < s.l then .error (.badArg "ordminhash data length must be greater than l") else
      match setLoop o hs 0 [] (cleared top s) with
      | .error e => .error e
      | .ok s' =>
        if badIdx s' hs.length then .error (.assertFail "ordminhash nb_bad_indices == 0")
        else .ok { s' with indices := ((List.range s'.m).map (fun b => sortBlock (finalBlock s' b))).flatten.toArray } := rfl

theorem cleared_inv (top : K) (m l : Nat) (hm : 1 ≤ m) (s : OrdMH K) (hp : Params m l s) :
    Inv top m l (cleared top s) [] := by
  obtain ⟨h1, h2, h3, h4, h5, h6, h7⟩ := hp
  have htr : s.tracker.reset top = Tracker.new top m := by
    unfold Tracker.reset Tracker.new
    rw [h4, h3]
  have hvw : ∀ i, vw top (Tracker.new top m).vals i = top := by
    intro j; unfold vw Tracker.new
    simp only [Array.getD_eq_getD_getElem?, Array.getElem?_replicate]
    split <;> simp
  have hgv : ∀ q, (Array.replicate (m * l) top).getD q top = top := by
    intro q
    simp only [Array.getD_eq_getD_getElem?, Array.getElem?_replicate]
    split <;> simp
  have hgi : ∀ q, (Array.replicate (m * l) u64Max).getD q u64Max = u64Max := by
    intro q
    simp only [Array.getD_eq_getD_getElem?, Array.getElem?_replicate]
    split <;> simp
  refine ⟨⟨h1, h2, by simp [cleared, h1, h2], by simp [cleared, h1, h2], ?_, ?_⟩, ?_⟩
  · show Good top m (s.tracker.reset top)
    rw [htr]; exact new_good top m hm
  · intro k hk
    show vw top (s.tracker.reset top).vals k = (Array.replicate (s.m * s.l) top).getD _ top
    rw [htr, hvw, h1, h2, hgv]
  · intro k hk
    unfold BlockSpec
    rw [ptsOn_nil, lSmallest_nil]
    apply List.ext_getElem?
    intro j
    rw [blockOf_getElem?]
    show (if j < s.l then some ((Array.replicate (s.m * s.l) top).getD _ top, (Array.replicate (s.m * s.l) u64Max).getD _ u64Max) else none) = _
    rw [h1, h2, hgv, hgi, List.getElem?_replicate]
    rfl
/-- all points of the whole sequence landing on slot `k`, as `(value, element index)` pairs in element order -/
def allPts (t : TOps K G) (m : Nat) (gvec : Array K) (seed : UInt64) (hs : List UInt64) (k : Nat) : List (K × Nat) :=
  ptsOn k (allPtsFrom t m gvec seed hs 0 [])

/-- **main theorem on the store** (before `create_signature` sorts the index blocks): from the cleared
state the sequence loop never fails, and every block holds exactly the `l` smallest of ALL points of
ALL elements on its slot (pruned points included). -/
theorem setLoop_cleared_spec (top : K) (m l : Nat) (hm : 1 ≤ m) (hl : 1 ≤ l) (t : TOps K G) (hn : Nice t)
    (s : OrdMH K) (hp : Params m l s) (hs : List UInt64) :
    ∃ s', setLoop t.toOps hs 0 [] (cleared top s) = .ok s' ∧ WF top m l s' ∧
      ∀ k, k < m → BlockSpec top l (allPts t m s.g s.seed hs k) (blockOf top s' k) := by
  obtain ⟨s', e, hinv, _, _, _⟩ := setLoop_spec top m l hm hl t hn s.g hp.gnn hp.gsz s.seed hs 0 []
    (cleared top s) [] (cleared_inv top m l hm s hp) rfl rfl hp.fym
  exact ⟨s', e, hinv.1, fun k hk => by simpa [allPts] using hinv.2 k hk⟩

theorem finalBlock_length (r : OrdMH K) (k : Nat) : (finalBlock r k).length = r.l := by simp [finalBlock]

theorem finalBlock_getElem? (r : OrdMH K) (k j : Nat) :
    (finalBlock r k)[j]? = if j < r.l then some (r.indices.getD (k * r.l + j) 0) else none := by
  unfold finalBlock
  rw [List.getElem?_map]
  by_cases h : j < r.l
  · rw [List.getElem?_range h, if_pos h]; rfl
  · rw [if_neg h, List.getElem?_eq_none (by simpa using h)]; rfl

/-- block `k` of the result is the sorted block `k` of the store -/
theorem finalBlock_sorted_store (s' : OrdMH K) (k : Nat) (hk : k < s'.m) :
    finalBlock ({ s' with indices := ((List.range s'.m).map (fun b => sortBlock (finalBlock s' b))).flatten.toArray } : OrdMH K) k
      = sortBlock (finalBlock s' k) := by
  apply List.ext_getElem?
  intro j
  rw [finalBlock_getElem?]
  dsimp only
  by_cases hj : j < s'.l
  · rw [if_pos hj]
    have hflat := getElem?_flatten_uniform s'.l ((List.range s'.m).map (fun b => sortBlock (finalBlock s' b)))
      (by
        intro b hb
        obtain ⟨c, _, rfl⟩ := List.mem_map.mp hb
        rw [sortBlock_length, finalBlock_length]) k j hj
    rw [List.getElem?_map, List.getElem?_range hk] at hflat
    simp only [Option.map_some, Option.bind_some] at hflat
    have hlen : j < (sortBlock (finalBlock s' k)).length := by rw [sortBlock_length, finalBlock_length]; exact hj
    rw [List.getElem?_eq_getElem hlen] at hflat ⊢
    simp [Array.getD_eq_getD_getElem?, hflat]
  · rw [if_neg hj, List.getElem?_eq_none]
    rw [sortBlock_length, finalBlock_length]; omega

theorem finalBlock_eq_blockOf (top : K) (m l : Nat) (s' : OrdMH K) (hwf : WF top m l s') (k : Nat) (hk : k < m) :
    finalBlock s' k = (blockOf top s' k).map (·.2) := by
  unfold finalBlock blockOf
  rw [List.map_map]
  apply List.map_congr_left
  intro j hj
  rw [List.mem_range] at hj
  have : k * s'.l + j < s'.indices.size := by
    rw [hwf.isz, hwf.hl]; exact block_in_range k m l j hk (by rw [← hwf.hl]; exact hj)
  simp [Array.getD_eq_getD_getElem?, this]

/-- **`hashSet_spec`** (MAIN): a run of `hash_set` that returns: the store reached by the sequence
loop satisfies the block specification for every slot w.r.t. ALL points of ALL elements, the values
are returned unchanged and every index block is returned sorted, all indices being real. -/
theorem hashSet_spec (top : K) (m l : Nat) (hm : 1 ≤ m) (hl : 1 ≤ l) (t : TOps K G) (hn : Nice t)
    (s : OrdMH K) (hp : Params m l s) (hs : List UInt64) (r : OrdMH K) (hr : hashSet t.toOps top s hs = .ok r) :
    ∃ s', setLoop t.toOps hs 0 [] (cleared top s) = .ok s' ∧ WF top m l s' ∧
      (∀ k, k < m → BlockSpec top l (allPts t m s.g s.seed hs k) (blockOf top s' k)) ∧
      r.values = s'.values ∧ r.m = m ∧ r.l = l ∧
      (∀ k, k < m → finalBlock r k = sortBlock ((blockOf top s' k).map (·.2))) ∧
      (∀ k, k < m → ∀ ix ∈ finalBlock r k, ix < hs.length) := by
  obtain ⟨s', e, hwf, hb⟩ := setLoop_cleared_spec top m l hm hl t hn s hp hs
  rw [hashSet_eq, e] at hr
  split at hr
  · exact absurd hr (by simp)
  · dsimp only at hr
    split at hr
    · exact absurd hr (by simp)
    · rename_i hbad
      have hr' := (Except.ok.inj hr).symm
      have hfb : ∀ k, k < m → finalBlock r k = sortBlock (finalBlock s' k) := by
        intro k hk
        rw [hr']
        exact finalBlock_sorted_store s' k (by rw [hwf.hm]; exact hk)
      refine ⟨s', e, hwf, hb, by rw [hr'], by rw [hr']; exact hwf.hm, by rw [hr']; exact hwf.hl, ?_, ?_⟩
      · intro k hk
        rw [hfb k hk, finalBlock_eq_blockOf top m l s' hwf k hk]
      · intro k hk ix hix
        rw [hfb k hk] at hix
        by_contra hcon
        apply hbad
        unfold badIdx
        rw [List.any_eq_true]
        refine ⟨_, List.mem_map.mpr ⟨k, List.mem_range.mpr (by rw [hwf.hm]; exact hk), rfl⟩, ?_⟩
        rw [List.any_eq_true]
        exact ⟨ix, hix, by simpa using hcon⟩

/-- **`sorted_indices`**: every index block of the result is sorted increasingly and is a permutation
of the indices of the `l` smallest points of its slot — the signature spells the selected elements in
sequence order. -/
theorem sorted_indices (top : K) (m l : Nat) (hm : 1 ≤ m) (hl : 1 ≤ l) (t : TOps K G) (hn : Nice t)
    (s : OrdMH K) (hp : Params m l s) (hs : List UInt64) (r : OrdMH K) (hr : hashSet t.toOps top s hs = .ok r)
    (k : Nat) (hk : k < m) :
    (finalBlock r k).Pairwise (· ≤ ·) ∧
      (finalBlock r k).Perm ((lSmallest top l (allPts t m s.g s.seed hs k)).map (·.2)) := by
  obtain ⟨s', _, _, hb, _, _, _, hfb, _⟩ := hashSet_spec top m l hm hl t hn s hp hs r hr
  rw [hfb k hk]
  have := hb k hk
  unfold BlockSpec at this
  rw [this]
  exact ⟨sortBlock_sorted _, sortBlock_perm _⟩

end PMH.OrdP

/-! ###
# Order-min-hash: structure of the point lists, `no_bad_index`, order-freeness of the selection (C11)
-/
namespace PMH.OrdP
open PMH PMH.OrdMH PMH.MT PMH.C15
set_option linter.unusedSectionVars false
variable {K G : Type} [Field K] [LinearOrder K] [IsStrictOrderedRing K]

/-- `ProbOrdMinHash2::new` establishes the static parameters -/
theorem new_params (top : K) (m l : Nat) (seed : UInt64) (s : OrdMH K) (h : OrdMH.new top m l seed = .ok s) :
    Params m l s ∧ s.seed = seed ∧ s.g = (Array.range (m - 1)).map (fun i => ((m : Nat) : K) / (((m - (i + 1) : Nat)) : K)) := by
  unfold OrdMH.new at h
  split at h
  · exact absurd h (by simp)
  · have := (Except.ok.inj h).symm
    subst this
    refine ⟨⟨rfl, rfl, rfl, by simp [Tracker.new], rfl, by simp, ?_⟩, rfl, rfl⟩
    intro j
    simp only [Array.getD_eq_getD_getElem?, Array.getElem?_map, Array.getElem?_range]
    by_cases hj : j < m - 1
    · simp only [hj, if_true, Option.map_some, Option.getD_some]
      exact div_nonneg (Nat.cast_nonneg _) (Nat.cast_nonneg _)
    · simp [hj]

/-- the value of the (unique) point of the element with generator `g` on slot `k` -/
def slotVal (t : TOps K G) (m : Nat) (gvec : Array K) (g : G) (k : Nat) : K :=
  ((ptsOn k (elemPts t m gvec g 0)).head?.map (·.1)).getD 0

theorem ptsOn_elemPts (t : TOps K G) (hn : Nice t) (m : Nat) (gvec : Array K) (g : G) (i k : Nat) (hk : k < m) :
    ptsOn k (elemPts t m gvec g i) = [(slotVal t m gvec g k, i)] := by
  have len1 : ∀ i, (ptsOn k (elemPts t m gvec g i)).length = 1 := by
    intro i
    unfold ptsOn
    rw [List.length_map, ← List.countP_eq_length_filter]
    have hc : List.countP (fun p : Nat × K × Nat => decide (p.1 = k)) (elemPts t m gvec g i) =
        List.count k ((elemPts t m gvec g i).map (·.1)) := by
      rw [List.count, List.countP_map]
      congr 1
    rw [hc, (elemPts_slots_perm t hn m gvec g i).count_eq]
    exact List.count_eq_one_of_mem List.nodup_range (List.mem_range.mpr hk)
  have hfst : (ptsOn k (elemPts t m gvec g i)).map (·.1) = (ptsOn k (elemPts t m gvec g 0)).map (·.1) := by
    have := congrArg (fun L : List (Nat × K) => (L.filter (fun p => decide (p.1 = k))).map (·.2))
      (elemPts_reindex t m gvec g i 0)
    simp only [List.filter_map, List.map_map] at this
    simpa [ptsOn, Function.comp_def] using this
  obtain ⟨q, hq⟩ := List.length_eq_one_iff.mp (len1 i)
  obtain ⟨q0, hq0⟩ := List.length_eq_one_iff.mp (len1 0)
  rw [hq, hq0] at hfst
  simp only [List.map_cons, List.map_nil, List.cons.injEq, and_true] at hfst
  have hidx : q.2 = i := by
    have hm : q ∈ ptsOn k (elemPts t m gvec g i) := by rw [hq]; simp
    exact elemPts_idx t m gvec g i _ ((mem_ptsOn k _ q).mp hm)
  rw [hq]
  unfold slotVal
  rw [hq0]
  simp only [List.head?_cons, Option.map_some, Option.getD_some]
  rw [← hfst, ← hidx]

/-- the generator of the element labelled `(hash, occurrence)` -/
def gen (t : TOps K G) (seed : UInt64) (lam : UInt64 × Nat) : G := t.mkGen lam.1 lam.2.toUInt64 seed

/-- slot `k` receives exactly one point per element: its list of pairs is the labelled sequence
mapped through `slotVal` -/
theorem ptsOn_allPtsFrom (t : TOps K G) (hn : Nice t) (m : Nat) (gvec : Array K) (seed : UInt64) (k : Nat) (hk : k < m) :
    ∀ (hs : List UInt64) (i : Nat) (cnt : List (UInt64 × Nat)),
      ptsOn k (allPtsFrom t m gvec seed hs i cnt) =
        ((labelsFrom cnt hs).zipIdx i).map (fun p => (slotVal t m gvec (gen t seed p.1) k, p.2)) := by
  intro hs
  induction hs with
  | nil => intro i cnt; rfl
  | cons h rest ih =>
    intro i cnt
    rw [allPtsFrom, ptsOn_append, ptsOn_elemPts t hn m gvec _ i k hk, ih, labelsFrom, List.zipIdx_cons, List.map_cons]
    rfl

theorem allPts_eq (t : TOps K G) (hn : Nice t) (m : Nat) (gvec : Array K) (seed : UInt64) (hs : List UInt64)
    (k : Nat) (hk : k < m) :
    allPts t m gvec seed hs k = ((labels hs).zipIdx).map (fun p => (slotVal t m gvec (gen t seed p.1) k, p.2)) :=
  ptsOn_allPtsFrom t hn m gvec seed k hk hs 0 []

theorem allPts_length (t : TOps K G) (hn : Nice t) (m : Nat) (gvec : Array K) (seed : UInt64) (hs : List UInt64)
    (k : Nat) (hk : k < m) : (allPts t m gvec seed hs k).length = hs.length := by
  rw [allPts_eq t hn m gvec seed hs k hk]
  simp [labels, labelsFrom_length]

theorem allPts_idx_lt (t : TOps K G) (hn : Nice t) (m : Nat) (gvec : Array K) (seed : UInt64) (hs : List UInt64)
    (k : Nat) (hk : k < m) (q : K × Nat) (hq : q ∈ allPts t m gvec seed hs k) : q.2 < hs.length := by
  rw [allPts_eq t hn m gvec seed hs k hk] at hq
  obtain ⟨p, hp, rfl⟩ := List.mem_map.mp hq
  have := List.snd_lt_of_mem_zipIdx hp
  simpa [labels, labelsFrom_length] using this

theorem kept_length (top : K) (l : Nat) (A : List (K × Nat)) :
    (kept top l A).length = min l (A.filter (fun p => decide (p.1 < top))).length := by
  unfold kept; rw [List.length_take, ssort_length]

/-- a block is full of real pairs iff at least `l` points with value `< top` were offered on its slot -/
theorem block_full_iff (top : K) (l : Nat) (A : List (K × Nat)) :
    (kept top l A).length = l ↔ l ≤ (A.filter (fun p => decide (p.1 < top))).length := by
  rw [kept_length]; omega

theorem lSmallest_eq_kept_of_full (top : K) (l : Nat) (A : List (K × Nat))
    (h : l ≤ (A.filter (fun p => decide (p.1 < top))).length) : lSmallest top l A = kept top l A := by
  rw [lSmallest_eq, (block_full_iff top l A).mpr h]; simp

/-- **`no_bad_index`**: if the sequence has at least `l` elements and every point value stays below
`top` (so that each of the `n ≥ l` elements offers a real pair to every slot), every block fills up and
the `nb_bad_indices` assertion of `create_signature` does not fire: `hash_set` returns. -/
theorem no_bad_index (top : K) (m l : Nat) (hm : 1 ≤ m) (hl : 1 ≤ l) (t : TOps K G) (hn : Nice t)
    (s : OrdMH K) (hp : Params m l s) (hs : List UInt64) (hlen : l ≤ hs.length)
    (hlt : ∀ p ∈ allPtsFrom t m s.g s.seed hs 0 [], p.2.1 < top) :
    ∃ r, hashSet t.toOps top s hs = .ok r := by
  obtain ⟨s', e, hwf, hb⟩ := setLoop_cleared_spec top m l hm hl t hn s hp hs
  rw [hashSet_eq, e, if_neg (by rw [hp.hl]; omega)]
  dsimp only
  have hgood : ¬ badIdx s' hs.length = true := by
    unfold badIdx
    rw [List.any_eq_true]
    rintro ⟨b, hbm, hb2⟩
    obtain ⟨k, hk, rfl⟩ := List.mem_map.mp hbm
    rw [List.mem_range, hwf.hm] at hk
    rw [List.any_eq_true] at hb2
    obtain ⟨ix, hix, hge⟩ := hb2
    rw [mem_sortBlock, finalBlock_eq_blockOf top m l s' hwf k hk] at hix
    have hspec := hb k hk
    unfold BlockSpec at hspec
    have hall : (allPts t m s.g s.seed hs k).filter (fun p => decide (p.1 < top)) = allPts t m s.g s.seed hs k := by
      rw [List.filter_eq_self]
      intro q hq
      have := hlt _ ((mem_ptsOn k _ q).mp hq)
      simpa using this
    rw [hspec, lSmallest_eq_kept_of_full top l _ (by rw [hall, allPts_length t hn m s.g s.seed hs k hk]; exact hlen)] at hix
    obtain ⟨q, hq, rfl⟩ := List.mem_map.mp hix
    have := allPts_idx_lt t hn m s.g s.seed hs k hk q (mem_kept top l _ q hq).1
    simp at hge
    omega
  rw [if_neg hgood]
  exact ⟨_, rfl⟩

end PMH.OrdP

namespace PMH.OrdP
open PMH PMH.OrdMH
set_option linter.unusedSectionVars false

section ListSel
variable {K : Type} [LinearOrder K]

/-- in a strictly sorted list, the first `l` entries are those with fewer than `l` entries below them -/
theorem mem_take_iff_countP_lt : ∀ (S : List (K × Nat)) (l : Nat) (q : K × Nat),
    S.Pairwise (fun a b => a.1 < b.1) → q ∈ S →
    (q ∈ S.take l ↔ S.countP (fun a => decide (a.1 < q.1)) < l) := by
  intro S
  induction S with
  | nil => intro l q _ hq; simp at hq
  | cons a S ih =>
    intro l q hS hq
    obtain ⟨h1, h2⟩ := List.pairwise_cons.mp hS
    cases l with
    | zero => simp
    | succ l =>
      rw [List.take_succ_cons, List.countP_cons]
      rcases List.mem_cons.mp hq with rfl | hq'
      · have h0 : S.countP (fun a => decide (a.1 < q.1)) = 0 := by
          rw [List.countP_eq_zero]
          intro b hb
          have := h1 b hb
          simpa using le_of_lt this
        simp [h0]
      · have hlt : a.1 < q.1 := h1 q hq'
        have hne : q ≠ a := by rintro rfl; exact lt_irrefl _ hlt
        rw [List.mem_cons, ih l q h2 hq']
        simp [hne, hlt]

theorem ssort_strict (A : List (K × Nat)) (hA : A.Pairwise (fun a b => a.1 ≠ b.1)) :
    (ssort A).Pairwise (fun a b => a.1 < b.1) := by
  have h1 : (ssort A).Pairwise (fun a b => a.1 ≠ b.1) :=
    ((ssort_perm A).pairwise_iff (fun {a b} h => Ne.symm h)).mpr hA
  exact (h1.and (ssort_sorted A)).imp (fun ⟨hne, hle⟩ => lt_of_le_of_ne hle hne)

theorem nodup_of_pairwise_fst_ne (A : List (K × Nat)) (hA : A.Pairwise (fun a b => a.1 ≠ b.1)) : A.Nodup :=
  hA.imp (fun h e => h (by rw [e]))

/-- with pairwise distinct values, the kept pairs are those with value `< top` having fewer than `l`
competitors of smaller value -/
theorem kept_perm_filter (top : K) (l : Nat) (A : List (K × Nat))
    (hA : (A.filter (fun p => decide (p.1 < top))).Pairwise (fun a b => a.1 ≠ b.1)) :
    (kept top l A).Perm ((A.filter (fun p => decide (p.1 < top))).filter
      (fun q => decide ((A.filter (fun p => decide (p.1 < top))).countP (fun a => decide (a.1 < q.1)) < l))) := by
  have hs := ssort_strict _ hA
  have hnd : (ssort (A.filter (fun p => decide (p.1 < top)))).Nodup :=
    (ssort_perm _).nodup_iff.mpr (nodup_of_pairwise_fst_ne _ hA)
  unfold kept
  rw [List.perm_ext_iff_of_nodup (hnd.sublist (List.take_sublist _ _)) ((nodup_of_pairwise_fst_ne _ hA).filter _)]
  intro q
  constructor
  · intro hq
    have hq' : q ∈ ssort (A.filter (fun p => decide (p.1 < top))) := List.mem_of_mem_take hq
    have := (mem_take_iff_countP_lt _ l q hs hq').mp hq
    rw [(ssort_perm _).countP_eq] at this
    rw [List.mem_filter]
    exact ⟨(mem_ssort _ q).mp hq', by simpa using this⟩
  · intro hq
    rw [List.mem_filter] at hq
    have hq' := (mem_ssort _ q).mpr hq.1
    refine (mem_take_iff_countP_lt _ l q hs hq').mpr ?_
    rw [(ssort_perm _).countP_eq]
    simpa using hq.2

variable {Λ : Type}

/-- the selection predicate of a slot: value below `top` and fewer than `l` elements of smaller value -/
def selQ (top : K) (l : Nat) (val : Λ → K) (L : List Λ) (lam : Λ) : Bool :=
  decide (val lam < top) &&
    decide (L.countP (fun mu => decide (val mu < val lam) && decide (val mu < top)) < l)

theorem selQ_perm (top : K) (l : Nat) (val : Λ → K) (L L' : List Λ) (h : L.Perm L') :
    selQ top l val L = selQ top l val L' := by
  funext lam
  unfold selQ
  rw [h.countP_eq]

/-- the labels of the kept pairs of the slot list `[(val λ_i, i)]` are the labels selected by `selQ` -/
theorem kept_labels (top : K) (l : Nat) (val : Λ → K) (L : List Λ) (hinj : L.Pairwise (fun a b => val a ≠ val b)) :
    ((kept top l ((L.zipIdx).map (fun p => (val p.1, p.2)))).map (fun q => L[q.2]?)).Perm
      ((L.filter (selQ top l val L)).map some) := by
  have hZ : (L.zipIdx).Pairwise (fun p p' => val p.1 ≠ val p'.1) := by
    have := hinj
    rw [← List.zipIdx_map_fst 0 L, List.pairwise_map] at this
    exact this
  have hA : ((L.zipIdx).map (fun p => (val p.1, p.2))).Pairwise (fun a b => a.1 ≠ b.1) := by
    rw [List.pairwise_map]; exact hZ
  have hA' := hA.sublist (List.filter_sublist (p := fun p => decide (p.1 < top)))
  refine ((kept_perm_filter top l _ hA').map _).trans ?_
  apply List.Perm.of_eq
  have hcount : ∀ v : K, (((L.zipIdx).map (fun p => (val p.1, p.2))).filter (fun p => decide (p.1 < top))).countP
      (fun a => decide (a.1 < v)) = L.countP (fun mu => decide (val mu < v) && decide (val mu < top)) := by
    intro v
    rw [List.countP_filter, List.countP_map]
    conv_rhs => rw [← List.zipIdx_map_fst 0 L, List.countP_map]
    rfl
  simp only [hcount]
  rw [List.filter_filter, List.filter_map, List.map_map]
  have hmap : ∀ p ∈ (L.zipIdx).filter ((fun a : K × Nat => decide (L.countP (fun mu => decide (val mu < a.1) && decide (val mu < top)) < l) && decide (a.1 < top)) ∘ fun p => (val p.1, p.2)),
      ((fun q : K × Nat => L[q.2]?) ∘ fun p : Λ × Nat => (val p.1, p.2)) p = (some ∘ Prod.fst) p := by
    intro p hp
    have := (List.mem_filter.mp hp).1
    exact List.mem_zipIdx_iff_getElem?.mp this
  rw [List.map_congr_left hmap, ← List.map_map]
  congr 1
  conv_rhs => rw [← List.zipIdx_map_fst 0 L, List.filter_map]
  congr 1
  apply List.filter_congr
  intro p _
  simp [selQ, Bool.and_comm]

end ListSel
section Sel
open PMH.MT PMH.C15
variable {K G : Type} [Field K] [LinearOrder K] [IsStrictOrderedRing K]

/-- the value of the point of the element labelled `lam = (hash, occurrence)` on slot `k` -/
def labVal (t : TOps K G) (m : Nat) (gvec : Array K) (seed : UInt64) (k : Nat) (lam : UInt64 × Nat) : K :=
  slotVal t m gvec (gen t seed lam) k

/-- what `labVal` is: the element with index `i` and label `lam` has the point `(k, labVal … k lam, i)` -/
theorem labVal_mem (t : TOps K G) (hn : Nice t) (m : Nat) (gvec : Array K) (seed : UInt64) (k : Nat) (hk : k < m)
    (lam : UInt64 × Nat) (i : Nat) :
    (k, labVal t m gvec seed k lam, i) ∈ elemPts t m gvec (t.mkGen lam.1 lam.2.toUInt64 seed) i := by
  have := ptsOn_elemPts t hn m gvec (gen t seed lam) i k hk
  have hm : (labVal t m gvec seed k lam, i) ∈ ptsOn k (elemPts t m gvec (gen t seed lam) i) := by
    rw [this]; simp [labVal]
  exact (mem_ptsOn k _ _).mp hm

/-- tie-freeness: no two different `(hash, occurrence)` pairs of the sequence produce the same value
at the same slot -/
def TieFree (t : TOps K G) (m : Nat) (gvec : Array K) (seed : UInt64) (hs : List UInt64) : Prop :=
  ∀ k, k < m → ∀ lam ∈ labels hs, ∀ mu ∈ labels hs,
    labVal t m gvec seed k lam = labVal t m gvec seed k mu → lam = mu

theorem TieFree.perm {t : TOps K G} {m : Nat} {gvec : Array K} {seed : UInt64} {hs hs' : List UInt64}
    (h : TieFree t m gvec seed hs) (hp : hs.Perm hs') : TieFree t m gvec seed hs' := by
  intro k hk lam hl mu hm e
  have hperm := labels_perm hs hs' hp
  exact h k hk lam (hperm.symm.subset hl) mu (hperm.symm.subset hm) e

/-- the `(hash, occurrence)` labels of the elements whose indices are in block `k` of the result -/
def selLabels (hs : List UInt64) (r : OrdMH K) (k : Nat) : List (Option (UInt64 × Nat)) :=
  (finalBlock r k).map (fun i => (labels hs)[i]?)

/-- the selected elements of slot `k`, characterised independently of the order of the sequence -/
theorem selected_char (top : K) (m l : Nat) (hm : 1 ≤ m) (hl : 1 ≤ l) (t : TOps K G) (hn : Nice t)
    (s : OrdMH K) (hp : Params m l s) (hs : List UInt64) (hlen64 : hs.length ≤ u64Max)
    (htf : TieFree t m s.g s.seed hs) (r : OrdMH K) (hr : hashSet t.toOps top s hs = .ok r) (k : Nat) (hk : k < m) :
    (selLabels hs r k).Perm
      (((labels hs).filter (selQ top l (labVal t m s.g s.seed k) (labels hs))).map some) := by
  obtain ⟨s', _, hwf, hb, _, _, _, hfb, hix⟩ := hashSet_spec top m l hm hl t hn s hp hs r hr
  have hspec := hb k hk
  unfold BlockSpec at hspec
  have hfin : (finalBlock r k).Perm ((lSmallest top l (allPts t m s.g s.seed hs k)).map (·.2)) := by
    rw [hfb k hk, hspec]; exact sortBlock_perm _
  -- no padding in the block
  have hfull : l - (kept top l (allPts t m s.g s.seed hs k)).length = 0 := by
    by_contra hcon
    have hpad : pad top ∈ lSmallest top l (allPts t m s.g s.seed hs k) := by
      rw [lSmallest_eq]
      apply List.mem_append_right
      rw [List.mem_replicate]
      exact ⟨hcon, rfl⟩
    have : u64Max ∈ finalBlock r k := hfin.symm.subset (List.mem_map.mpr ⟨_, hpad, rfl⟩)
    have := hix k hk _ this
    omega
  rw [lSmallest_eq, hfull, List.replicate_zero, List.append_nil] at hfin
  unfold selLabels
  refine (hfin.map _).trans ?_
  rw [List.map_map, allPts_eq t hn m s.g s.seed hs k hk]
  have hinj : (labels hs).Pairwise (fun a b => labVal t m s.g s.seed k a ≠ labVal t m s.g s.seed k b) :=
    (labels_nodup hs).imp_of_mem (fun {a b} ha hb hne e => hne (htf k hk a ha b hb e))
  exact kept_labels top l (labVal t m s.g s.seed k) (labels hs) hinj

/-- **`selection_order_free`** (C11): for two sequences that are permutations of each other (and
tie-free), every slot selects the same multiset of `(hash, occurrence)` pairs. -/
theorem selection_order_free (top : K) (m l : Nat) (hm : 1 ≤ m) (hl : 1 ≤ l) (t : TOps K G) (hn : Nice t)
    (s : OrdMH K) (hp : Params m l s) (hs hs' : List UInt64) (hperm : hs.Perm hs') (hlen64 : hs.length ≤ u64Max)
    (htf : TieFree t m s.g s.seed hs) (r r' : OrdMH K)
    (hr : hashSet t.toOps top s hs = .ok r) (hr' : hashSet t.toOps top s hs' = .ok r') (k : Nat) (hk : k < m) :
    (selLabels hs r k).Perm (selLabels hs' r' k) := by
  have h1 := selected_char top m l hm hl t hn s hp hs hlen64 htf r hr k hk
  have h2 := selected_char top m l hm hl t hn s hp hs' (by rw [← hperm.length_eq]; exact hlen64)
    (htf.perm hperm) r' hr' k hk
  refine h1.trans (List.Perm.trans ?_ h2.symm)
  have hL := labels_perm hs hs' hperm
  rw [selQ_perm top l _ _ _ hL]
  exact (hL.filter _).map _

theorem selLabels_map_fst (hs : List UInt64) (r : OrdMH K) (k : Nat) :
    (selLabels hs r k).map (Option.map Prod.fst) = (finalBlock r k).map (fun i => hs[i]?) := by
  unfold selLabels
  rw [List.map_map]
  apply List.map_congr_left
  intro i _
  have : (labels hs).map Prod.fst = hs := labelsFrom_map_fst [] hs
  conv_rhs => rw [← this]
  simp

/-- the multiset of selected hashes of every slot is order-free -/
theorem selected_hashes_invariant (top : K) (m l : Nat) (hm : 1 ≤ m) (hl : 1 ≤ l) (t : TOps K G) (hn : Nice t)
    (s : OrdMH K) (hp : Params m l s) (hs hs' : List UInt64) (hperm : hs.Perm hs') (hlen64 : hs.length ≤ u64Max)
    (htf : TieFree t m s.g s.seed hs) (r r' : OrdMH K)
    (hr : hashSet t.toOps top s hs = .ok r) (hr' : hashSet t.toOps top s hs' = .ok r') (k : Nat) (hk : k < m) :
    ((finalBlock r k).map (fun i => hs[i]?)).Perm ((finalBlock r' k).map (fun i => hs'[i]?)) := by
  rw [← selLabels_map_fst, ← selLabels_map_fst]
  exact (selection_order_free top m l hm hl t hn s hp hs hs' hperm hlen64 htf r r' hr hr' k hk).map _

/-- **`l1_selected_hash_invariant`**: for `l = 1` the hash of the selected element of every slot is
the same for both orders. -/
theorem l1_selected_hash_invariant (top : K) (m : Nat) (hm : 1 ≤ m) (t : TOps K G) (hn : Nice t)
    (s : OrdMH K) (hp : Params m 1 s) (hs hs' : List UInt64) (hperm : hs.Perm hs') (hlen64 : hs.length ≤ u64Max)
    (htf : TieFree t m s.g s.seed hs) (r r' : OrdMH K)
    (hr : hashSet t.toOps top s hs = .ok r) (hr' : hashSet t.toOps top s hs' = .ok r') (k : Nat) (hk : k < m) :
    (finalBlock r k).map (fun i => hs[i]?) = (finalBlock r' k).map (fun i => hs'[i]?) := by
  have h := selected_hashes_invariant top m 1 hm (le_refl 1) t hn s hp hs hs' hperm hlen64 htf r r' hr hr' k hk
  obtain ⟨_, _, _, _, _, _, hrl, _, _⟩ := hashSet_spec top m 1 hm (le_refl 1) t hn s hp hs r hr
  have hlen : ((finalBlock r k).map (fun i => hs[i]?)).length = 1 := by
    rw [List.length_map, finalBlock_length, hrl]
  obtain ⟨a, ha⟩ := List.length_eq_one_iff.mp hlen
  rw [ha] at h ⊢
  exact List.singleton_perm.mp h

end Sel

end PMH.OrdP

/-! ### axiom audit -/

import PMH.Proofs.RealAnalysis
import Mathlib.MeasureTheory.Measure.Lebesgue.Basic
import Mathlib.MeasureTheory.Measure.Lebesgue.Integral
import Mathlib.MeasureTheory.Measure.Prod
import Mathlib.MeasureTheory.Group.LIntegral
import Mathlib.MeasureTheory.Constructions.Pi
import Mathlib.MeasureTheory.Integral.IntervalIntegral.FundThmCalculus
import Mathlib.Analysis.Convex.SpecificFunctions.Basic
import Mathlib.Probability.Independence.Basic
import Mathlib.Probability.Independence.InfinitePi
/-!
# C16 — the law of `ExpRestricted01::sample` on i.i.d. uniform draws

The probabilistic half of C16, for the model `PMH.Exp01` instantiated at `ℝ` (`RA.realOps`).
What the code does (`Model/Exp01.lean`): a branch draw `u0` returns `c1·u0` when `c1·u0 < 1`
(probability `1/c1`, uniform value); otherwise a rejection loop.  One candidate of the loop draws an
abscissa `a`; if `a < c2` it returns `a` at once (early exit, ONE draw); otherwise it draws `u`, sets
`y0 = u/2`, reflects `(a, y0)` to `(1-a, 1-y0)` when `1 - a < y0`, and accepts the point `(x, y)` when
`x ≤ c3(1-y)` or `c1·y ≤ 1-x` or `y·c1·λ ≤ expm1(λ(1-x))` (`accept`; equivalent to `y ≤ T x`,
`accept_iff`).  So `(x, y)` is uniform (density 2) on the triangle under the chord of `T`, and the early
exit is the strip where `y0 < 1/2 ≤ T a` (`T c2 = 1/2`).

* A  `volume_accept` (Fubini, candidate coordinates, height `T`), `volume_accSet` (the same for the
     model's candidate as a function of its two draws, early exit + halving + reflection: height `2T`),
     `accept_conditional_law`, `cand_conditional_law` (`P(value ∈ A | accepted) = ∫_A T / I`).
* B  `volume_passSet` (branch draw + one candidate on the unit cube of `ℝ×ℝ×ℝ`), `sample_pass1` (tie).
* C  `loopSet_law`, `sampleSetN_law` (`n` attempts), `sampleSet_law` (the model, fuel `10000`) on the unit
     cube of `Fin (1+m) → ℝ`; `densN_tendsto`, `cdf_tendsto` (limit `n → ∞`), `sample_cdf` (exact defect);
     `sample_law_iid`, `sample_cdf_iid`: the same for any i.i.d. uniform sequence on a probability space,
     the model reading the stream `nextN`.
* D  `cdf_primitive`.
Ties to the model: `loop_succ`, `sample_eq`, `sample_pass1` (any source of draws); the laws in C are
stated about `Exp01.loop` / `Exp01.sample` themselves.
-/
namespace PMH.Exp01Law
open PMH PMH.RA MeasureTheory Set
open scoped ENNReal

/-! ## 0. notation and analytic facts about the constants and the curve `T` -/

/-- the parameters built by `ExpRestricted01::new(λ)` over `ℝ` -/
noncomputable abbrev par (lam : ℝ) : Exp01 ℝ := Exp01.new realOps lam

theorem c1_eq (lam : ℝ) : (par lam).c1 = (Real.exp lam - 1) / lam := new_c1 lam
theorem c2_eq (lam : ℝ) : (par lam).c2 = Real.log (2 / (1 + Real.exp (-lam))) / lam := new_c2 lam
theorem c3_eq (lam : ℝ) : (par lam).c3 = (1 - Real.exp (-lam)) / lam := new_c3 lam

theorem c1_gt_one' {lam : ℝ} (hl : 0 < lam) : 1 < (par lam).c1 := by
  rw [c1_eq]; exact c1_gt_one hl

theorem c1_mul_lam {lam : ℝ} (hl : 0 < lam) : (par lam).c1 * lam = Real.exp lam - 1 := by
  rw [c1_eq]; field_simp

theorem expm1_pos {lam : ℝ} (hl : 0 < lam) : 0 < Real.exp lam - 1 := by
  have := Real.add_one_lt_exp hl.ne'; linarith

theorem T_continuous (lam : ℝ) : Continuous (T lam) := by
  unfold T; fun_prop

@[fun_prop] theorem T_measurable (lam : ℝ) : Measurable (T lam) := (T_continuous lam).measurable

theorem T_nonneg {lam x : ℝ} (hl : 0 < lam) (hx : x ≤ 1) : 0 ≤ T lam x := by
  unfold T
  apply div_nonneg _ (expm1_pos hl).le
  have : 0 ≤ lam * (1 - x) := mul_nonneg hl.le (by linarith)
  have := Real.add_one_le_exp (lam * (1 - x))
  linarith

/-- chord bound: the convex curve `T` lies below the chord from `(0,1)` to `(1,0)` -/
theorem T_le_chord {lam x : ℝ} (hl : 0 < lam) (hx0 : 0 ≤ x) (hx1 : x ≤ 1) : T lam x ≤ 1 - x := by
  unfold T
  rw [div_le_iff₀ (expm1_pos hl)]
  have h := convexOn_exp.2 (mem_univ lam) (mem_univ (0:ℝ)) (by linarith : 0 ≤ 1 - x) hx0 (by ring)
  simp only [smul_eq_mul, mul_zero, add_zero, Real.exp_zero, mul_one] at h
  have e : lam * (1 - x) = (1 - x) * lam := by ring
  rw [e]
  nlinarith

theorem T_le_one {lam x : ℝ} (hl : 0 < lam) (hx0 : 0 ≤ x) : T lam x ≤ 1 := by
  unfold T
  rw [div_le_one (expm1_pos hl)]
  have : Real.exp (lam * (1 - x)) ≤ Real.exp lam := Real.exp_le_exp.mpr (by nlinarith)
  linarith

/-- `T c2 = 1/2`: the early exit `x < c2` is the part of the square where the candidate ordinate
`u/2 < 1/2` is certainly under the curve -/
theorem half_le_T_iff {lam x : ℝ} (hl : 0 < lam) : 1 / 2 ≤ T lam x ↔ x ≤ (par lam).c2 := by
  have hE := expm1_pos hl
  have hd0 := Real.exp_pos (-lam)
  have hEd : Real.exp lam * Real.exp (-lam) = 1 := by rw [← Real.exp_add]; simp
  have hpos : (0:ℝ) < 2 / (1 + Real.exp (-lam)) := by positivity
  rw [c2_eq, le_div_iff₀ hl, Real.le_log_iff_exp_le hpos]
  unfold T
  rw [le_div_iff₀ hE]
  have h3 : Real.exp (lam * (1 - x)) = Real.exp lam * Real.exp (-(x * lam)) := by
    rw [← Real.exp_add]; congr 1; ring
  have hxl : Real.exp (x * lam) * Real.exp (-(x * lam)) = 1 := by rw [← Real.exp_add]; simp
  have hp := Real.exp_pos (x * lam)
  have hq := Real.exp_pos (-(x * lam))
  rw [h3, le_div_iff₀ (by positivity)]
  constructor
  · intro h
    have : Real.exp (x * lam) * (Real.exp lam * Real.exp (-(x * lam))) = Real.exp lam := by
      calc _ = Real.exp lam * (Real.exp (x * lam) * Real.exp (-(x * lam))) := by ring
        _ = _ := by rw [hxl, mul_one]
    nlinarith
  · intro h
    have h' := mul_le_mul_of_nonneg_right h hq.le
    have e1 : Real.exp (x * lam) * (1 + Real.exp (-lam)) * Real.exp (-(x * lam))
        = 1 + Real.exp (-lam) := by
      calc _ = (Real.exp (x * lam) * Real.exp (-(x * lam))) * (1 + Real.exp (-lam)) := by ring
        _ = _ := by rw [hxl, one_mul]
    rw [e1] at h'
    have := mul_le_mul_of_nonneg_left h' (Real.exp_pos lam).le
    nlinarith

theorem T_lt_half_iff {lam x : ℝ} (hl : 0 < lam) : T lam x < 1 / 2 ↔ (par lam).c2 < x := by
  rw [← not_le, half_le_T_iff hl, not_le]

theorem T_anti {lam x y : ℝ} (hl : 0 < lam) (hxy : x ≤ y) : T lam y ≤ T lam x := by
  unfold T
  apply div_le_div_of_nonneg_right _ (expm1_pos hl).le
  have : Real.exp (lam * (1 - y)) ≤ Real.exp (lam * (1 - x)) := Real.exp_le_exp.mpr (by nlinarith)
  linarith

theorem T_c2 {lam : ℝ} (hl : 0 < lam) : T lam (par lam).c2 = 1 / 2 := by
  have hE := expm1_pos hl
  have hd0 := Real.exp_pos (-lam)
  have hEd : Real.exp lam * Real.exp (-lam) = 1 := by rw [← Real.exp_add]; simp
  have hpos : (0:ℝ) < 2 / (1 + Real.exp (-lam)) := by positivity
  have e : lam * (1 - (par lam).c2) = lam - Real.log (2 / (1 + Real.exp (-lam))) := by
    rw [c2_eq]; field_simp
  unfold T
  rw [e, Real.exp_sub, Real.exp_log hpos, div_eq_iff hE.ne', div_div_eq_mul_div]
  linear_combination (1 / 2) * hEd

theorem T_le_half_iff {lam x : ℝ} (hl : 0 < lam) : T lam x ≤ 1 / 2 ↔ (par lam).c2 ≤ x := by
  constructor
  · intro h
    by_contra hc
    have h2 : 1 / 2 ≤ T lam x := (half_le_T_iff hl).mpr (not_le.mp hc).le
    have h3 : T lam x = 1 / 2 := le_antisymm h h2
    -- strictness: `T x = 1/2 = T c2` with `x < c2`
    have hx : x < (par lam).c2 := not_le.mp hc
    have : Real.exp (lam * (1 - (par lam).c2)) < Real.exp (lam * (1 - x)) :=
      Real.exp_lt_exp.mpr (by nlinarith)
    have h4 : T lam (par lam).c2 < T lam x := by
      unfold T
      exact div_lt_div_of_pos_right (by linarith) (expm1_pos hl)
    rw [T_c2 hl] at h4
    linarith
  · intro h
    rw [← T_c2 hl]
    exact T_anti hl h

theorem c2_le_half {lam : ℝ} (hl : 0 < lam) : (par lam).c2 ≤ 1 / 2 := by
  by_contra h
  rw [not_le] at h
  have h1 := (half_le_T_iff (x := (par lam).c2) hl).mpr le_rfl
  have hc2 := (constants_pos lam hl).2.2
  have h2 := T_le_chord (x := (par lam).c2) hl hc2.1.le hc2.2.1.le
  linarith

/-! ## 1. the acceptance predicate of one candidate -/

/-- EXACTLY the three tests of the model's loop body on the (possibly reflected) candidate point
`(x, y)`, in the order the code evaluates them (`if … else if … else if …`): tangent at `0`, tangent
at `1`, exact test. -/
def accept (lam x y : ℝ) : Prop :=
  x ≤ (par lam).c3 * (1 - y) ∨ (par lam).c1 * y ≤ 1 - x ∨
    y * (par lam).c1 * (par lam).lambda ≤ realOps.expm1 ((par lam).lambda * (1 - x))

/-- the exact test alone is `y ≤ T x` -/
theorem exact_iff {lam : ℝ} (hl : 0 < lam) (x y : ℝ) :
    y * (par lam).c1 * lam ≤ Real.exp (lam * (1 - x)) - 1 ↔ y ≤ T lam x := by
  unfold T
  rw [le_div_iff₀ (expm1_pos hl), mul_assoc, c1_mul_lam hl]

/-- the two cheap tests are absorbed by the exact one: a candidate is accepted iff it lies under `T` -/
theorem accept_iff {lam : ℝ} (hl : 0 < lam) (x y : ℝ) : accept lam x y ↔ y ≤ T lam x := by
  rw [← exact_iff hl]
  unfold accept
  constructor
  · rintro (h | h | h)
    · exact squeeze_sound_c3 lam x y hl h
    · exact squeeze_sound_c1 lam x y hl h
    · exact h
  · intro h; exact Or.inr (Or.inr h)

/-! ## 2. one candidate of the rejection loop, as a function of its two uniform draws -/

noncomputable instance (lam x y : ℝ) : Decidable (accept lam x y) := by
  unfold accept; infer_instance

/-- the reflection step: the candidate point `(x, y)` built from the draws `a` (abscissa) and `u`
(`y0 = u/2`); a point above the diagonal is reflected through the centre of the square -/
noncomputable def fold (a u : ℝ) : ℝ × ℝ :=
  if 1 - a < u / 2 then (1 - a, 1 - u / 2) else (a, u / 2)

/-- one iteration of the loop body on the draws `a`, `u`: `some x` when it returns `x`, `none` when
the candidate is rejected -/
noncomputable def cand (lam a u : ℝ) : Option ℝ :=
  if a < (par lam).c2 then some a
  else if accept lam (fold a u).1 (fold a u).2 then some (fold a u).1 else none

/-- `cand` IS the loop body of the model: one unfolding of `Exp01.loop` over `ℝ`, for any source of
draws.  (On the early exit `a < c2` only one draw is consumed.) -/
theorem loop_succ {G : Type} (lam : ℝ) (next : G → ℝ × G) (f : ℕ) (g : G) :
    Exp01.loop realOps (par lam) next (f + 1) g =
      match cand lam (next g).1 (next (next g).2).1 with
      | some x => .ok (x, if (next g).1 < (par lam).c2 then (next g).2 else (next (next g).2).2)
      | none => Exp01.loop realOps (par lam) next f (next (next g).2).2 := by
  simp only [Exp01.loop, cand, fold, accept, Nat.cast_one, Nat.cast_ofNat]
  by_cases h1 : (next g).1 < (par lam).c2
  · simp [h1]
  · by_cases hf : 1 - (next g).1 < (next (next g).2).1 / 2
    · simp only [h1, hf, if_true, if_false]
      split_ifs <;> first | rfl | (exfalso; tauto)
    · simp only [h1, hf, if_false]
      split_ifs <;> first | rfl | (exfalso; tauto)

theorem cand_eq_some_iff {lam : ℝ} (hl : 0 < lam) (a u x : ℝ) :
    cand lam a u = some x ↔
      (a < (par lam).c2 ∧ x = a) ∨
      ((par lam).c2 ≤ a ∧ u / 2 ≤ 1 - a ∧ u / 2 ≤ T lam a ∧ x = a) ∨
      ((par lam).c2 ≤ a ∧ 1 - a < u / 2 ∧ 1 - u / 2 ≤ T lam (1 - a) ∧ x = 1 - a) := by
  unfold cand fold
  by_cases h1 : a < (par lam).c2
  · have h1' : ¬ (par lam).c2 ≤ a := not_le.mpr h1
    simp [h1, h1', eq_comm]
  · have h1' : (par lam).c2 ≤ a := not_lt.mp h1
    by_cases hf : 1 - a < u / 2
    · have hf' : ¬ u / 2 ≤ 1 - a := not_le.mpr hf
      simp only [h1, hf, if_true, if_false, accept_iff hl]
      by_cases h3 : 1 - u / 2 ≤ T lam (1 - a)
      · simp [h3, h1', hf', eq_comm]
      · simp [h3, h1', hf']
    · have hf' : u / 2 ≤ 1 - a := not_lt.mp hf
      simp only [h1, hf, if_false, accept_iff hl]
      by_cases h3 : u / 2 ≤ T lam a
      · simp [h3, h1', hf', eq_comm]
      · simp [h3, h1']

theorem cand_eq_none_iff {lam : ℝ} (hl : 0 < lam) (a u : ℝ) :
    cand lam a u = none ↔
      (par lam).c2 ≤ a ∧ ((u / 2 ≤ 1 - a ∧ T lam a < u / 2) ∨
        (1 - a < u / 2 ∧ T lam (1 - a) < 1 - u / 2)) := by
  unfold cand fold
  by_cases h1 : a < (par lam).c2
  · have h1' : ¬ (par lam).c2 ≤ a := not_le.mpr h1
    simp [h1, h1']
  · have h1' : (par lam).c2 ≤ a := not_lt.mp h1
    by_cases hf : 1 - a < u / 2
    · have hf' : ¬ u / 2 ≤ 1 - a := not_le.mpr hf
      simp [h1, hf, accept_iff hl, h1', hf']
      constructor <;> intro h <;> linarith
    · have hf' : u / 2 ≤ 1 - a := not_lt.mp hf
      simp [h1, hf, accept_iff hl, h1', hf']

/-! ## A. the Fubini step -/

theorem volume_eq_lintegral_fiber {S : Set (ℝ × ℝ)} (hS : MeasurableSet S) :
    volume S = ∫⁻ a, volume (Prod.mk a ⁻¹' S) := by
  rw [Measure.volume_eq_prod, Measure.prod_apply hS]

theorem volume_sandwich {s : Set ℝ} {lo hi : ℝ} (h1 : Ioo lo hi ⊆ s) (h2 : s ⊆ Icc lo hi) :
    volume s = ENNReal.ofReal (hi - lo) := by
  apply le_antisymm
  · calc volume s ≤ volume (Icc lo hi) := measure_mono h2
      _ = _ := Real.volume_Icc
  · calc ENNReal.ofReal (hi - lo) = volume (Ioo lo hi) := Real.volume_Ioo.symm
      _ ≤ volume s := measure_mono h1

/-- volume of a planar set from its vertical sections: sections over `B` have length `f`, the others
are empty -/
theorem volume_of_fibers {S : Set (ℝ × ℝ)} (hS : MeasurableSet S) {B : Set ℝ} (hB : MeasurableSet B)
    (f : ℝ → ℝ) (h_in : ∀ a ∈ B, volume (Prod.mk a ⁻¹' S) = ENNReal.ofReal (f a))
    (h_out : ∀ a, a ∉ B → Prod.mk a ⁻¹' S = ∅) :
    volume S = ∫⁻ a in B, ENNReal.ofReal (f a) := by
  rw [volume_eq_lintegral_fiber hS, ← lintegral_indicator hB]
  congr 1
  funext a
  by_cases ha : a ∈ B
  · rw [indicator_of_mem ha, h_in a ha]
  · rw [indicator_of_notMem ha, h_out a ha, measure_empty]

theorem ms_and {α : Type*} [MeasurableSpace α] {p q : α → Prop} (hp : MeasurableSet {x | p x})
    (hq : MeasurableSet {x | q x}) : MeasurableSet {x | p x ∧ q x} := hp.inter hq

theorem T_integrableOn (lam : ℝ) {A : Set ℝ} (hA01 : A ⊆ Ico 0 1) :
    IntegrableOn (T lam) A volume :=
  ((T_continuous lam).integrableOn_Icc (a := 0) (b := 1)).mono_set
    (hA01.trans Ico_subset_Icc_self)

/-- **A (candidate coordinates)** the Fubini step: the part of the acceptance region of one
candidate point `(x, y)` of the unit square whose abscissa is in `A` has area `∫_A T`. -/
theorem volume_accept {lam : ℝ} (hl : 0 < lam) {A : Set ℝ} (hA : MeasurableSet A)
    (hA01 : A ⊆ Ico 0 1) :
    volume {q : ℝ × ℝ | q.1 ∈ A ∧ 0 ≤ q.2 ∧ q.2 < 1 ∧ accept lam q.1 q.2} =
      ENNReal.ofReal (∫ x in A, T lam x) := by
  have hset : {q : ℝ × ℝ | q.1 ∈ A ∧ 0 ≤ q.2 ∧ q.2 < 1 ∧ accept lam q.1 q.2} =
      {q : ℝ × ℝ | q.1 ∈ A ∧ 0 ≤ q.2 ∧ q.2 < 1 ∧ q.2 ≤ T lam q.1} := by
    ext q; simp only [mem_ofPred_eq, accept_iff hl]
  rw [hset]
  have hS : MeasurableSet {q : ℝ × ℝ | q.1 ∈ A ∧ 0 ≤ q.2 ∧ q.2 < 1 ∧ q.2 ≤ T lam q.1} := by
    refine ms_and (measurable_fst hA) (ms_and ?_ (ms_and ?_ ?_))
    · exact measurableSet_le (by fun_prop) (by fun_prop)
    · exact measurableSet_lt (by fun_prop) (by fun_prop)
    · exact measurableSet_le (by fun_prop) (by fun_prop)
  rw [volume_of_fibers hS hA (T lam), ofReal_integral_eq_lintegral_ofReal (T_integrableOn lam hA01)]
  · filter_upwards [ae_restrict_mem hA] with x hx
    exact T_nonneg hl (hA01 hx).2.le
  · intro a ha
    have h01 := hA01 ha
    have := volume_sandwich (s := Prod.mk a ⁻¹' {q : ℝ × ℝ | q.1 ∈ A ∧ 0 ≤ q.2 ∧ q.2 < 1 ∧ q.2 ≤ T lam q.1})
      (lo := 0) (hi := T lam a) ?_ ?_
    · rw [this, sub_zero]
    · intro y hy
      have := T_le_one hl h01.1
      exact ⟨ha, hy.1.le, by linarith [hy.2], hy.2.le⟩
    · intro y hy
      exact ⟨hy.2.1, hy.2.2.2⟩
  · intro a ha
    ext y
    simp [ha]

/-! ### the same step in the coordinates of the two uniform draws -/

/-- the event "the candidate built from the draws `(a, u)` of the unit square is accepted and the loop
returns a value in `A`" -/
def accSet (lam : ℝ) (A : Set ℝ) : Set (ℝ × ℝ) :=
  {q | 0 ≤ q.1 ∧ q.1 < 1 ∧ 0 ≤ q.2 ∧ q.2 < 1 ∧ ∃ x ∈ A, cand lam q.1 q.2 = some x}

/-- early exit -/
def S1 (lam : ℝ) (A : Set ℝ) : Set (ℝ × ℝ) := (A ∩ Iio (par lam).c2) ×ˢ Ico 0 1
/-- accepted, not reflected -/
def S2 (lam : ℝ) (A : Set ℝ) : Set (ℝ × ℝ) :=
  {q | q.1 ∈ A ∧ (par lam).c2 ≤ q.1 ∧ 0 ≤ q.2 ∧ q.2 < 1 ∧ q.2 / 2 ≤ 1 - q.1 ∧ q.2 / 2 ≤ T lam q.1}
/-- accepted after reflection -/
def S3 (lam : ℝ) (A : Set ℝ) : Set (ℝ × ℝ) :=
  {q | 1 - q.1 ∈ A ∧ (par lam).c2 ≤ q.1 ∧ q.1 < 1 ∧ 0 ≤ q.2 ∧ q.2 < 1 ∧ 1 - q.1 < q.2 / 2 ∧
    1 - q.2 / 2 ≤ T lam (1 - q.1)}

theorem accSet_eq {lam : ℝ} (hl : 0 < lam) {A : Set ℝ} (hA01 : A ⊆ Ico 0 1) :
    accSet lam A = S1 lam A ∪ S2 lam A ∪ S3 lam A := by
  have hc2 := (constants_pos lam hl).2.2.1
  ext ⟨a, u⟩
  simp only [accSet, S1, S2, S3, mem_union, mem_prod, mem_inter_iff, mem_Iio, mem_Ico,
    mem_ofPred_eq, cand_eq_some_iff hl]
  constructor
  · rintro ⟨ha0, ha1, hu0, hu1, x, hxA, h | h | h⟩
    · obtain ⟨hc, rfl⟩ := h
      left; left; exact ⟨⟨hxA, hc⟩, hu0, hu1⟩
    · obtain ⟨hc, hd, ht, rfl⟩ := h
      left; right; exact ⟨hxA, hc, hu0, hu1, hd, ht⟩
    · obtain ⟨hc, hd, ht, rfl⟩ := h
      right; exact ⟨hxA, hc, ha1, hu0, hu1, hd, ht⟩
  · rintro ((⟨⟨haA, hc⟩, hu0, hu1⟩ | ⟨haA, hc, hu0, hu1, hd, ht⟩) | ⟨hxA, hc, ha1, hu0, hu1, hd, ht⟩)
    · exact ⟨(hA01 haA).1, (hA01 haA).2, hu0, hu1, a, haA, Or.inl ⟨hc, rfl⟩⟩
    · exact ⟨(hA01 haA).1, (hA01 haA).2, hu0, hu1, a, haA, Or.inr (Or.inl ⟨hc, hd, ht, rfl⟩)⟩
    · exact ⟨by linarith, ha1, hu0, hu1, 1 - a, hxA, Or.inr (Or.inr ⟨hc, hd, ht, rfl⟩)⟩

theorem measurableSet_S1 (lam : ℝ) {A : Set ℝ} (hA : MeasurableSet A) : MeasurableSet (S1 lam A) :=
  (hA.inter measurableSet_Iio).prod measurableSet_Ico

theorem measurableSet_S2 (lam : ℝ) {A : Set ℝ} (hA : MeasurableSet A) : MeasurableSet (S2 lam A) := by
  refine ms_and (measurable_fst hA) (ms_and ?_ (ms_and ?_ (ms_and ?_ (ms_and ?_ ?_))))
  · exact measurableSet_le (by fun_prop) (by fun_prop)
  · exact measurableSet_le (by fun_prop) (by fun_prop)
  · exact measurableSet_lt (by fun_prop) (by fun_prop)
  · exact measurableSet_le (by fun_prop) (by fun_prop)
  · exact measurableSet_le (by fun_prop) (by fun_prop)

theorem measurableSet_S3 (lam : ℝ) {A : Set ℝ} (hA : MeasurableSet A) : MeasurableSet (S3 lam A) := by
  have hm : Measurable (fun q : ℝ × ℝ => 1 - q.1) := by fun_prop
  refine ms_and (hm hA) (ms_and ?_ (ms_and ?_ (ms_and ?_ (ms_and ?_ (ms_and ?_ ?_)))))
  · exact measurableSet_le (by fun_prop) (by fun_prop)
  · exact measurableSet_lt (by fun_prop) (by fun_prop)
  · exact measurableSet_le (by fun_prop) (by fun_prop)
  · exact measurableSet_lt (by fun_prop) (by fun_prop)
  · exact measurableSet_lt (by fun_prop) (by fun_prop)
  · exact measurableSet_le (by fun_prop) (by fun_prop)

theorem measurableSet_accSet {lam : ℝ} (hl : 0 < lam) {A : Set ℝ} (hA : MeasurableSet A)
    (hA01 : A ⊆ Ico 0 1) : MeasurableSet (accSet lam A) := by
  rw [accSet_eq hl hA01]
  exact ((measurableSet_S1 lam hA).union (measurableSet_S2 lam hA)).union (measurableSet_S3 lam hA)

theorem volume_S1 (lam : ℝ) (A : Set ℝ) : volume (S1 lam A) = volume (A ∩ Iio (par lam).c2) := by
  rw [S1, Measure.volume_eq_prod, Measure.prod_prod, Real.volume_Ico]
  simp

theorem volume_S2 {lam : ℝ} (hl : 0 < lam) {A : Set ℝ} (hA : MeasurableSet A) (hA01 : A ⊆ Ico 0 1) :
    volume (S2 lam A) = ∫⁻ a in A ∩ Ici (par lam).c2, ENNReal.ofReal (2 * T lam a) := by
  refine volume_of_fibers (measurableSet_S2 lam hA) (hA.inter measurableSet_Ici) _ ?_ ?_
  · rintro a ⟨haA, hc⟩
    have h01 := hA01 haA
    have hT : T lam a ≤ 1 / 2 := (T_le_half_iff hl).mpr hc
    have := volume_sandwich (s := Prod.mk a ⁻¹' S2 lam A) (lo := 0) (hi := 2 * T lam a) ?_ ?_
    · rw [this, sub_zero]
    · intro u hu
      have hch := T_le_chord hl h01.1 h01.2.le
      exact ⟨haA, hc, hu.1.le, by linarith [hu.2], by linarith [hu.2], by linarith [hu.2]⟩
    · intro u hu
      obtain ⟨_, _, h0, _, _, ht⟩ := hu
      exact ⟨h0, by linarith⟩
  · intro a ha
    ext u
    simp only [S2, mem_preimage, mem_ofPred_eq, mem_empty_iff_false, iff_false]
    rintro ⟨h1, h2, _⟩
    exact ha ⟨h1, h2⟩

/-- the abscissae `a` whose reflected value `1 - a` is in `A` -/
def B3 (lam : ℝ) (A : Set ℝ) : Set ℝ := {a | 1 - a ∈ A ∧ (par lam).c2 ≤ a ∧ a < 1}

theorem measurableSet_B3 (lam : ℝ) {A : Set ℝ} (hA : MeasurableSet A) : MeasurableSet (B3 lam A) := by
  have hm : Measurable (fun a : ℝ => 1 - a) := by fun_prop
  exact ms_and (hm hA) (ms_and measurableSet_Ici measurableSet_Iio)

theorem volume_S3 {lam : ℝ} (hl : 0 < lam) {A : Set ℝ} (hA : MeasurableSet A) (hA01 : A ⊆ Ico 0 1) :
    volume (S3 lam A) = ∫⁻ a in B3 lam A, ENNReal.ofReal (2 * T lam (1 - a) - 1) := by
  refine volume_of_fibers (measurableSet_S3 lam hA) (measurableSet_B3 lam hA) _ ?_ ?_
  · rintro a ⟨hxA, hc, ha1⟩
    have h01 := hA01 hxA
    have hch := T_le_chord hl h01.1 h01.2.le
    have := volume_sandwich (s := Prod.mk a ⁻¹' S3 lam A) (lo := 2 * (1 - T lam (1 - a))) (hi := 1)
      ?_ ?_
    · rw [this]; congr 1; ring
    · intro u hu
      exact ⟨hxA, hc, ha1, by linarith [hu.1, h01.1], hu.2, by linarith [hu.1], by linarith [hu.1]⟩
    · intro u hu
      obtain ⟨_, _, _, _, h1, _, ht⟩ := hu
      exact ⟨by linarith, h1.le⟩
  · intro a ha
    ext u
    simp only [S3, mem_preimage, mem_ofPred_eq, mem_empty_iff_false, iff_false]
    rintro ⟨h1, h2, h3, _⟩
    exact ha ⟨h1, h2, h3⟩

/-- **A (draw coordinates)** the Fubini step for ONE candidate of the model's loop, as a function of
its two uniform draws `(a, u)` (including the early exit `a < c2`, the halving `y0 = u/2` and the
reflection): the event "accepted with a value in `A`" has probability `∫_A 2 T`. -/
theorem volume_accSet {lam : ℝ} (hl : 0 < lam) {A : Set ℝ} (hA : MeasurableSet A)
    (hA01 : A ⊆ Ico 0 1) :
    volume (accSet lam A) = ENNReal.ofReal (∫ x in A, 2 * T lam x) := by
  have hc2 := (constants_pos lam hl).2.2.1
  have hc2h := c2_le_half hl
  -- the three pieces
  have hd12 : Disjoint (S1 lam A) (S2 lam A) := by
    rw [Set.disjoint_left]
    rintro ⟨a, u⟩ ⟨⟨_, h1⟩, _⟩ ⟨_, h2, _⟩
    exact absurd h1 (not_lt.mpr h2)
  have hd123 : Disjoint (S1 lam A ∪ S2 lam A) (S3 lam A) := by
    rw [Set.disjoint_left]
    rintro ⟨a, u⟩ (⟨⟨_, h1⟩, _⟩ | ⟨_, _, _, _, h1, _⟩) ⟨_, h2, _, _, _, h3, _⟩
    · exact absurd h1 (not_lt.mpr h2)
    · exact absurd h3 (not_lt.mpr h1)
  rw [accSet_eq hl hA01, measure_union hd123 (measurableSet_S3 lam hA),
    measure_union hd12 (measurableSet_S2 lam hA), volume_S1, volume_S2 hl hA hA01,
    volume_S3 hl hA hA01]
  -- everything as integrals over `ℝ` of indicator functions
  set F1 : ℝ → ℝ≥0∞ := (A ∩ Iio (par lam).c2).indicator 1 with hF1
  set F2 : ℝ → ℝ≥0∞ := (A ∩ Ici (par lam).c2).indicator (fun a => ENNReal.ofReal (2 * T lam a))
    with hF2
  set G : ℝ → ℝ≥0∞ := (B3 lam A).indicator (fun a => ENNReal.ofReal (2 * T lam (1 - a) - 1))
    with hG
  set F3 : ℝ → ℝ≥0∞ := fun x => G (1 - x) with hF3
  have hmF1 : Measurable F1 := measurable_one.indicator (hA.inter measurableSet_Iio)
  have hmF2 : Measurable F2 :=
    Measurable.indicator (by fun_prop) (hA.inter measurableSet_Ici)
  have e1 : volume (A ∩ Iio (par lam).c2) = ∫⁻ x, F1 x := by
    rw [hF1, lintegral_indicator (hA.inter measurableSet_Iio)]; simp
  have e2 : ∫⁻ a in A ∩ Ici (par lam).c2, ENNReal.ofReal (2 * T lam a) = ∫⁻ x, F2 x := by
    rw [hF2, lintegral_indicator (hA.inter measurableSet_Ici)]
  have e3 : ∫⁻ a in B3 lam A, ENNReal.ofReal (2 * T lam (1 - a) - 1) = ∫⁻ x, F3 x := by
    rw [hF3, lintegral_sub_left_eq_self G 1, hG, lintegral_indicator (measurableSet_B3 lam hA)]
  have hint : IntegrableOn (fun x => 2 * T lam x) A volume := (T_integrableOn lam hA01).const_mul 2
  have hm12 : Measurable (fun a => F1 a + F2 a) := hmF1.add hmF2
  rw [e1, e2, e3, ← lintegral_add_left hmF1, ← lintegral_add_left hm12,
    ofReal_integral_eq_lintegral_ofReal hint, ← lintegral_indicator hA]
  · apply lintegral_congr_ae
    have hne : ∀ᵐ x ∂(volume : Measure ℝ), x ≠ 0 := by
      rw [ae_iff]; simp
    filter_upwards [hne] with x hx0
    by_cases hxA : x ∈ A
    · have h01 := hA01 hxA
      have hxpos : 0 < x := lt_of_le_of_ne h01.1 (Ne.symm hx0)
      by_cases hxc : x < (par lam).c2
      · have hT : 1 / 2 ≤ T lam x := (half_le_T_iff hl).mpr hxc.le
        have m1 : x ∈ A ∩ Iio (par lam).c2 := ⟨hxA, hxc⟩
        have m2 : x ∉ A ∩ Ici (par lam).c2 := fun h => absurd hxc (not_lt.mpr h.2)
        have m3 : 1 - x ∈ B3 lam A := ⟨by simpa using hxA, by linarith, by linarith⟩
        simp only [hF1, hF2, hF3, hG, indicator_of_mem m1, indicator_of_notMem m2,
          indicator_of_mem m3, indicator_of_mem hxA, Pi.one_apply, add_zero, sub_sub_cancel]
        rw [← ENNReal.ofReal_one, ← ENNReal.ofReal_add zero_le_one (by linarith)]
        congr 1; ring
      · have hxc' : (par lam).c2 ≤ x := not_lt.mp hxc
        have hT : T lam x ≤ 1 / 2 := (T_le_half_iff hl).mpr hxc'
        have m1 : x ∉ A ∩ Iio (par lam).c2 := fun h => hxc h.2
        have m2 : x ∈ A ∩ Ici (par lam).c2 := ⟨hxA, hxc'⟩
        have h3 : G (1 - x) = 0 := by
          rw [hG]
          by_cases m3 : 1 - x ∈ B3 lam A
          · rw [indicator_of_mem m3, sub_sub_cancel]
            exact ENNReal.ofReal_of_nonpos (by linarith)
          · exact indicator_of_notMem m3 _
        simp only [hF1, hF2, hF3, indicator_of_notMem m1, indicator_of_mem m2,
          indicator_of_mem hxA, zero_add, h3, add_zero]
    · have m1 : x ∉ A ∩ Iio (par lam).c2 := fun h => hxA h.1
      have m2 : x ∉ A ∩ Ici (par lam).c2 := fun h => hxA h.1
      have m3 : 1 - x ∉ B3 lam A := fun h => hxA (by simpa using h.1)
      simp only [hF1, hF2, hF3, hG, indicator_of_notMem m1, indicator_of_notMem m2,
        indicator_of_notMem m3, indicator_of_notMem hxA, add_zero]
  · filter_upwards [ae_restrict_mem hA] with x hx
    have := T_nonneg hl (hA01 hx).2.le
    positivity

/-! ### total acceptance probability and the conditional law of an accepted candidate -/

theorem integral_T_Ico {lam : ℝ} (hl : 0 < lam) : ∫ x in Ico (0:ℝ) 1, T lam x = I lam := by
  rw [integral_Ico_eq_integral_Ioc, ← intervalIntegral.integral_of_le zero_le_one, integral_T lam hl]

theorem I_pos {lam : ℝ} (hl : 0 < lam) : 0 < I lam := by
  unfold I
  have hE1 : lam + 1 < Real.exp lam := Real.add_one_lt_exp hl.ne'
  exact div_pos (by linarith) (mul_pos hl (by linarith))

/-- a candidate is accepted with probability `2 I` -/
theorem volume_accSet_univ {lam : ℝ} (hl : 0 < lam) :
    volume (accSet lam (Ico 0 1)) = ENNReal.ofReal (2 * I lam) := by
  rw [volume_accSet hl measurableSet_Ico subset_rfl, integral_const_mul, integral_T_Ico hl]

theorem volume_unitSquare : volume (Ico (0:ℝ) 1 ×ˢ Ico (0:ℝ) 1) = 1 := by
  rw [Measure.volume_eq_prod, Measure.prod_prod, Real.volume_Ico]; simp

theorem accSet_subset_square (lam : ℝ) (A : Set ℝ) : accSet lam A ⊆ Ico (0:ℝ) 1 ×ˢ Ico (0:ℝ) 1 := by
  rintro ⟨a, u⟩ ⟨h1, h2, h3, h4, _⟩
  exact ⟨⟨h1, h2⟩, ⟨h3, h4⟩⟩

/-- `I = ∫₀¹ T ≤ 1/2` (a probability is at most `1`) -/
theorem I_le_half {lam : ℝ} (hl : 0 < lam) : I lam ≤ 1 / 2 := by
  have h := measure_mono (μ := volume) (accSet_subset_square lam (Ico 0 1))
  rw [volume_accSet_univ hl, volume_unitSquare, ENNReal.ofReal_le_one] at h
  linarith

/-- probability that one candidate is rejected -/
noncomputable def q (lam : ℝ) : ℝ := 1 - 2 * I lam

theorem q_nonneg {lam : ℝ} (hl : 0 < lam) : 0 ≤ q lam := by
  have := I_le_half hl; unfold q; linarith

theorem q_lt_one {lam : ℝ} (hl : 0 < lam) : q lam < 1 := by
  have := I_pos hl; unfold q; linarith

/-- **A (conclusion, candidate coordinates)** a uniformly distributed point of the acceptance region
has an abscissa with density `T / I`. -/
theorem accept_conditional_law {lam : ℝ} (hl : 0 < lam) {A : Set ℝ} (hA : MeasurableSet A)
    (hA01 : A ⊆ Ico 0 1) :
    volume {q : ℝ × ℝ | q.1 ∈ A ∧ 0 ≤ q.2 ∧ q.2 < 1 ∧ accept lam q.1 q.2} /
      volume {q : ℝ × ℝ | q.1 ∈ Ico (0:ℝ) 1 ∧ 0 ≤ q.2 ∧ q.2 < 1 ∧ accept lam q.1 q.2} =
    ENNReal.ofReal ((∫ x in A, T lam x) / I lam) := by
  rw [volume_accept hl hA hA01, volume_accept hl measurableSet_Ico subset_rfl, integral_T_Ico hl,
    ENNReal.ofReal_div_of_pos (I_pos hl)]

/-- **A (conclusion, draw coordinates)** the value returned by an accepted candidate of the model's
loop has density `T / I`: `P(accepted ∧ value ∈ A) / P(accepted) = (∫_A T) / I`. -/
theorem cand_conditional_law {lam : ℝ} (hl : 0 < lam) {A : Set ℝ} (hA : MeasurableSet A)
    (hA01 : A ⊆ Ico 0 1) :
    volume (accSet lam A) / volume (accSet lam (Ico 0 1)) =
      ENNReal.ofReal ((∫ x in A, T lam x) / I lam) := by
  have hI := I_pos hl
  rw [volume_accSet hl hA hA01, volume_accSet_univ hl, integral_const_mul,
    ← ENNReal.ofReal_div_of_pos (by linarith)]
  congr 1
  field_simp

/-! ## B. one full pass of the sampler on three uniform draws -/

/-- `sample`: the branch draw, then the rejection loop (one unfolding of the model) -/
theorem sample_eq {G : Type} (lam : ℝ) (next : G → ℝ × G) (g : G) :
    Exp01.sample realOps (par lam) next g =
      if (par lam).c1 * (next g).1 < 1 then .ok ((par lam).c1 * (next g).1, (next g).2)
      else Exp01.loop realOps (par lam) next 10000 (next g).2 := by
  simp [Exp01.sample]

/-- one pass: the branch draw `u0`, then one candidate on the draws `a`, `u` -/
noncomputable def pass1 (lam u0 a u : ℝ) : Option ℝ :=
  if (par lam).c1 * u0 < 1 then some ((par lam).c1 * u0) else cand lam a u

/-- `pass1` IS the first pass of the model: `sample` = branch draw, then one unfolding of the loop
(`10000 = 9999 + 1`), for any source of draws. -/
theorem sample_pass1 {G : Type} (lam : ℝ) (next : G → ℝ × G) (g : G) :
    Exp01.sample realOps (par lam) next g =
      match pass1 lam (next g).1 (next (next g).2).1 (next (next (next g).2).2).1 with
      | some x => .ok (x,
          if (par lam).c1 * (next g).1 < 1 then (next g).2
          else if (next (next g).2).1 < (par lam).c2 then (next (next g).2).2
          else (next (next (next g).2).2).2)
      | none => Exp01.loop realOps (par lam) next 9999 (next (next (next g).2).2).2 := by
  rw [sample_eq, show (10000 : ℕ) = 9999 + 1 from rfl, loop_succ]
  unfold pass1
  by_cases h : (par lam).c1 * (next g).1 < 1
  · simp only [h, if_true]
  · simp only [h, if_false]

/-- the event "the first pass returns a value in `A`" in the unit cube of the three draws -/
def passSet (lam : ℝ) (A : Set ℝ) : Set (ℝ × ℝ × ℝ) :=
  {p | 0 ≤ p.1 ∧ p.1 < 1 ∧ 0 ≤ p.2.1 ∧ p.2.1 < 1 ∧ 0 ≤ p.2.2 ∧ p.2.2 < 1 ∧
    ∃ x ∈ A, pass1 lam p.1 p.2.1 p.2.2 = some x}

/-- branch draws that return directly a value in `A` -/
def E1 (lam : ℝ) (A : Set ℝ) : Set ℝ := (fun u0 => (par lam).c1 * u0) ⁻¹' A

theorem passSet_eq {lam : ℝ} (hl : 0 < lam) {A : Set ℝ} (hA01 : A ⊆ Ico 0 1) :
    passSet lam A = E1 lam A ×ˢ (Ico (0:ℝ) 1 ×ˢ Ico (0:ℝ) 1) ∪
      Ico (1 / (par lam).c1) 1 ×ˢ accSet lam A := by
  have hc1 := c1_gt_one' hl
  have hc1p : 0 < (par lam).c1 := by linarith
  ext ⟨u0, a, u⟩
  simp only [passSet, pass1, E1, accSet, mem_union, mem_prod, mem_preimage, mem_Ico, mem_ofPred_eq]
  constructor
  · rintro ⟨h1, h2, h3, h4, h5, h6, x, hxA, hx⟩
    by_cases hb : (par lam).c1 * u0 < 1
    · rw [if_pos hb] at hx
      obtain rfl := Option.some.inj hx
      left; exact ⟨hxA, ⟨h3, h4⟩, ⟨h5, h6⟩⟩
    · rw [if_neg hb] at hx
      right
      refine ⟨⟨?_, h2⟩, h3, h4, h5, h6, x, hxA, hx⟩
      rw [div_le_iff₀ hc1p]; linarith [not_lt.mp hb]
  · rintro (⟨hxA, ⟨h3, h4⟩, ⟨h5, h6⟩⟩ | ⟨⟨hu, h2⟩, h3, h4, h5, h6, x, hxA, hx⟩)
    · have h01 := hA01 hxA
      have hu0 : 0 ≤ u0 := by
        by_contra h
        have : (par lam).c1 * u0 < 0 := mul_neg_of_pos_of_neg hc1p (not_le.mp h)
        linarith [h01.1]
      have hu1 : u0 < 1 := by nlinarith [h01.2]
      exact ⟨hu0, hu1, h3, h4, h5, h6, _, hxA, by rw [if_pos h01.2]⟩
    · have hu0 : 0 ≤ u0 := le_trans (by positivity) hu
      have hb : ¬ (par lam).c1 * u0 < 1 := by
        rw [div_le_iff₀ hc1p] at hu; rw [not_lt]; linarith
      exact ⟨hu0, h2, h3, h4, h5, h6, x, hxA, by rw [if_neg hb]; exact hx⟩

theorem volume_E1 {lam : ℝ} (hl : 0 < lam) (A : Set ℝ) :
    volume (E1 lam A) = ENNReal.ofReal (1 / (par lam).c1) * volume A := by
  have hc1 := c1_gt_one' hl
  have hc1p : 0 < (par lam).c1 := by linarith
  rw [E1, Real.volume_preimage_mul_left hc1p.ne', abs_of_pos (inv_pos.mpr hc1p), one_div]

/-- **B** one full pass of the sampler (branch draw `u0`, then one candidate `(a, u)`) on a uniform
point of the unit cube: the sub-probability that it returns a value in `A` is
`∫_A [1/c1 + (1 - 1/c1) · 2 T]` (`2T = (1 - q) · T/I`). -/
theorem volume_passSet {lam : ℝ} (hl : 0 < lam) {A : Set ℝ} (hA : MeasurableSet A)
    (hA01 : A ⊆ Ico 0 1) :
    volume (passSet lam A) =
      ENNReal.ofReal (∫ x in A, (1 / (par lam).c1 + (1 - 1 / (par lam).c1) * (2 * T lam x))) := by
  have hc1 := c1_gt_one' hl
  have hc1p : 0 < (par lam).c1 := by linarith
  have hinv : 1 / (par lam).c1 < 1 := by rw [div_lt_one hc1p]; exact hc1
  have hAfin : volume A ≠ ∞ :=
    ((measure_mono hA01).trans_lt (by rw [Real.volume_Ico]; exact ENNReal.ofReal_lt_top)).ne
  have hd : Disjoint (E1 lam A ×ˢ (Ico (0:ℝ) 1 ×ˢ Ico (0:ℝ) 1))
      (Ico (1 / (par lam).c1) 1 ×ˢ accSet lam A) := by
    rw [Set.disjoint_left]
    rintro ⟨u0, a, u⟩ ⟨h1, _⟩ ⟨h2, _⟩
    have h01 := hA01 h1
    have := h2.1
    rw [div_le_iff₀ hc1p] at this
    linarith [h01.2]
  have hm2 : MeasurableSet (Ico (1 / (par lam).c1) 1 ×ˢ accSet lam A) :=
    measurableSet_Ico.prod (measurableSet_accSet hl hA hA01)
  have hT0 : 0 ≤ ∫ x in A, 2 * T lam x := by
    apply setIntegral_nonneg hA
    intro x hx
    have := T_nonneg hl (hA01 hx).2.le
    positivity
  rw [passSet_eq hl hA01, measure_union hd hm2, Measure.volume_eq_prod, Measure.prod_prod,
    Measure.prod_prod, volume_unitSquare, mul_one, volume_E1 hl,
    volume_accSet hl hA hA01, Real.volume_Ico]
  have hconst : IntegrableOn (fun _ : ℝ => 1 / (par lam).c1) A volume :=
    integrableOn_const (hs := hAfin)
  have hint : IntegrableOn (fun x => (1 - 1 / (par lam).c1) * (2 * T lam x)) A volume :=
    ((T_integrableOn lam hA01).const_mul 2).const_mul _
  have key : ∫ x in A, (1 / (par lam).c1 + (1 - 1 / (par lam).c1) * (2 * T lam x)) =
      (1 / (par lam).c1) * volume.real A + (1 - 1 / (par lam).c1) * ∫ x in A, 2 * T lam x := by
    rw [integral_add hconst hint, setIntegral_const, smul_eq_mul,
      integral_const_mul (1 - 1 / (par lam).c1) (fun x => 2 * T lam x)]
    ring
  rw [key, ENNReal.ofReal_add (by positivity) (mul_nonneg (by linarith) hT0),
    ENNReal.ofReal_mul (by positivity), ENNReal.ofReal_mul (by linarith)]
  congr 2
  rw [Measure.real, ENNReal.ofReal_toReal hAfin]

/-! ## C. the whole sampler on a vector of i.i.d. uniform draws -/

/-! ### product decomposition of Lebesgue measure on `Fin (m+1) → ℝ` and `Fin (m+2) → ℝ` -/

/-- the draws after the first two -/
def tail2 {m : ℕ} (w : Fin (m + 2) → ℝ) : Fin m → ℝ := fun i => w i.succ.succ

theorem measurable_tail2 {m : ℕ} : Measurable (tail2 (m := m)) :=
  measurable_pi_iff.2 fun _ => measurable_pi_apply _

theorem volume_preimage_cons {m : ℕ} {F : Set (ℝ × (Fin m → ℝ))} (hF : MeasurableSet F) :
    volume {w : Fin (m + 1) → ℝ | (w 0, fun i : Fin m => w i.succ) ∈ F} = volume F := by
  have h := (volume_preserving_piFinSuccAbove (fun _ : Fin (m + 1) => ℝ) 0).measure_preimage
    hF.nullMeasurableSet
  rw [← h]
  rfl

theorem measurable_cons {m : ℕ} :
    Measurable (fun w : Fin (m + 1) → ℝ => (w 0, fun i : Fin m => w i.succ)) :=
  (measurable_pi_apply _).prodMk (measurable_pi_iff.2 fun _ => measurable_pi_apply _)

/-- first draw in `S`, the others in `E`: independent -/
theorem volume_split1 {m : ℕ} {S : Set ℝ} (hS : MeasurableSet S) {E : Set (Fin m → ℝ)}
    (hE : MeasurableSet E) :
    volume {w : Fin (m + 1) → ℝ | w 0 ∈ S ∧ (fun i : Fin m => w i.succ) ∈ E} =
      volume S * volume E := by
  have := volume_preimage_cons (hS.prod hE)
  rw [Measure.volume_eq_prod, Measure.prod_prod] at this
  rw [← this]
  rfl

/-- first two draws in the planar set `S`, the others in `E`: independent -/
theorem volume_split2 {m : ℕ} {S : Set (ℝ × ℝ)} (hS : MeasurableSet S) {E : Set (Fin m → ℝ)}
    (hE : MeasurableSet E) :
    volume {w : Fin (m + 2) → ℝ | (w 0, w 1) ∈ S ∧ tail2 w ∈ E} = volume S * volume E := by
  set F : Set (ℝ × (Fin (m + 1) → ℝ)) :=
    {p | (p.1, p.2 0) ∈ S ∧ (fun i : Fin m => p.2 i.succ) ∈ E} with hFdef
  have hF : MeasurableSet F := by
    refine ms_and ?_ ?_
    · have : Measurable (fun p : ℝ × (Fin (m + 1) → ℝ) => (p.1, p.2 0)) :=
        measurable_fst.prodMk ((measurable_pi_apply 0).comp measurable_snd)
      exact this hS
    · have : Measurable (fun p : ℝ × (Fin (m + 1) → ℝ) => (fun i : Fin m => p.2 i.succ)) :=
        measurable_pi_iff.2 fun i => (measurable_pi_apply i.succ).comp measurable_snd
      exact this hE
  have h1 : {w : Fin (m + 2) → ℝ | (w 0, w 1) ∈ S ∧ tail2 w ∈ E} =
      {w : Fin (m + 2) → ℝ | (w 0, fun i : Fin (m + 1) => w i.succ) ∈ F} := by
    ext w; rfl
  rw [h1, volume_preimage_cons hF, Measure.volume_eq_prod, Measure.prod_apply hF]
  have h2 : ∀ a : ℝ, volume (Prod.mk a ⁻¹' F) = volume (Prod.mk a ⁻¹' S) * volume E := by
    intro a
    exact volume_split1 (measurable_prodMk_left hS) hE
  simp_rw [h2]
  rw [lintegral_mul_const _ (measurable_measure_prodMk_left hS), ← Measure.prod_apply hS,
    ← Measure.volume_eq_prod]

theorem measurableSet_split2 {m : ℕ} {S : Set (ℝ × ℝ)} (hS : MeasurableSet S)
    {E : Set (Fin m → ℝ)} (hE : MeasurableSet E) :
    MeasurableSet {w : Fin (m + 2) → ℝ | (w 0, w 1) ∈ S ∧ tail2 w ∈ E} := by
  refine ms_and ?_ (measurable_tail2 hE)
  have : Measurable (fun w : Fin (m + 2) → ℝ => (w 0, w 1)) :=
    (measurable_pi_apply 0).prodMk (measurable_pi_apply 1)
  exact this hS

/-! ### the model run on a finite vector of draws -/

/-- the source of draws reading a list (`0` once exhausted; with `2 n` draws available the loop with
fuel `n` never reads past the end) -/
def nextL (l : List ℝ) : ℝ × List ℝ := (l.headD 0, l.tail)

/-- the unit cube `[0,1)^m` -/
def cube (m : ℕ) : Set (Fin m → ℝ) := {w | ∀ i, 0 ≤ w i ∧ w i < 1}

theorem cube_eq_pi (m : ℕ) : cube m = univ.pi fun _ => Ico (0:ℝ) 1 := by
  ext w; simp [cube]

theorem measurableSet_cube (m : ℕ) : MeasurableSet (cube m) := by
  rw [cube_eq_pi]; exact MeasurableSet.univ_pi fun _ => measurableSet_Ico

theorem volume_cube (m : ℕ) : volume (cube m) = 1 := by
  rw [cube_eq_pi, Real.volume_pi_Ico]; simp

theorem cube_succ2 {m : ℕ} (w : Fin (m + 2) → ℝ) :
    w ∈ cube (m + 2) ↔ (0 ≤ w 0 ∧ w 0 < 1) ∧ (0 ≤ w 1 ∧ w 1 < 1) ∧ tail2 w ∈ cube m := by
  simp only [cube, mem_ofPred_eq, Fin.forall_fin_succ (P := fun i => 0 ≤ w i ∧ w i < 1), tail2]
  simp [Fin.forall_fin_succ]

theorem ofFn_succ2 {m : ℕ} (w : Fin (m + 2) → ℝ) :
    List.ofFn w = w 0 :: w 1 :: List.ofFn (tail2 w) := by
  rw [List.ofFn_succ, List.ofFn_succ]; rfl

/-- the model's loop with fuel `n`, reading the list `l`, returns a value in `A` -/
def loopOK (lam : ℝ) (A : Set ℝ) (n : ℕ) (l : List ℝ) : Prop :=
  ∃ x ∈ A, ∃ g', Exp01.loop realOps (par lam) nextL n l = .ok (x, g')

theorem loopOK_zero (lam : ℝ) (A : Set ℝ) (l : List ℝ) : ¬ loopOK lam A 0 l := by
  simp [loopOK, Exp01.loop]

theorem loopOK_succ (lam : ℝ) (A : Set ℝ) (n : ℕ) (a u : ℝ) (l : List ℝ) :
    loopOK lam A (n + 1) (a :: u :: l) ↔
      (∃ x ∈ A, cand lam a u = some x) ∨ (cand lam a u = none ∧ loopOK lam A n l) := by
  unfold loopOK
  rw [loop_succ]
  simp only [nextL, List.headD_cons, List.tail_cons]
  cases h : cand lam a u with
  | none => simp
  | some x => simp

/-- the event: the draw vector is in the unit cube and the loop with fuel `n` returns a value in `A` -/
def loopSet (lam : ℝ) (A : Set ℝ) (n m : ℕ) : Set (Fin m → ℝ) :=
  {w | w ∈ cube m ∧ loopOK lam A n (List.ofFn w)}

/-- the draws of the unit square for which the candidate is rejected -/
def rejSet (lam : ℝ) : Set (ℝ × ℝ) :=
  {q | 0 ≤ q.1 ∧ q.1 < 1 ∧ 0 ≤ q.2 ∧ q.2 < 1 ∧ cand lam q.1 q.2 = none}

theorem cand_mem_Ico {lam : ℝ} (hl : 0 < lam) {a u x : ℝ} (ha : a ∈ Ico (0:ℝ) 1)
    (hu : u ∈ Ico (0:ℝ) 1) (h : cand lam a u = some x) : x ∈ Ico (0:ℝ) 1 := by
  rcases (cand_eq_some_iff hl a u x).mp h with ⟨_, rfl⟩ | ⟨_, _, _, rfl⟩ | ⟨_, h1, _, rfl⟩
  · exact ha
  · exact ha
  · exact ⟨by linarith [ha.2], by linarith [hu.2]⟩

theorem rejSet_eq {lam : ℝ} (hl : 0 < lam) :
    rejSet lam = (Ico (0:ℝ) 1 ×ˢ Ico (0:ℝ) 1) \ accSet lam (Ico 0 1) := by
  ext ⟨a, u⟩
  simp only [rejSet, accSet, mem_sdiff, mem_prod, mem_Ico, mem_ofPred_eq]
  constructor
  · rintro ⟨h1, h2, h3, h4, h5⟩
    refine ⟨⟨⟨h1, h2⟩, ⟨h3, h4⟩⟩, ?_⟩
    rintro ⟨_, _, _, _, x, _, hx⟩
    rw [h5] at hx; simp at hx
  · rintro ⟨⟨⟨h1, h2⟩, ⟨h3, h4⟩⟩, h5⟩
    refine ⟨h1, h2, h3, h4, ?_⟩
    cases hc : cand lam a u with
    | none => rfl
    | some x =>
      exact absurd ⟨h1, h2, h3, h4, x, cand_mem_Ico hl ⟨h1, h2⟩ ⟨h3, h4⟩ hc, hc⟩ h5

theorem measurableSet_rejSet {lam : ℝ} (hl : 0 < lam) : MeasurableSet (rejSet lam) := by
  rw [rejSet_eq hl]
  exact (measurableSet_Ico.prod measurableSet_Ico).diff
    (measurableSet_accSet hl measurableSet_Ico subset_rfl)

/-- one candidate is rejected with probability `q = 1 - 2 I` -/
theorem volume_rejSet {lam : ℝ} (hl : 0 < lam) : volume (rejSet lam) = ENNReal.ofReal (q lam) := by
  have hI := I_pos hl
  rw [rejSet_eq hl, measure_sdiff (accSet_subset_square lam _)
    (measurableSet_accSet hl measurableSet_Ico subset_rfl).nullMeasurableSet,
    volume_unitSquare, volume_accSet_univ hl, q, ← ENNReal.ofReal_one,
    ENNReal.ofReal_sub _ (by linarith)]
  rw [volume_accSet_univ hl]; exact ENNReal.ofReal_ne_top

theorem loopSet_zero (lam : ℝ) (A : Set ℝ) (m : ℕ) : loopSet lam A 0 m = ∅ := by
  ext w; simp [loopSet, loopOK_zero]

/-- first-step decomposition of the event -/
theorem loopSet_succ (lam : ℝ) (A : Set ℝ) (n m : ℕ) :
    loopSet lam A (n + 1) (m + 2) =
      {w | (w 0, w 1) ∈ accSet lam A ∧ tail2 w ∈ cube m} ∪
      {w | (w 0, w 1) ∈ rejSet lam ∧ tail2 w ∈ loopSet lam A n m} := by
  ext w
  simp only [loopSet, mem_ofPred_eq, cube_succ2, ofFn_succ2 w, loopOK_succ, accSet, rejSet, mem_union]
  constructor
  · rintro ⟨⟨⟨h1, h2⟩, ⟨h3, h4⟩, h5⟩, h | ⟨h, h'⟩⟩
    · exact Or.inl ⟨⟨h1, h2, h3, h4, h⟩, h5⟩
    · exact Or.inr ⟨⟨h1, h2, h3, h4, h⟩, h5, h'⟩
  · rintro (⟨⟨h1, h2, h3, h4, h⟩, h5⟩ | ⟨⟨h1, h2, h3, h4, h⟩, h5, h'⟩)
    · exact ⟨⟨⟨h1, h2⟩, ⟨h3, h4⟩, h5⟩, Or.inl h⟩
    · exact ⟨⟨⟨h1, h2⟩, ⟨h3, h4⟩, h5⟩, Or.inr ⟨h, h'⟩⟩

/-- `P(value ∈ A | candidate accepted) = (∫_A T) / I` -/
noncomputable def J (lam : ℝ) (A : Set ℝ) : ℝ := (∫ x in A, T lam x) / I lam

theorem J_nonneg {lam : ℝ} (hl : 0 < lam) {A : Set ℝ} (hA : MeasurableSet A) (hA01 : A ⊆ Ico 0 1) :
    0 ≤ J lam A := by
  apply div_nonneg _ (I_pos hl).le
  exact setIntegral_nonneg hA fun x hx => T_nonneg hl (hA01 hx).2.le

theorem two_integral_T {lam : ℝ} (hl : 0 < lam) (A : Set ℝ) :
    ∫ x in A, 2 * T lam x = (1 - q lam) * J lam A := by
  have hI := I_pos hl
  rw [integral_const_mul, J, q]
  field_simp
  ring

theorem loopSet_law_aux {lam : ℝ} (hl : 0 < lam) {A : Set ℝ} (hA : MeasurableSet A)
    (hA01 : A ⊆ Ico 0 1) :
    ∀ n m : ℕ, 2 * n ≤ m → MeasurableSet (loopSet lam A n m) ∧
      volume (loopSet lam A n m) = ENNReal.ofReal ((1 - q lam ^ n) * J lam A) := by
  have hq0 := q_nonneg hl
  have hq1 := q_lt_one hl
  have hJ := J_nonneg hl hA hA01
  intro n
  induction n with
  | zero =>
    intro m _
    rw [loopSet_zero]
    simp
  | succ n ih =>
    intro m hm
    obtain ⟨m', rfl⟩ : ∃ m', m = m' + 2 := ⟨m - 2, by omega⟩
    obtain ⟨ihm, ihv⟩ := ih m' (by omega)
    have hmA := measurableSet_accSet hl hA hA01
    have hmR := measurableSet_rejSet hl
    have hm1 := measurableSet_split2 hmA (measurableSet_cube m')
    have hm2 := measurableSet_split2 hmR ihm
    rw [loopSet_succ]
    refine ⟨hm1.union hm2, ?_⟩
    have hd : Disjoint {w : Fin (m' + 2) → ℝ | (w 0, w 1) ∈ accSet lam A ∧ tail2 w ∈ cube m'}
        {w : Fin (m' + 2) → ℝ | (w 0, w 1) ∈ rejSet lam ∧ tail2 w ∈ loopSet lam A n m'} := by
      rw [Set.disjoint_left]
      rintro w ⟨⟨_, _, _, _, x, _, hx⟩, _⟩ ⟨⟨_, _, _, _, hn⟩, _⟩
      rw [hn] at hx; simp at hx
    have hpow : q lam ^ n ≤ 1 := pow_le_one₀ hq0 hq1.le
    rw [measure_union hd hm2, volume_split2 hmA (measurableSet_cube m'), volume_split2 hmR ihm,
      volume_cube, mul_one, volume_accSet hl hA hA01, volume_rejSet hl, ihv, two_integral_T hl,
      ← ENNReal.ofReal_mul hq0, ← ENNReal.ofReal_add
        (mul_nonneg (by linarith) hJ) (mul_nonneg hq0 (mul_nonneg (by linarith) hJ))]
    congr 1
    ring

/-- **C (loop)** the model's rejection loop with fuel `n`, run on a uniform point of the unit cube
`[0,1)^m` (`m ≥ 2n` draws, two per candidate): the probability that it returns (within its `n`
attempts) a value in `A` is `∫_A (1 - qⁿ) · T/I`, where `q = 1 - 2I` is the probability that one
candidate is rejected. -/
theorem loopSet_law {lam : ℝ} (hl : 0 < lam) {A : Set ℝ} (hA : MeasurableSet A)
    (hA01 : A ⊆ Ico 0 1) (n m : ℕ) (hm : 2 * n ≤ m) :
    volume (loopSet lam A n m) =
      ENNReal.ofReal (∫ x in A, (1 - q lam ^ n) * (T lam x / I lam)) := by
  rw [(loopSet_law_aux hl hA hA01 n m hm).2, integral_const_mul, integral_div, J]

theorem measurableSet_loopSet {lam : ℝ} (hl : 0 < lam) {A : Set ℝ} (hA : MeasurableSet A)
    (hA01 : A ⊆ Ico 0 1) (n m : ℕ) (hm : 2 * n ≤ m) : MeasurableSet (loopSet lam A n m) :=
  (loopSet_law_aux hl hA hA01 n m hm).1

/-! ### the full sampler -/

/-- `Exp01.sample` (model, fuel `10000`), reading the list `l`, returns a value in `A` -/
def sampleOK (lam : ℝ) (A : Set ℝ) (l : List ℝ) : Prop :=
  ∃ x ∈ A, ∃ g', Exp01.sample realOps (par lam) nextL l = .ok (x, g')

/-- the same with `n` rejection attempts instead of the `10000` of the code: the branch draw, then the
model's loop with fuel `n` -/
def sampleNOK (lam : ℝ) (A : Set ℝ) (n : ℕ) (l : List ℝ) : Prop :=
  ∃ x ∈ A, ∃ g',
    (if (par lam).c1 * (nextL l).1 < 1 then .ok ((par lam).c1 * (nextL l).1, (nextL l).2)
      else Exp01.loop realOps (par lam) nextL n (nextL l).2) = .ok (x, g')

/-- the model is the case `n = 10000` -/
theorem sampleOK_iff (lam : ℝ) (A : Set ℝ) (l : List ℝ) :
    sampleOK lam A l ↔ sampleNOK lam A 10000 l := by
  unfold sampleOK sampleNOK
  rw [sample_eq]

theorem sampleNOK_cons (lam : ℝ) (A : Set ℝ) (n : ℕ) (u0 : ℝ) (l : List ℝ) :
    sampleNOK lam A n (u0 :: l) ↔
      ((par lam).c1 * u0 < 1 ∧ (par lam).c1 * u0 ∈ A) ∨
      (¬ (par lam).c1 * u0 < 1 ∧ loopOK lam A n l) := by
  unfold sampleNOK loopOK
  simp only [nextL, List.headD_cons, List.tail_cons]
  by_cases h : (par lam).c1 * u0 < 1
  · simp [h]
  · simp [h]

/-- the event: the `1 + m` draws are in the unit cube and `sample` returns a value in `A` -/
def sampleSet (lam : ℝ) (A : Set ℝ) (m : ℕ) : Set (Fin (m + 1) → ℝ) :=
  {w | w ∈ cube (m + 1) ∧ sampleOK lam A (List.ofFn w)}

/-- the same event for `n` rejection attempts -/
def sampleSetN (lam : ℝ) (A : Set ℝ) (n m : ℕ) : Set (Fin (m + 1) → ℝ) :=
  {w | w ∈ cube (m + 1) ∧ sampleNOK lam A n (List.ofFn w)}

theorem sampleSet_eq_N (lam : ℝ) (A : Set ℝ) (m : ℕ) :
    sampleSet lam A m = sampleSetN lam A 10000 m := by
  ext w; simp only [sampleSet, sampleSetN, mem_ofPred_eq, sampleOK_iff]

theorem cube_succ1 {m : ℕ} (w : Fin (m + 1) → ℝ) :
    w ∈ cube (m + 1) ↔ (0 ≤ w 0 ∧ w 0 < 1) ∧ (fun i : Fin m => w i.succ) ∈ cube m := by
  simp only [cube, mem_ofPred_eq, Fin.forall_fin_succ (P := fun i => 0 ≤ w i ∧ w i < 1)]

theorem sampleSetN_eq {lam : ℝ} (hl : 0 < lam) {A : Set ℝ} (hA01 : A ⊆ Ico 0 1) (n m : ℕ) :
    sampleSetN lam A n m =
      {w | w 0 ∈ E1 lam A ∧ (fun i : Fin m => w i.succ) ∈ cube m} ∪
      {w | w 0 ∈ Ico (1 / (par lam).c1) 1 ∧ (fun i : Fin m => w i.succ) ∈ loopSet lam A n m} := by
  have hc1 := c1_gt_one' hl
  have hc1p : 0 < (par lam).c1 := by linarith
  ext w
  have hL : List.ofFn w = w 0 :: List.ofFn (fun i : Fin m => w i.succ) := List.ofFn_succ
  simp only [sampleSetN, mem_ofPred_eq, cube_succ1, hL, sampleNOK_cons, E1, loopSet,
    mem_union, mem_preimage, mem_Ico]
  constructor
  · rintro ⟨⟨⟨h1, h2⟩, h3⟩, ⟨hb, hxA⟩ | ⟨hb, hL⟩⟩
    · exact Or.inl ⟨hxA, h3⟩
    · refine Or.inr ⟨⟨?_, h2⟩, h3, hL⟩
      rw [div_le_iff₀ hc1p]; linarith [not_lt.mp hb]
  · rintro (⟨hxA, h3⟩ | ⟨⟨hu, h2⟩, h3, hL⟩)
    · have h01 := hA01 hxA
      have hu0 : 0 ≤ w 0 := by
        by_contra h
        have : (par lam).c1 * w 0 < 0 := mul_neg_of_pos_of_neg hc1p (not_le.mp h)
        linarith [h01.1]
      have hu1 : w 0 < 1 := by nlinarith [h01.2]
      exact ⟨⟨⟨hu0, hu1⟩, h3⟩, Or.inl ⟨h01.2, hxA⟩⟩
    · have hu0 : 0 ≤ w 0 := le_trans (by positivity) hu
      have hb : ¬ (par lam).c1 * w 0 < 1 := by
        rw [div_le_iff₀ hc1p] at hu; rw [not_lt]; linarith
      exact ⟨⟨⟨hu0, h2⟩, h3⟩, Or.inr ⟨hb, hL⟩⟩

/-- the law of the sampler with `n` rejection attempts, as a density -/
noncomputable def densN (lam : ℝ) (n : ℕ) (x : ℝ) : ℝ :=
  1 / (par lam).c1 + (1 - 1 / (par lam).c1) * ((1 - q lam ^ n) * (T lam x / I lam))

theorem integral_densN {lam : ℝ} {A : Set ℝ} (hA01 : A ⊆ Ico 0 1) (n : ℕ) :
    ∫ x in A, densN lam n x =
      (1 / (par lam).c1) * volume.real A + (1 - 1 / (par lam).c1) * ((1 - q lam ^ n) * J lam A) := by
  have hAfin : volume A ≠ ∞ :=
    ((measure_mono hA01).trans_lt (by rw [Real.volume_Ico]; exact ENNReal.ofReal_lt_top)).ne
  have hconst : IntegrableOn (fun _ : ℝ => 1 / (par lam).c1) A volume :=
    integrableOn_const (hs := hAfin)
  have hint : IntegrableOn
      (fun x => (1 - 1 / (par lam).c1) * ((1 - q lam ^ n) * (T lam x / I lam))) A volume :=
    (((T_integrableOn lam hA01).div_const _).const_mul _).const_mul _
  unfold densN
  rw [integral_add hconst hint, setIntegral_const, smul_eq_mul,
    integral_const_mul (1 - 1 / (par lam).c1), integral_const_mul (1 - q lam ^ n), integral_div, J]
  ring

/-- **C (n candidates)** the sampler with `n` rejection attempts (branch draw, then the model's loop
with fuel `n`) on a uniform point of the unit cube `[0,1)^(1+m)`, `m ≥ 2n`:
`P(returns within n attempts ∧ value ∈ A) = ∫_A [1/c1 + (1 - 1/c1)·(1 - qⁿ)·T/I]`. -/
theorem sampleSetN_law {lam : ℝ} (hl : 0 < lam) {A : Set ℝ} (hA : MeasurableSet A)
    (hA01 : A ⊆ Ico 0 1) (n m : ℕ) (hm : 2 * n ≤ m) :
    volume (sampleSetN lam A n m) = ENNReal.ofReal (∫ x in A, densN lam n x) := by
  have hc1 := c1_gt_one' hl
  have hc1p : 0 < (par lam).c1 := by linarith
  have hinv : 1 / (par lam).c1 < 1 := by rw [div_lt_one hc1p]; exact hc1
  have hq0 := q_nonneg hl
  have hq1 := q_lt_one hl
  have hJ := J_nonneg hl hA hA01
  have hpow : q lam ^ n ≤ 1 := pow_le_one₀ hq0 hq1.le
  have hAfin : volume A ≠ ∞ :=
    ((measure_mono hA01).trans_lt (by rw [Real.volume_Ico]; exact ENNReal.ofReal_lt_top)).ne
  obtain ⟨hmL, hvL⟩ := loopSet_law_aux hl hA hA01 n m hm
  have hmE1 : MeasurableSet (E1 lam A) := by
    have : Measurable (fun u0 : ℝ => (par lam).c1 * u0) := by fun_prop
    exact this hA
  have hd : Disjoint
      {w : Fin (m + 1) → ℝ | w 0 ∈ E1 lam A ∧ (fun i : Fin m => w i.succ) ∈ cube m}
      {w : Fin (m + 1) → ℝ | w 0 ∈ Ico (1 / (par lam).c1) 1 ∧
        (fun i : Fin m => w i.succ) ∈ loopSet lam A n m} := by
    rw [Set.disjoint_left]
    rintro w ⟨h1, _⟩ ⟨h2, _⟩
    have h01 := hA01 h1
    have := h2.1
    rw [div_le_iff₀ hc1p] at this
    linarith [h01.2]
  have hm2 : MeasurableSet {w : Fin (m + 1) → ℝ | w 0 ∈ Ico (1 / (par lam).c1) 1 ∧
      (fun i : Fin m => w i.succ) ∈ loopSet lam A n m} := by
    have : Measurable (fun w : Fin (m + 1) → ℝ => (fun i : Fin m => w i.succ)) :=
      measurable_pi_iff.2 fun _ => measurable_pi_apply _
    exact ms_and (measurable_pi_apply 0 measurableSet_Ico) (this hmL)
  rw [sampleSetN_eq hl hA01, measure_union hd hm2, volume_split1 hmE1 (measurableSet_cube m),
    volume_split1 measurableSet_Ico hmL, volume_cube, mul_one, volume_E1 hl, hvL, Real.volume_Ico,
    integral_densN hA01]
  have h3 : 0 ≤ 1 / (par lam).c1 := by positivity
  have h4 : 0 ≤ 1 - 1 / (par lam).c1 := by linarith
  have h5 : 0 ≤ (1 - q lam ^ n) * J lam A := mul_nonneg (by linarith) hJ
  rw [ENNReal.ofReal_add (mul_nonneg h3 measureReal_nonneg) (mul_nonneg h4 h5),
    ENNReal.ofReal_mul (p := 1 / (par lam).c1) h3, ENNReal.ofReal_mul (p := 1 - 1 / (par lam).c1) h4,
    Measure.real, ENNReal.ofReal_toReal hAfin]


/-- **C (sampler)** the law of `Exp01.sample` (the model itself, over `ℝ`, fuel `10000`) run on a
uniform point of the unit cube `[0,1)^(1+m)`, `m ≥ 20000` (one branch draw, then two draws per
candidate): `P(sample returns a value in A) = ∫_A [1/c1 + (1 - 1/c1)·(1 - q^10000)·T/I]`. -/
theorem sampleSet_law {lam : ℝ} (hl : 0 < lam) {A : Set ℝ} (hA : MeasurableSet A)
    (hA01 : A ⊆ Ico 0 1) (m : ℕ) (hm : 20000 ≤ m) :
    volume (sampleSet lam A m) = ENNReal.ofReal (∫ x in A, densN lam 10000 x) := by
  rw [sampleSet_eq_N, sampleSetN_law hl hA hA01 10000 m (by omega)]

/-! ## D. the distribution function -/

/-- the density of the exponential law of rate `λ` conditioned on `[0,1)` -/
noncomputable def dens (lam x : ℝ) : ℝ := lam * Real.exp (-lam * x) / (1 - Real.exp (-lam))

/-- **D** the primitive of the truncated-exponential density is the distribution function of C16 -/
theorem cdf_primitive (lam x : ℝ) :
    ∫ t in (0:ℝ)..x, lam * Real.exp (-lam * t) / (1 - Real.exp (-lam)) =
      (1 - Real.exp (-lam * x)) / (1 - Real.exp (-lam)) := by
  have hderiv : ∀ t ∈ Set.uIcc (0:ℝ) x,
      HasDerivAt (fun t => (1 - Real.exp (-lam * t)) / (1 - Real.exp (-lam)))
        (lam * Real.exp (-lam * t) / (1 - Real.exp (-lam))) t := by
    intro t _
    have h1 : HasDerivAt (fun t : ℝ => -lam * t) (-lam * 1) t :=
      (hasDerivAt_id' t).const_mul (-lam)
    have h2 := ((hasDerivAt_const t (1:ℝ)).sub h1.exp).div_const (1 - Real.exp (-lam))
    refine h2.congr_deriv ?_
    ring
  have hcont : IntervalIntegrable (fun t => lam * Real.exp (-lam * t) / (1 - Real.exp (-lam)))
      MeasureTheory.volume 0 x := by
    apply Continuous.intervalIntegrable
    fun_prop
  rw [intervalIntegral.integral_eq_sub_of_hasDerivAt hderiv hcont]
  simp

/-! ## C (end). the limit law and the distribution function -/

theorem dens_eq_mixture {lam : ℝ} (hl : 0 < lam) (x : ℝ) :
    dens lam x = 1 / (par lam).c1 + (1 - 1 / (par lam).c1) * (T lam x / I lam) := by
  have := mixture_density lam x hl
  rw [mul_one] at this
  rw [dens, ← this]

theorem J_le_one {lam : ℝ} (hl : 0 < lam) {A : Set ℝ} (hA01 : A ⊆ Ico 0 1) : J lam A ≤ 1 := by
  rw [J, div_le_one (I_pos hl), ← integral_T_Ico hl]
  apply setIntegral_mono_set (T_integrableOn lam subset_rfl)
  · filter_upwards [ae_restrict_mem measurableSet_Ico] with x hx
    exact T_nonneg hl hx.2.le
  · exact Filter.Eventually.of_forall hA01

theorem integral_dens {lam : ℝ} (hl : 0 < lam) {A : Set ℝ} (hA01 : A ⊆ Ico 0 1) :
    ∫ x in A, dens lam x =
      (1 / (par lam).c1) * volume.real A + (1 - 1 / (par lam).c1) * J lam A := by
  have e' : (fun x => dens lam x) =
      fun x => 1 / (par lam).c1 + (1 - 1 / (par lam).c1) * ((1 - 0) * (T lam x / I lam)) := by
    funext x; rw [dens_eq_mixture hl]; ring
  have hAfin : volume A ≠ ∞ :=
    ((measure_mono hA01).trans_lt (by rw [Real.volume_Ico]; exact ENNReal.ofReal_lt_top)).ne
  have hconst : IntegrableOn (fun _ : ℝ => 1 / (par lam).c1) A volume :=
    integrableOn_const (hs := hAfin)
  have hint : IntegrableOn
      (fun x => (1 - 1 / (par lam).c1) * ((1 - 0) * (T lam x / I lam))) A volume :=
    (((T_integrableOn lam hA01).div_const _).const_mul _).const_mul _
  rw [e', integral_add hconst hint, setIntegral_const, smul_eq_mul,
    integral_const_mul (1 - 1 / (par lam).c1), integral_const_mul ((1:ℝ) - 0), integral_div, J]
  ring

/-- exact defect of the fuel-limited sampler: the mass `(1 - 1/c1)·qⁿ` of the runs that exhaust the
fuel is missing, distributed like the rejection branch -/
theorem integral_densN_eq {lam : ℝ} (hl : 0 < lam) {A : Set ℝ} (hA01 : A ⊆ Ico 0 1) (n : ℕ) :
    ∫ x in A, densN lam n x =
      (∫ x in A, dens lam x) - (1 - 1 / (par lam).c1) * q lam ^ n * J lam A := by
  rw [integral_densN hA01, integral_dens hl hA01]; ring

/-- **C (limit)** as the number of rejection attempts grows, the law of the sampler converges to
the exponential law of rate `λ` conditioned on `[0,1)`: density `λ e^{-λx} / (1 - e^{-λ})`. -/
theorem densN_tendsto {lam : ℝ} (hl : 0 < lam) {A : Set ℝ} (hA01 : A ⊆ Ico 0 1) :
    Filter.Tendsto (fun n => ∫ x in A, densN lam n x) Filter.atTop
      (nhds (∫ x in A, lam * Real.exp (-lam * x) / (1 - Real.exp (-lam)))) := by
  have hq := tendsto_pow_atTop_nhds_zero_of_lt_one (q_nonneg hl) (q_lt_one hl)
  have h1 : Filter.Tendsto (fun n => (∫ x in A, dens lam x) -
      (1 - 1 / (par lam).c1) * q lam ^ n * J lam A) Filter.atTop
      (nhds ((∫ x in A, dens lam x) - (1 - 1 / (par lam).c1) * 0 * J lam A)) :=
    ((hq.const_mul _).mul_const _).const_sub _
  simp only [mul_zero, zero_mul, sub_zero] at h1
  simp_rw [integral_densN_eq hl hA01]
  exact h1

theorem cdf_Ico (lam : ℝ) {x : ℝ} (hx0 : 0 ≤ x) :
    ∫ t in Ico (0:ℝ) x, lam * Real.exp (-lam * t) / (1 - Real.exp (-lam)) =
      (1 - Real.exp (-lam * x)) / (1 - Real.exp (-lam)) := by
  rw [integral_Ico_eq_integral_Ioc, ← intervalIntegral.integral_of_le hx0, cdf_primitive]

/-- **C16, distribution function (limit form)**: `P(sample < x)` with `n` rejection attempts tends to
`(1 - e^{-λx}) / (1 - e^{-λ})` for every `x ∈ [0,1]`. -/
theorem cdf_tendsto {lam : ℝ} (hl : 0 < lam) {x : ℝ} (hx0 : 0 ≤ x) (hx1 : x ≤ 1) :
    Filter.Tendsto (fun n => ∫ t in Ico (0:ℝ) x, densN lam n t) Filter.atTop
      (nhds ((1 - Real.exp (-lam * x)) / (1 - Real.exp (-lam)))) := by
  rw [← cdf_Ico lam hx0]
  exact densN_tendsto hl (Ico_subset_Ico_right hx1)

/-- **C16, distribution function of the model** (`Exp01.sample` over `ℝ`, fuel `10000`, uniform draws):
`P(sample returns a value < x) = (1 - e^{-λx})/(1 - e^{-λ}) - δ` with
`δ = (1 - 1/c1) · q^10000 · J [0,x)` and `0 ≤ δ ≤ q^10000`. -/
theorem sample_cdf {lam : ℝ} (hl : 0 < lam) {x : ℝ} (hx0 : 0 ≤ x) (hx1 : x ≤ 1) (m : ℕ)
    (hm : 20000 ≤ m) :
    volume (sampleSet lam (Ico 0 x) m) =
      ENNReal.ofReal ((1 - Real.exp (-lam * x)) / (1 - Real.exp (-lam)) -
        (1 - 1 / (par lam).c1) * q lam ^ 10000 * J lam (Ico 0 x)) ∧
    0 ≤ (1 - 1 / (par lam).c1) * q lam ^ 10000 * J lam (Ico 0 x) ∧
    (1 - 1 / (par lam).c1) * q lam ^ 10000 * J lam (Ico 0 x) ≤ q lam ^ 10000 := by
  have hsub : Ico (0:ℝ) x ⊆ Ico 0 1 := Ico_subset_Ico_right hx1
  have hc1 := c1_gt_one' hl
  have hc1p : 0 < (par lam).c1 := by linarith
  have hinv : 1 / (par lam).c1 < 1 := by rw [div_lt_one hc1p]; exact hc1
  have hinv0 : 0 < 1 / (par lam).c1 := by positivity
  have hJ0 := J_nonneg hl (measurableSet_Ico (a := (0:ℝ)) (b := x)) hsub
  have hJ1 := J_le_one hl hsub
  have hq0 : 0 ≤ q lam ^ 10000 := pow_nonneg (q_nonneg hl) _
  refine ⟨?_, ?_, ?_⟩
  · rw [sampleSet_law hl measurableSet_Ico hsub m hm, integral_densN_eq hl hsub]
    unfold dens
    rw [cdf_Ico lam hx0]
  · exact mul_nonneg (mul_nonneg (by linarith) hq0) hJ0
  · calc (1 - 1 / (par lam).c1) * q lam ^ 10000 * J lam (Ico 0 x)
        ≤ 1 * q lam ^ 10000 * 1 := by
          apply mul_le_mul _ hJ1 hJ0 (by positivity)
          exact mul_le_mul_of_nonneg_right (by linarith) hq0
      _ = q lam ^ 10000 := by ring

/-- probability that `sample` returns at all (does not exhaust its fuel) -/
theorem sample_returns {lam : ℝ} (hl : 0 < lam) (m : ℕ) (hm : 20000 ≤ m) :
    volume (sampleSet lam (Ico 0 1) m) =
      ENNReal.ofReal (1 - (1 - 1 / (par lam).c1) * q lam ^ 10000) := by
  have h := (sample_cdf hl zero_le_one le_rfl m hm).1
  have hJ : J lam (Ico 0 1) = 1 := by
    rw [J, integral_T_Ico hl, div_self (I_pos hl).ne']
  have hd : 1 - Real.exp (-lam) ≠ 0 := by
    have : Real.exp (-lam) < 1 := by rw [Real.exp_lt_one_iff]; linarith
    linarith
  rw [h, hJ, mul_one, mul_one, div_self hd]

/-! ## C'. the same law for an arbitrary i.i.d. uniform sequence on a probability space -/

/-- the source of draws reading the sequence `v` (state = index of the next draw) -/
def nextN (v : ℕ → ℝ) (i : ℕ) : ℝ × ℕ := (v i, i + 1)

/-- the model's loop on an arbitrary source returns a value in `A` -/
def loopOKG {G : Type} (lam : ℝ) (A : Set ℝ) (next : G → ℝ × G) (n : ℕ) (g : G) : Prop :=
  ∃ x ∈ A, ∃ g', Exp01.loop realOps (par lam) next n g = .ok (x, g')

theorem loopOKG_succ {G : Type} (lam : ℝ) (A : Set ℝ) (next : G → ℝ × G) (n : ℕ) (g : G) :
    loopOKG lam A next (n + 1) g ↔
      (∃ x ∈ A, cand lam (next g).1 (next (next g).2).1 = some x) ∨
      (cand lam (next g).1 (next (next g).2).1 = none ∧
        loopOKG lam A next n (next (next g).2).2) := by
  unfold loopOKG
  rw [loop_succ]
  cases h : cand lam (next g).1 (next (next g).2).1 with
  | none => simp
  | some x => simp

/-- the loop with fuel `n` only looks at the next `2 n` draws -/
theorem loopOKG_nextN_iff (lam : ℝ) (A : Set ℝ) (v : ℕ → ℝ) :
    ∀ (n i k : ℕ), 2 * n ≤ k →
      (loopOKG lam A (nextN v) n i ↔ loopOK lam A n (List.ofFn fun j : Fin k => v (i + j))) := by
  intro n
  induction n with
  | zero =>
    intro i k _
    simp [loopOKG, loopOK, Exp01.loop]
  | succ n ih =>
    intro i k hk
    obtain ⟨k', rfl⟩ : ∃ k', k = k' + 2 := ⟨k - 2, by omega⟩
    rw [loopOKG_succ, ofFn_succ2, loopOK_succ]
    have e : tail2 (fun j : Fin (k' + 2) => v (i + j)) = fun j : Fin k' => v (i + 2 + j) := by
      funext j
      simp only [tail2, Fin.val_succ]
      congr 1
      omega
    simp only [nextN, e, Fin.val_zero, Fin.val_one, add_zero]
    rw [← ih (i + 2) k' (by omega)]

/-- `sample` on the sequence `v` only looks at the first `1 + 2·10000` draws -/
theorem sample_nextN_iff (lam : ℝ) (A : Set ℝ) (v : ℕ → ℝ) (m : ℕ) (hm : 20000 ≤ m) :
    (∃ x ∈ A, ∃ g', Exp01.sample realOps (par lam) (nextN v) 0 = .ok (x, g')) ↔
      sampleOK lam A (List.ofFn fun j : Fin (m + 1) => v j) := by
  rw [sampleOK_iff, List.ofFn_succ, sampleNOK_cons, sample_eq]
  have h := loopOKG_nextN_iff lam A v 10000 1 m (by omega)
  have e : (fun j : Fin m => v (1 + j)) = fun j : Fin m => v (j.succ : Fin (m + 1)) := by
    funext j; simp only [Fin.val_succ]; congr 1; omega
  rw [e] at h
  simp only [nextN, Fin.val_zero, zero_add]
  by_cases hb : (par lam).c1 * v 0 < 1
  · simp [hb]
  · simp only [hb, if_false, false_and, false_or, not_false_eq_true, true_and]
    exact h

theorem measurableSet_sampleSet {lam : ℝ} (hl : 0 < lam) {A : Set ℝ} (hA : MeasurableSet A)
    (hA01 : A ⊆ Ico 0 1) (m : ℕ) (hm : 20000 ≤ m) : MeasurableSet (sampleSet lam A m) := by
  rw [sampleSet_eq_N, sampleSetN_eq hl hA01]
  have hmE1 : MeasurableSet (E1 lam A) := by
    have : Measurable (fun u0 : ℝ => (par lam).c1 * u0) := by fun_prop
    exact this hA
  have ht : Measurable (fun w : Fin (m + 1) → ℝ => (fun i : Fin m => w i.succ)) :=
    measurable_pi_iff.2 fun _ => measurable_pi_apply _
  exact (ms_and (measurable_pi_apply 0 hmE1) (ht (measurableSet_cube m))).union
    (ms_and (measurable_pi_apply 0 measurableSet_Ico)
      (ht (measurableSet_loopSet hl hA hA01 10000 m (by omega))))

open ProbabilityTheory in
/-- **C16 (law of the model on i.i.d. uniform draws)**.  Let `U 0, U 1, …` be independent random
variables, each uniform on `[0,1)`, on a probability space `(Ω, μ)`.  Run the model of
`ExpRestricted01::sample` (over `ℝ`) on the stream `U 0 ω, U 1 ω, …`.  Then for every measurable
`A ⊆ [0,1)` the probability that it returns a value in `A` is
`∫_A [1/c1 + (1 - 1/c1)·(1 - q^10000)·T/I]`, which is
`∫_A λ e^{-λx}/(1 - e^{-λ}) dx - (1 - 1/c1)·q^10000·J A` (`integral_densN_eq`). -/
theorem sample_law_iid {lam : ℝ} (hl : 0 < lam) {A : Set ℝ} (hA : MeasurableSet A)
    (hA01 : A ⊆ Ico 0 1) {Ω : Type*} [MeasurableSpace Ω] (μ : Measure Ω) [IsProbabilityMeasure μ]
    (U : ℕ → Ω → ℝ) (hU : ∀ i, Measurable (U i)) (hind : iIndepFun U μ)
    (hunif : ∀ i, μ.map (U i) = volume.restrict (Ico (0:ℝ) 1)) :
    μ {ω | ∃ x ∈ A, ∃ g',
        Exp01.sample realOps (Exp01.new realOps lam) (nextN fun i => U i ω) 0 = .ok (x, g')} =
      ENNReal.ofReal (∫ x in A, densN lam 10000 x) := by
  set m : ℕ := 20000 with hm
  set X : Ω → (Fin (m + 1) → ℝ) := fun ω j => U j ω with hX
  have hXm : Measurable X := measurable_pi_iff.2 fun j => hU j
  -- the joint law of the first `m + 1` draws is the uniform law on the cube
  have hind' : iIndepFun (fun j : Fin (m + 1) => U j) μ :=
    hind.precomp (g := fun j : Fin (m + 1) => (j : ℕ)) Fin.val_injective
  have hmap : μ.map X = (volume : Measure (Fin (m + 1) → ℝ)).restrict (cube (m + 1)) := by
    have := (iIndepFun_iff_map_fun_eq_pi_map (μ := μ) (f := fun j : Fin (m + 1) => U j)
      (fun j => (hU j).aemeasurable)).mp hind'
    rw [hX, this, cube_eq_pi, volume_pi, Measure.restrict_pi_pi]
    congr 1
    funext j
    exact hunif j
  have hset : {ω | ∃ x ∈ A, ∃ g',
      Exp01.sample realOps (Exp01.new realOps lam) (nextN fun i => U i ω) 0 = .ok (x, g')} =
      X ⁻¹' {w | sampleOK lam A (List.ofFn w)} := by
    ext ω
    exact sample_nextN_iff lam A (fun i => U i ω) m le_rfl
  have hnull : μ (X ⁻¹' cube (m + 1))ᶜ = 0 := by
    rw [← preimage_compl, ← Measure.map_apply hXm (measurableSet_cube _).compl, hmap,
      Measure.restrict_apply (measurableSet_cube _).compl]
    simp
  have hS := measurableSet_sampleSet hl hA hA01 m le_rfl
  rw [hset, ← measure_inter_conull hnull, ← preimage_inter]
  have hinter : {w | sampleOK lam A (List.ofFn w)} ∩ cube (m + 1) = sampleSet lam A m := by
    ext w; simp only [sampleSet, mem_inter_iff, mem_ofPred_eq]; exact and_comm
  rw [hinter, ← Measure.map_apply hXm hS, hmap, Measure.restrict_apply hS,
    inter_eq_left.mpr (fun w hw => hw.1), sampleSet_law hl hA hA01 m le_rfl]

open ProbabilityTheory in
/-- **C16 (distribution function of the model on i.i.d. uniform draws)**: for `x ∈ [0,1]`,
`P(sample returns a value in [0,x)) = (1 - e^{-λx})/(1 - e^{-λ}) - δ`, `0 ≤ δ ≤ q^10000`, `q < 1`
(`sample_cdf` for the bounds on `δ = (1 - 1/c1)·q^10000·J [0,x)`). -/
theorem sample_cdf_iid {lam : ℝ} (hl : 0 < lam) {x : ℝ} (hx0 : 0 ≤ x) (hx1 : x ≤ 1)
    {Ω : Type*} [MeasurableSpace Ω] (μ : Measure Ω) [IsProbabilityMeasure μ]
    (U : ℕ → Ω → ℝ) (hU : ∀ i, Measurable (U i)) (hind : iIndepFun U μ)
    (hunif : ∀ i, μ.map (U i) = volume.restrict (Ico (0:ℝ) 1)) :
    μ {ω | ∃ y ∈ Ico (0:ℝ) x, ∃ g',
        Exp01.sample realOps (Exp01.new realOps lam) (nextN fun i => U i ω) 0 = .ok (y, g')} =
      ENNReal.ofReal ((1 - Real.exp (-lam * x)) / (1 - Real.exp (-lam)) -
        (1 - 1 / (par lam).c1) * q lam ^ 10000 * J lam (Ico 0 x)) := by
  have hsub : Ico (0:ℝ) x ⊆ Ico 0 1 := Ico_subset_Ico_right hx1
  rw [sample_law_iid hl measurableSet_Ico hsub μ U hU hind hunif, integral_densN_eq hl hsub]
  unfold dens
  rw [cdf_Ico lam hx0]

/-- the uniform law on `[0,1)` is a probability measure -/
instance : IsProbabilityMeasure ((volume : Measure ℝ).restrict (Ico (0:ℝ) 1)) :=
  ⟨by simp [Real.volume_Ico]⟩

open ProbabilityTheory in
/-- non-vacuity of the hypotheses of `sample_law_iid`: the coordinates of the infinite product of
uniform laws on `[0,1)` are i.i.d. uniform -/
theorem iid_uniform_exists :
    ∃ (Ω : Type) (_ : MeasurableSpace Ω) (μ : Measure Ω) (_ : IsProbabilityMeasure μ)
      (U : ℕ → Ω → ℝ), (∀ i, Measurable (U i)) ∧ iIndepFun U μ ∧
        ∀ i, μ.map (U i) = volume.restrict (Ico (0:ℝ) 1) := by
  refine ⟨ℕ → ℝ, inferInstance,
    Measure.infinitePi (fun _ : ℕ => (volume : Measure ℝ).restrict (Ico (0:ℝ) 1)), inferInstance,
    fun i ω => ω i, fun i => measurable_pi_apply i, ?_, ?_⟩
  · exact iIndepFun_infinitePi (X := fun _ (x : ℝ) => x) (fun _ => measurable_id)
  · intro i
    exact Measure.infinitePi_map_eval
      (fun _ : ℕ => (volume : Measure ℝ).restrict (Ico (0:ℝ) 1)) i

end PMH.Exp01Law

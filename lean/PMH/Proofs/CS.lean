import Mathlib.Order.Basic
import Mathlib.Data.Finset.Basic
import Mathlib.Data.Finset.Lattice.Fold
import Mathlib.Data.Finset.Max
import Mathlib.Data.Finset.Card
import Mathlib.Data.Fintype.Card
import Mathlib.Data.Fintype.Perm
import Mathlib.Algebra.BigOperators.Group.Finset.Basic
import Mathlib.Algebra.BigOperators.Ring.Finset
import Mathlib.Algebra.Group.Action.End
import Mathlib.GroupTheory.GroupAction.Basic
/-!
# `CS`: consistent sampling, collision ⇔ "minimiser of the union lies in the intersection",
# and the exact Jaccard collision law from exchangeability (finite counting, no measure theory)

* Part 1 (order theory): selection schemes `c : Finset Item → Pos → Item` with membership (M) and
  restriction (R); `cs_collision`; the arg-min of tie-free scores is a selection scheme.
* Part 2 (finite probability): an equivariant map from a finite `G`-set to a transitive `G`-set has
  equinumerous fibres, hence is uniform; instantiated to permutation-closed finite sets `Ω` of
  assignments of per-item randomness; `collision_prob_eq_jaccard`.
* Part 3: a concrete non-vacuity instance.
-/
namespace PMH.CS

/-! ## Part 1 — selection schemes -/
section Part1
variable {Item Pos : Type} [DecidableEq Item]

/-- A selection scheme: every position `p` of the sketch of a nonempty set `S` shows an item of `S`
(M), and if the item shown for a superset `U` lies in `S`, then `S` shows the same item (R). -/
structure Scheme (Item Pos : Type) [DecidableEq Item] where
  c : Finset Item → Pos → Item
  mem : ∀ S p, S.Nonempty → c S p ∈ S
  restrict : ∀ S U p, S ⊆ U → S.Nonempty → c U p ∈ S → c S p = c U p

/-- (1a) Two nonempty sets collide at `p` iff the item selected for the union lies in the
intersection. -/
theorem cs_collision (sch : Scheme Item Pos) {A B : Finset Item} (hA : A.Nonempty)
    (hB : B.Nonempty) (p : Pos) :
    sch.c A p = sch.c B p ↔ sch.c (A ∪ B) p ∈ A ∩ B := by
  have hU : (A ∪ B).Nonempty := hA.mono Finset.subset_union_left
  constructor
  · intro h
    rcases Finset.mem_union.mp (sch.mem (A ∪ B) p hU) with hm | hm
    · have e := sch.restrict A (A ∪ B) p Finset.subset_union_left hA hm
      refine Finset.mem_inter.mpr ⟨hm, ?_⟩
      rw [← e, h]; exact sch.mem B p hB
    · have e := sch.restrict B (A ∪ B) p Finset.subset_union_right hB hm
      refine Finset.mem_inter.mpr ⟨?_, hm⟩
      rw [← e, ← h]; exact sch.mem A p hA
  · intro h
    obtain ⟨ha, hb⟩ := Finset.mem_inter.mp h
    rw [sch.restrict A (A ∪ B) p Finset.subset_union_left hA ha,
      sch.restrict B (A ∪ B) p Finset.subset_union_right hB hb]

variable {V : Type} [LinearOrder V] [Inhabited Item]

/-- The element of `S` minimising the score `w` (an arbitrary default for `S = ∅`). -/
noncomputable def argmin (w : Item → V) (S : Finset Item) : Item :=
  if h : S.Nonempty then (S.exists_min_image w h).choose else default

omit [DecidableEq Item] in
/-- (1b) `argmin w S` is in `S` and minimises `w` on `S`. -/
theorem argmin_spec (w : Item → V) {S : Finset Item} (hS : S.Nonempty) :
    argmin w S ∈ S ∧ ∀ d ∈ S, w (argmin w S) ≤ w d := by
  unfold argmin
  rw [dif_pos hS]
  exact (S.exists_min_image w hS).choose_spec

omit [DecidableEq Item] in
/-- (1b) uniqueness: with tie-free scores, any minimiser of `w` on `S` is `argmin w S`. -/
theorem argmin_unique {w : Item → V} (hw : Function.Injective w) {S : Finset Item} {d : Item}
    (hd : d ∈ S) (hmin : ∀ d' ∈ S, w d ≤ w d') : d = argmin w S := by
  obtain ⟨hm, hle⟩ := argmin_spec w ⟨d, hd⟩
  exact hw (le_antisymm (hmin _ hm) (hle _ hd))

/-- (1b) The arg-min of tie-free scores `v p` is a selection scheme. -/
noncomputable def argmin_scheme (v : Pos → Item → V) (hv : ∀ p, Function.Injective (v p)) :
    Scheme Item Pos where
  c S p := argmin (v p) S
  mem _ p hS := (argmin_spec (v p) hS).1
  restrict _ _ p hSU _ hin :=
    (argmin_unique (hv p) hin
      (fun d' hd' => (argmin_spec (v p) ⟨d', hSU hd'⟩).2 d' (hSU hd'))).symm

@[simp] theorem argmin_scheme_c (v : Pos → Item → V) (hv : ∀ p, Function.Injective (v p))
    (S : Finset Item) (p : Pos) : (argmin_scheme v hv).c S p = argmin (v p) S := rfl

/-- (1c) For tie-free scores: the arg-mins of `A` and `B` coincide iff the arg-min of `A ∪ B`
lies in `A ∩ B`. -/
theorem collision_iff_min_in_inter (v : Pos → Item → V) (hv : ∀ p, Function.Injective (v p))
    {A B : Finset Item} (hA : A.Nonempty) (hB : B.Nonempty) (p : Pos) :
    argmin (v p) A = argmin (v p) B ↔ argmin (v p) (A ∪ B) ∈ A ∩ B :=
  cs_collision (argmin_scheme v hv) hA hB p

/-- (1c), single score function (no position index). -/
theorem collision_iff_min_in_inter' {w : Item → V} (hw : Function.Injective w)
    {A B : Finset Item} (hA : A.Nonempty) (hB : B.Nonempty) :
    argmin w A = argmin w B ↔ argmin w (A ∪ B) ∈ A ∩ B :=
  collision_iff_min_in_inter (fun _ : Unit => w) (fun _ => hw) hA hB ()

end Part1

/-! ## Part 2 — exact finite probability from exchangeability -/
section Part2
open Finset

/-- (2a) An equivariant map out of a finite `G`-set has equinumerous fibres over the points of one
orbit. -/
theorem fiber_card_eq {G Ω X : Type*} [Group G] [MulAction G Ω] [MulAction G X]
    [Fintype Ω] [DecidableEq X]
    (f : Ω → X) (hf : ∀ (g : G) (ω : Ω), f (g • ω) = g • f ω) (g : G) (x : X) :
    (univ.filter (fun ω => f ω = g • x)).card = (univ.filter (fun ω => f ω = x)).card := by
  symm
  apply Finset.card_bij (fun ω _ => g • ω)
  · intro ω hω
    simp only [mem_filter, mem_univ, true_and] at hω ⊢
    rw [hf, hω]
  · intro a _ b _ h
    exact MulAction.injective g h
  · intro ω hω
    simp only [mem_filter, mem_univ, true_and] at hω
    refine ⟨g⁻¹ • ω, ?_, by simp⟩
    simp only [mem_filter, mem_univ, true_and]
    rw [hf, hω, inv_smul_smul]

/-- (2b) An equivariant map from a finite `G`-set to a finite transitive `G`-set is uniform:
`P(f ∈ T) = |T| / |X|`, in cross-multiplied form. -/
theorem uniform_of_transitive {G Ω X : Type*} [Group G] [MulAction G Ω] [MulAction G X]
    [Fintype Ω] [Fintype X] [DecidableEq X] [MulAction.IsPretransitive G X]
    (f : Ω → X) (hf : ∀ (g : G) (ω : Ω), f (g • ω) = g • f ω) (T : Finset X) :
    (univ.filter (fun ω => f ω ∈ T)).card * Fintype.card X = T.card * Fintype.card Ω := by
  have hfib : ∀ x y : X,
      (univ.filter (fun ω => f ω = x)).card = (univ.filter (fun ω => f ω = y)).card := by
    intro x y
    obtain ⟨g, rfl⟩ := MulAction.exists_smul_eq G y x
    exact fiber_card_eq f hf g y
  have hT : (univ.filter (fun ω => f ω ∈ T)).card
      = ∑ x ∈ T, (univ.filter (fun ω => f ω = x)).card := by
    rw [Finset.card_eq_sum_card_fiberwise (f := f) (t := T)]
    · refine Finset.sum_congr rfl (fun x hx => ?_)
      congr 1
      ext ω
      simp only [mem_filter, mem_univ, true_and]
      constructor
      · exact fun h => h.2
      · exact fun h => ⟨h ▸ hx, h⟩
    · intro ω hω
      exact (mem_filter.mp hω).2
  have hΩ : Fintype.card Ω = ∑ y : X, (univ.filter (fun ω => f ω = y)).card := by
    rw [← Finset.card_univ]
    exact Finset.card_eq_sum_card_fiberwise (fun ω _ => mem_univ (f ω))
  calc (univ.filter (fun ω => f ω ∈ T)).card * Fintype.card X
      = ∑ x ∈ T, ∑ _y : X, (univ.filter (fun ω => f ω = x)).card := by
        rw [hT, Finset.sum_mul]
        refine Finset.sum_congr rfl (fun x _ => ?_)
        rw [Finset.sum_const, Finset.card_univ, smul_eq_mul, mul_comm]
    _ = ∑ _x ∈ T, ∑ y : X, (univ.filter (fun ω => f ω = y)).card := by
        refine Finset.sum_congr rfl (fun x _ => Finset.sum_congr rfl (fun y _ => hfib x y))
    _ = T.card * Fintype.card Ω := by
        rw [← hΩ, Finset.sum_const, smul_eq_mul]

/-! ### (2c)–(2e): permutation-closed finite sets of assignments

`ι` is the (finite) type of items of the universe, `Rnd` the per-item randomness, an assignment is
`r : ι → Rnd`, and `σ : Equiv.Perm ι` relabels it to `r ∘ σ.symm` (item `σ d` gets what `d` had).
The general statements are over an arbitrary `Fintype ι`; the `↥U` versions (`U : Finset Item`)
are their instances. -/
section Exch
variable {ι Rnd : Type}

/-- `Ω` is closed under relabelling of items (finite exchangeability: with the counting measure on
`Ω`, the per-item randomness is an exchangeable family). -/
def PermClosed (Ω : Finset (ι → Rnd)) : Prop :=
  ∀ r ∈ Ω, ∀ σ : Equiv.Perm ι, r ∘ ⇑σ.symm ∈ Ω

/-- The relabelling action of `Equiv.Perm ι` on a permutation-closed `Ω`:
`(σ • ω).val = ω.val ∘ σ.symm`. -/
@[reducible] def permAction (Ω : Finset (ι → Rnd)) (hΩ : PermClosed Ω) :
    MulAction (Equiv.Perm ι) ↥Ω where
  smul σ ω := ⟨ω.1 ∘ ⇑σ.symm, hΩ _ ω.2 σ⟩
  one_smul _ := Subtype.ext rfl
  mul_smul _ _ _ := Subtype.ext rfl

theorem permAction_val (Ω : Finset (ι → Rnd)) (hΩ : PermClosed Ω) (σ : Equiv.Perm ι) (ω : ↥Ω) :
    (letI := permAction Ω hΩ; σ • ω : ↥Ω).1 = ω.1 ∘ ⇑σ.symm := rfl

variable [Fintype ι] [DecidableEq ι]

/-- (2c), general form. The selected item of an equivariant selector is uniform on `ι`. -/
theorem selected_uniform_gen (Ω : Finset (ι → Rnd)) (hΩ : PermClosed Ω) (sel : (ι → Rnd) → ι)
    (hsel : ∀ r ∈ Ω, ∀ σ : Equiv.Perm ι, sel (r ∘ ⇑σ.symm) = σ (sel r)) (T : Finset ι) :
    (Ω.filter (fun r => sel r ∈ T)).card * Fintype.card ι = T.card * Ω.card := by
  let _ := permAction Ω hΩ
  have h := uniform_of_transitive (G := Equiv.Perm ι) (fun ω : ↥Ω => sel ω.1)
    (fun σ ω => hsel ω.1 ω.2 σ) T
  rw [Fintype.card_coe] at h
  rw [← h]
  congr 1
  apply Finset.card_bij (fun r hr => (⟨r, (mem_filter.mp hr).1⟩ : ↥Ω))
  · intro r hr
    simpa using (mem_filter.mp hr).2
  · intro a _ b _ hab
    exact congrArg Subtype.val hab
  · intro ω hω
    exact ⟨ω.1, mem_filter.mpr ⟨ω.2, (mem_filter.mp hω).2⟩, rfl⟩

/-- (2e), general form. Every item is selected for exactly `#Ω / #ι` assignments. -/
theorem position_uniform_gen (Ω : Finset (ι → Rnd)) (hΩ : PermClosed Ω) (sel : (ι → Rnd) → ι)
    (hsel : ∀ r ∈ Ω, ∀ σ : Equiv.Perm ι, sel (r ∘ ⇑σ.symm) = σ (sel r)) (d : ι) :
    (Ω.filter (fun r => sel r = d)).card * Fintype.card ι = Ω.card := by
  have h := selected_uniform_gen Ω hΩ sel hsel {d}
  simpa using h

omit [DecidableEq ι] in
/-- Equivariance of the arg-min selector under equivariant tie-free scores. -/
theorem argmin_univ_equivariant [Inhabited ι] {V Pos : Type} [LinearOrder V]
    (Ω : Finset (ι → Rnd)) (hΩ : PermClosed Ω) (v : (ι → Rnd) → Pos → ι → V) (p : Pos)
    (hinj : ∀ r ∈ Ω, Function.Injective (v r p))
    (hequiv : ∀ r ∈ Ω, ∀ (σ : Equiv.Perm ι) (d : ι), v (r ∘ ⇑σ.symm) p (σ d) = v r p d) :
    ∀ r ∈ Ω, ∀ σ : Equiv.Perm ι,
      argmin (v (r ∘ ⇑σ.symm) p) univ = σ (argmin (v r p) univ) := by
  intro r hr σ
  symm
  apply argmin_unique (hinj _ (hΩ r hr σ)) (mem_univ _)
  intro d' _
  have hd' : d' = σ (σ.symm d') := (σ.apply_symm_apply d').symm
  rw [hd', hequiv r hr, hequiv r hr]
  exact (argmin_spec (v r p) univ_nonempty).2 _ (mem_univ _)

/-- (2d), general form. For `A ∪ B` the whole universe, the number of assignments under which the
arg-mins of `A` and `B` coincide, times `|A ∪ B|`, is `|A ∩ B| · #Ω`: the collision probability is
exactly the Jaccard index. -/
theorem collision_prob_eq_jaccard_gen [Inhabited ι] {V Pos : Type} [LinearOrder V]
    (Ω : Finset (ι → Rnd)) (hΩ : PermClosed Ω) (v : (ι → Rnd) → Pos → ι → V) (p : Pos)
    (hinj : ∀ r ∈ Ω, Function.Injective (v r p))
    (hequiv : ∀ r ∈ Ω, ∀ (σ : Equiv.Perm ι) (d : ι), v (r ∘ ⇑σ.symm) p (σ d) = v r p d)
    {A B : Finset ι} (hA : A.Nonempty) (hB : B.Nonempty) (hAB : A ∪ B = univ) :
    (Ω.filter (fun r => argmin (v r p) A = argmin (v r p) B)).card * (A ∪ B).card
      = (A ∩ B).card * Ω.card := by
  have hfil : Ω.filter (fun r => argmin (v r p) A = argmin (v r p) B)
      = Ω.filter (fun r => argmin (v r p) univ ∈ A ∩ B) := by
    refine Finset.filter_congr (fun r hr => ?_)
    rw [collision_iff_min_in_inter' (hinj r hr) hA hB, hAB]
  rw [hfil, hAB, Finset.card_univ]
  exact selected_uniform_gen Ω hΩ (fun r => argmin (v r p) univ)
    (argmin_univ_equivariant Ω hΩ v p hinj hequiv) (A ∩ B)

end Exch

/-! ### The same, for a universe `U : Finset Item` (items are `↥U`) -/
section Universe
variable {Item Rnd : Type} [DecidableEq Item]

/-- (2c) `#{ω ∈ Ω | sel ω ∈ T} * |U| = |T| * #Ω`. -/
theorem selected_uniform (U : Finset Item) (Ω : Finset (↥U → Rnd)) (hΩ : PermClosed Ω)
    (sel : (↥U → Rnd) → ↥U)
    (hsel : ∀ r ∈ Ω, ∀ σ : Equiv.Perm ↥U, sel (r ∘ ⇑σ.symm) = σ (sel r)) (T : Finset ↥U) :
    (Ω.filter (fun r => sel r ∈ T)).card * U.card = T.card * Ω.card := by
  have h := selected_uniform_gen Ω hΩ sel hsel T
  rwa [Fintype.card_coe] at h

/-- (2e) each `d ∈ U` is selected for exactly `#Ω / |U|` assignments. -/
theorem position_uniform (U : Finset Item) (Ω : Finset (↥U → Rnd)) (hΩ : PermClosed Ω)
    (sel : (↥U → Rnd) → ↥U)
    (hsel : ∀ r ∈ Ω, ∀ σ : Equiv.Perm ↥U, sel (r ∘ ⇑σ.symm) = σ (sel r)) (d : ↥U) :
    (Ω.filter (fun r => sel r = d)).card * U.card = Ω.card := by
  have h := position_uniform_gen Ω hΩ sel hsel d
  rwa [Fintype.card_coe] at h

/-- (2d) for `A B : Finset ↥U` covering the universe `U`. -/
theorem collision_prob_eq_jaccard (U : Finset Item) [Inhabited ↥U] {V Pos : Type} [LinearOrder V]
    (Ω : Finset (↥U → Rnd)) (hΩ : PermClosed Ω) (v : (↥U → Rnd) → Pos → ↥U → V) (p : Pos)
    (hinj : ∀ r ∈ Ω, Function.Injective (v r p))
    (hequiv : ∀ r ∈ Ω, ∀ (σ : Equiv.Perm ↥U) (d : ↥U), v (r ∘ ⇑σ.symm) p (σ d) = v r p d)
    {A B : Finset ↥U} (hA : A.Nonempty) (hB : B.Nonempty) (hAB : A ∪ B = univ) :
    (Ω.filter (fun r => argmin (v r p) A = argmin (v r p) B)).card * (A ∪ B).card
      = (A ∩ B).card * Ω.card :=
  collision_prob_eq_jaccard_gen Ω hΩ v p hinj hequiv hA hB hAB

/-- (2d) for `A B : Finset Item`, with the universe `U := A ∪ B` by definition; the sets are
transported to `↥(A ∪ B)` by `Finset.subtype`, the cardinalities are those of `A ∩ B`, `A ∪ B`
in `Item`. -/
theorem collision_prob_eq_jaccard_sets (A B : Finset Item) [Inhabited ↥(A ∪ B)]
    {V Pos : Type} [LinearOrder V]
    (Ω : Finset (↥(A ∪ B) → Rnd)) (hΩ : PermClosed Ω)
    (v : (↥(A ∪ B) → Rnd) → Pos → ↥(A ∪ B) → V) (p : Pos)
    (hinj : ∀ r ∈ Ω, Function.Injective (v r p))
    (hequiv : ∀ r ∈ Ω, ∀ (σ : Equiv.Perm ↥(A ∪ B)) (d : ↥(A ∪ B)),
      v (r ∘ ⇑σ.symm) p (σ d) = v r p d)
    (hA : A.Nonempty) (hB : B.Nonempty) :
    (Ω.filter (fun r => argmin (v r p) (A.subtype (· ∈ A ∪ B))
        = argmin (v r p) (B.subtype (· ∈ A ∪ B)))).card * (A ∪ B).card
      = (A ∩ B).card * Ω.card := by
  have hA' : (A.subtype (· ∈ A ∪ B)).Nonempty := by
    obtain ⟨a, ha⟩ := hA
    exact ⟨⟨a, mem_union_left _ ha⟩, mem_subtype.mpr ha⟩
  have hB' : (B.subtype (· ∈ A ∪ B)).Nonempty := by
    obtain ⟨b, hb⟩ := hB
    exact ⟨⟨b, mem_union_right _ hb⟩, mem_subtype.mpr hb⟩
  have hAB : A.subtype (· ∈ A ∪ B) ∪ B.subtype (· ∈ A ∪ B) = univ := by
    ext x
    simpa [mem_subtype] using mem_union.mp x.2
  have hI : (A.subtype (· ∈ A ∪ B) ∩ B.subtype (· ∈ A ∪ B)).card = (A ∩ B).card := by
    have : A.subtype (· ∈ A ∪ B) ∩ B.subtype (· ∈ A ∪ B) = (A ∩ B).subtype (· ∈ A ∪ B) := by
      ext x; simp [mem_subtype]
    rw [this, Finset.card_subtype, Finset.filter_true_of_mem]
    intro x hx
    exact mem_union_left _ (mem_inter.mp hx).1
  have h := collision_prob_eq_jaccard (A ∪ B) Ω hΩ v p hinj hequiv hA' hB' hAB
  rw [hAB, Finset.card_univ, Fintype.card_coe, hI] at h
  exact h

end Universe

end Part2

/-! ## Part 3 — non-vacuity: injective assignments, score = the assigned number -/
section Part3
open Finset

/-- All injective assignments `ι → Rnd` (for `Rnd = ι = Fin n`: the permutations). -/
def injAssignments (ι Rnd : Type) [Fintype ι] [DecidableEq ι] [Fintype Rnd] [DecidableEq Rnd] :
    Finset (ι → Rnd) :=
  univ.filter Function.Injective

/-- The score of item `d` under assignment `r` is the assigned value `r d` (any position). -/
def idScore {ι Rnd : Type} (r : ι → Rnd) (_p : Unit) (d : ι) : Rnd := r d

section
variable {ι Rnd : Type} [Fintype ι] [DecidableEq ι] [Fintype Rnd] [DecidableEq Rnd]

theorem injAssignments_closed : PermClosed (injAssignments ι Rnd) := by
  intro r hr σ
  simp only [injAssignments, mem_filter, mem_univ, true_and] at hr ⊢
  exact hr.comp σ.symm.injective

theorem idScore_injective (r : ι → Rnd) (hr : r ∈ injAssignments ι Rnd) (p : Unit) :
    Function.Injective (idScore r p) :=
  (mem_filter.mp hr).2

omit [Fintype ι] [DecidableEq ι] [Fintype Rnd] [DecidableEq Rnd] in
theorem idScore_equivariant (r : ι → Rnd) (σ : Equiv.Perm ι) (p : Unit) (d : ι) :
    idScore (r ∘ ⇑σ.symm) p (σ d) = idScore r p d := by
  simp [idScore]

end

/-- The concrete instance: `Item = Fin 3`, `A = {0,1}`, `B = {1,2}`, `U = A ∪ B`, `Rnd = Fin 3`. -/
def exA : Finset (Fin 3) := {0, 1}
def exB : Finset (Fin 3) := {1, 2}
instance : Inhabited ↥(exA ∪ exB) := ⟨⟨1, by decide⟩⟩

/-- The instance has assignments at all (so the counting statement is not `0 = 0`). -/
theorem ex_nonempty : (injAssignments ↥(exA ∪ exB) (Fin 3)).Nonempty :=
  ⟨fun d => d.1, by simp [injAssignments, Subtype.val_injective]⟩

/-- All hypotheses of `collision_prob_eq_jaccard_sets` hold for the instance; its conclusion reads
`#collisions * 3 = 1 * #Ω`, i.e. collision probability `1/3 = |{1}| / |{0,1,2}|`. -/
theorem ex_collision :
    ((injAssignments ↥(exA ∪ exB) (Fin 3)).filter (fun r =>
        argmin (idScore r ()) (exA.subtype (· ∈ exA ∪ exB))
          = argmin (idScore r ()) (exB.subtype (· ∈ exA ∪ exB)))).card * 3
      = 1 * (injAssignments ↥(exA ∪ exB) (Fin 3)).card := by
  have h := collision_prob_eq_jaccard_sets exA exB (injAssignments ↥(exA ∪ exB) (Fin 3))
    injAssignments_closed idScore ()
    (fun r hr => idScore_injective r hr ())
    (fun r _ σ d => idScore_equivariant r σ () d)
    (by decide) (by decide)
  have h1 : (exA ∪ exB).card = 3 := by decide
  have h2 : (exA ∩ exB).card = 1 := by decide
  rwa [h1, h2] at h

/-- The instance has exactly `3! = 6` assignments … -/
theorem ex_card : (injAssignments ↥(exA ∪ exB) (Fin 3)).card = 6 := by decide

/-- … of which exactly `2` make `A` and `B` collide (`2/6 = 1/3 = |A ∩ B| / |A ∪ B|`). -/
theorem ex_collision_count :
    ((injAssignments ↥(exA ∪ exB) (Fin 3)).filter (fun r =>
        argmin (idScore r ()) (exA.subtype (· ∈ exA ∪ exB))
          = argmin (idScore r ()) (exB.subtype (· ∈ exA ∪ exB)))).card = 2 := by
  have h := ex_collision
  rw [ex_card] at h
  omega

end Part3

end PMH.CS

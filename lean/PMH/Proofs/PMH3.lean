import PMH.Model.ProbMinHash3
import PMH.Proofs.Race
import PMH.Props.C15
import Mathlib.Algebra.Order.Field.Basic
import Mathlib.Tactic.Linarith
import Mathlib.Tactic.Positivity
/-!
# Refinement of the ProbMinHash3 / 3a models to the `Race` specification (helper lemmas for C02)

Exact arithmetic (`K` an ordered field).  The item's generator is *total*: `src.nextX g = ok (fx g)`,
`src.nextK g = ok (fk g)`, with `0 ≤ x < 1` and `k < m`.
-/
namespace PMH.P3
open PMH PMH.Race PMH.MT PMH.C15
variable {K G : Type} [Field K] [LinearOrder K] [IsStrictOrderedRing K]

/-- registers (tracker leaves) and identities as a `Race` state; positions `≥ m` read `top` -/
def view (top : K) (init : Nat) (s : PMH3 K G) : St K Nat :=
  ⟨fun k => if k < s.m then vw top s.tracker.vals k else top, fun k => s.sig.getD k init⟩

def WF (top : K) (m : Nat) (s : PMH3 K G) : Prop := s.m = m ∧ Good top m s.tracker ∧ s.sig.size = m

/-- maximum of the first `m` registers -/
def qmaxF (m : Nat) (st : St K Nat) : K := (List.range m).foldl (fun a k => max a (st.reg k)) (st.reg 0)

theorem foldl_max_ge (f : Nat → K) (l : List Nat) (a : K) :
    a ≤ l.foldl (fun a k => max a (f k)) a ∧ ∀ k ∈ l, f k ≤ l.foldl (fun a k => max a (f k)) a := by
  induction l generalizing a with
  | nil => exact ⟨le_refl _, fun _ h => absurd h List.not_mem_nil⟩
  | cons x xs ih =>
    simp only [List.foldl_cons]
    obtain ⟨h1, h2⟩ := ih (max a (f x))
    refine ⟨le_trans (le_max_left _ _) h1, ?_⟩
    intro k hk
    rcases List.mem_cons.mp hk with rfl | hk
    · exact le_trans (le_max_right _ _) h1
    · exact h2 k hk

theorem foldl_max_mem (f : Nat → K) (l : List Nat) (a : K) :
    l.foldl (fun a k => max a (f k)) a = a ∨ ∃ k ∈ l, l.foldl (fun a k => max a (f k)) a = f k := by
  induction l generalizing a with
  | nil => exact Or.inl rfl
  | cons x xs ih =>
    simp only [List.foldl_cons]
    rcases ih (max a (f x)) with h | ⟨k, hk, h⟩
    · rcases max_choice a (f x) with e | e
      · left; rw [h, e]
      · right; exact ⟨x, List.mem_cons_self, by rw [h, e]⟩
    · right; exact ⟨k, List.mem_cons_of_mem _ hk, h⟩

theorem qmaxF_ge (m : Nat) (st : St K Nat) (k : Nat) (hk : k < m) : st.reg k ≤ qmaxF m st :=
  (foldl_max_ge st.reg (List.range m) (st.reg 0)).2 k (List.mem_range.mpr hk)

theorem qmaxF_mem (m : Nat) (hm : 1 ≤ m) (st : St K Nat) : ∃ k, k < m ∧ qmaxF m st = st.reg k := by
  rcases foldl_max_mem st.reg (List.range m) (st.reg 0) with h | ⟨k, hk, h⟩
  · exact ⟨0, by omega, h⟩
  · exact ⟨k, List.mem_range.mp hk, h⟩

/-- the tracker's reported maximum is the maximum of the view -/
theorem getMax_eq (top : K) (init : Nat) (m : Nat) (hm : 1 ≤ m) (s : PMH3 K G) (h : WF top m s) :
    s.tracker.getMax = .ok (qmaxF m (view top init s)) := by
  obtain ⟨hsm, hg, _⟩ := h
  obtain ⟨mx, e, hle, k0, hk0, hat⟩ := max_spec top m hm s.tracker hg
  rw [e]
  congr 1
  have hv : ∀ k, k < m → (view top init s).reg k = vw top s.tracker.vals k := by
    intro k hk; simp [view, hsm, hk]
  apply le_antisymm
  · rw [← hat, ← hv k0 hk0]; exact qmaxF_ge m _ k0 hk0
  · obtain ⟨k, hk, e2⟩ := qmaxF_mem m hm (view top init s)
    rw [e2, hv k hk]; exact hle k hk

/-- `offer` of the model = `Race.offer` on the view; well-formedness is kept and the returned
`qmax` is again the current maximum -/
theorem offer_sim (top : K) (init : Nat) (m : Nat) (hm : 1 ≤ m) (s : PMH3 K G) (hwf : WF top m s)
    (k : Nat) (hk : k < m) (h : K) (id : Nat) (qmax : K) (hq : qmax = qmaxF m (view top init s)) :
    ∃ s' q', s.offer k h id qmax = .ok (s', q') ∧ WF top m s' ∧
      view top init s' = Race.offer (view top init s) ⟨k, h, id⟩ ∧ q' = qmaxF m (view top init s') ∧
      s'.tbp = s.tbp := by
  obtain ⟨hsm, hg, hsz⟩ := hwf
  have hsize : s.tracker.vals.size = 2 * m - 1 := hg.2.1
  have hkv : k < s.tracker.vals.size := by omega
  unfold PMH3.offer Tracker.getValue
  rw [getElem?_vw top _ _ hkv]
  dsimp only
  by_cases hlt : h < vw top s.tracker.vals k
  · simp only [hlt, if_true]
    obtain ⟨t', e, g', l'⟩ := update_good top m hm s.tracker hg k hk h
    rw [e]
    dsimp only
    have hwf' : WF top m { s with sig := s.sig.setIfInBounds k id, tracker := t' } :=
      ⟨hsm, g', by simp [hsz]⟩
    rw [getMax_eq top init m hm _ hwf']
    refine ⟨_, _, rfl, hwf', ?_, rfl, rfl⟩
    unfold view Race.offer
    have hlt' : h < (if k < s.m then vw top s.tracker.vals k else top) := by simp [hsm, hk, hlt]
    simp only [hlt', if_true]
    congr 1
    · funext i
      by_cases him : i < m
      · simp only [hsm, him, if_true]
        rw [l' i him]
        unfold Function.update
        by_cases hik : i = k
        · subst hik; simp [min_eq_right (le_of_lt hlt)]
        · simp [hik, hsm, him]
      · have hik : i ≠ k := by omega
        simp [hsm, him, Function.update_of_ne hik]
    · funext i
      unfold Function.update
      by_cases hik : i = k
      · subst hik; simp [Array.getD_eq_getD_getElem?, Array.getElem?_setIfInBounds, hsz, hk]
      · have : ¬ k = i := fun e => hik e.symm
        simp [hik, Array.getD_eq_getD_getElem?, Array.getElem?_setIfInBounds, this]
  · simp only [hlt, if_false]
    refine ⟨s, qmax, rfl, ⟨hsm, hg, hsz⟩, ?_, hq, rfl⟩
    unfold Race.offer view
    have hlt' : ¬ h < (if k < s.m then vw top s.tracker.vals k else top) := by simp [hsm, hk, hlt]
    simp only [hlt', if_false]


/-! ### the item's point stream and the loop of `hash_item` -/

/-- a total generator: `fx` = one truncated-exponential sample, `fk` = one position draw -/
structure TSrc (K G : Type) where
  fx : G → K × G
  fk : G → Nat × G

def TSrc.toSrc (t : TSrc K G) : Src K G := ⟨fun g => .ok (t.fx g), fun g => .ok (t.fk g)⟩

/-- samples lie in `[0,1)`, positions in `[0,m)` -/
def Nice (t : TSrc K G) (m : Nat) : Prop := (∀ g, 0 ≤ (t.fx g).1 ∧ (t.fx g).1 < 1) ∧ (∀ g, (t.fk g).1 < m)

/-- the points still to come when the loop is at `(h, i, g)`: the current value `h` goes to the next
position drawn from `g`; then `h' = winv·i + winv·x`, and so on -/
def ptFrom (t : TSrc K G) (winv : K) (id : Nat) : K → Nat → G → Nat → Pt K Nat
  | h, _, g, 0 => ⟨(t.fk g).1, h, id⟩
  | _, i, g, j + 1 => ptFrom t winv id (winv * (i : K) + winv * (t.fx (t.fk g).2).1) (i + 1) (t.fx (t.fk g).2).2 j

theorem ptFrom_pos (t : TSrc K G) (m : Nat) (hn : Nice t m) (winv : K) (id : Nat) :
    ∀ (j : Nat) (h : K) (i : Nat) (g : G), (ptFrom t winv id h i g j).pos < m := by
  intro j
  induction j with
  | zero => intro h i g; exact hn.2 g
  | succ j ih => intro h i g; exact ih _ _ _

theorem ptFrom_tag (t : TSrc K G) (winv : K) (id : Nat) :
    ∀ (j : Nat) (h : K) (i : Nat) (g : G), (ptFrom t winv id h i g j).tag = id := by
  intro j
  induction j with
  | zero => intro h i g; rfl
  | succ j ih => intro h i g; exact ih _ _ _

theorem ptFrom_val_ge (t : TSrc K G) (m : Nat) (hn : Nice t m) (winv : K) (hw : 0 < winv) (id : Nat) :
    ∀ (j : Nat) (h : K) (i : Nat) (g : G), h ≤ winv * (i : K) → h ≤ (ptFrom t winv id h i g j).val ∧
      (1 ≤ j → winv * (i : K) ≤ (ptFrom t winv id h i g j).val) := by
  intro j
  induction j with
  | zero => intro h i g _; exact ⟨le_refl _, fun h => absurd h (by omega)⟩
  | succ j ih =>
    intro h i g hle
    have hx := hn.1 (t.fk g).2
    have h1 : winv * (i : K) ≤ winv * (i : K) + winv * (t.fx (t.fk g).2).1 := by
      have := mul_nonneg (le_of_lt hw) hx.1; linarith
    have h2 : winv * (i : K) + winv * (t.fx (t.fk g).2).1 ≤ winv * ((i + 1 : Nat) : K) := by
      have : winv * (t.fx (t.fk g).2).1 ≤ winv * 1 := mul_le_mul_of_nonneg_left (le_of_lt hx.2) (le_of_lt hw)
      push_cast; linarith
    obtain ⟨a, _⟩ := ih _ (i + 1) (t.fx (t.fk g).2).2 h2
    simp only [ptFrom]
    exact ⟨le_trans hle (le_trans h1 a), fun _ => le_trans h1 a⟩

theorem range_ptFrom (t : TSrc K G) (winv : K) (id : Nat) (h : K) (i : Nat) (g : G) :
    Set.range (ptFrom t winv id h i g) =
      {ptFrom t winv id h i g 0} ∪ Set.range (ptFrom t winv id (winv * (i : K) + winv * (t.fx (t.fk g).2).1) (i + 1) (t.fx (t.fk g).2).2) := by
  ext p; constructor
  · rintro ⟨j, rfl⟩
    cases j with
    | zero => exact Or.inl rfl
    | succ j => exact Or.inr ⟨j, rfl⟩
  · rintro (hp | ⟨j, rfl⟩)
    · exact ⟨0, hp.symm⟩
    · exact ⟨j + 1, rfl⟩

/-- **loop of `ProbMinHash3::hash_item`**: if it returns, the state satisfies the specification for the
old points plus *all* points of the item (offered or dominated), and stays well-formed. -/
theorem itemLoop_spec (top : K) (init : Nat) (m : Nat) (hm : 1 ≤ m) (t : TSrc K G) (hn : Nice t m)
    (id : Nat) (winv : K) (hw : 0 < winv) :
    ∀ (fuel : Nat) (s : PMH3 K G) (h : K) (i : Nat) (qmax : K) (g : G) (P : Set (Pt K Nat)) (s' : PMH3 K G),
      WF top m s → qmax = qmaxF m (view top init s) → h ≤ winv * (i : K) → Spec m top init P (view top init s) →
      PMH3.itemLoop t.toSrc id winv fuel s h i qmax g = .ok s' →
      WF top m s' ∧ Spec m top init (P ∪ Set.range (ptFrom t winv id h i g)) (view top init s') ∧ s'.tbp = s.tbp := by
  intro fuel
  induction fuel with
  | zero => intro s h i qmax g P s' _ _ _ _ e; simp [PMH3.itemLoop] at e
  | succ f ih =>
    intro s h i qmax g P s' hwf hq hle hs e
    have hge := ptFrom_val_ge t m hn winv hw id
    have hpos := ptFrom_pos t m hn winv id
    simp only [PMH3.itemLoop] at e
    by_cases hlt : h < qmax
    · simp only [hlt, if_true, TSrc.toSrc] at e
      have hk : (t.fk g).1 < s.m := by rw [hwf.1]; exact hn.2 g
      simp only [hk, not_true_eq_false, if_false] at e
      obtain ⟨s1, q1, e1, wf1, v1, hq1, tb1⟩ := offer_sim top init m hm s hwf (t.fk g).1 (hn.2 g) h id qmax hq
      rw [e1] at e
      dsimp only at e
      have hs1 : Spec m top init (P ∪ {ptFrom t winv id h i g 0}) (view top init s1) := by
        rw [v1]; exact spec_offer hs _
      by_cases hstop : winv * (i : K) < q1
      · simp only [hstop, not_true_eq_false, if_false] at e
        have hle2 : winv * (i : K) + winv * (t.fx (t.fk g).2).1 ≤ winv * ((i + 1 : Nat) : K) := by
          have hx := hn.1 (t.fk g).2
          have : winv * (t.fx (t.fk g).2).1 ≤ winv * 1 := mul_le_mul_of_nonneg_left (le_of_lt hx.2) (le_of_lt hw)
          push_cast; linarith
        obtain ⟨wf', sp', tb'⟩ := ih s1 _ (i + 1) q1 _ _ s' wf1 hq1 hle2 hs1 e
        refine ⟨wf', ?_, by rw [tb', tb1]⟩
        rw [range_ptFrom, ← Set.union_assoc]; exact sp'
      · simp only [hstop, not_false_eq_true, if_true] at e
        injection e with e; subst e
        refine ⟨wf1, ?_, tb1⟩
        refine spec_mono hs1 ?_ ?_
        · intro p hp
          rcases hp with hp | hp
          · exact Or.inl hp
          · rw [Set.mem_singleton_iff] at hp; exact Or.inr ⟨0, hp.symm⟩
        · intro p hp hnp
          rcases hp with hp | ⟨j, rfl⟩
          · exact absurd (Or.inl hp) hnp
          · cases j with
            | zero => exact absurd (Or.inr rfl) hnp
            | succ j =>
              have := (hge (j + 1) h i g hle).2 (by omega)
              have hq' := qmaxF_ge m (view top init s1) _ (hpos (j + 1) h i g)
              rw [← hq1] at hq'
              exact le_trans hq' (le_trans (not_lt.mp hstop) this)
    · simp only [hlt, if_false] at e
      injection e with e; subst e
      refine ⟨hwf, ?_, rfl⟩
      refine spec_dominated hs ?_
      rintro _ ⟨j, rfl⟩
      have := (hge j h i g hle).1
      have hq' := qmaxF_ge m (view top init s) _ (hpos j h i g)
      rw [← hq] at hq'
      exact le_trans hq' (le_trans (not_lt.mp hlt) this)


/-! ### all points of an item; `hash_item` -/

/-- all points of the item `(id, w)` whose private generator starts at `g0` -/
def itemPts (t : TSrc K G) (id : Nat) (w : K) (g0 : G) : Set (Pt K Nat) :=
  Set.range (ptFrom t (1 / w) id (1 / w * (t.fx g0).1) 1 (t.fx g0).2)

theorem hashItem_spec (top : K) (init : Nat) (m : Nat) (hm : 1 ≤ m) (t : TSrc K G) (hn : Nice t m)
    (fuel : Nat) (s s' : PMH3 K G) (id : Nat) (w : K) (hw : 0 < w) (g0 : G) (P : Set (Pt K Nat))
    (hwf : WF top m s) (hs : Spec m top init P (view top init s))
    (e : s.hashItem t.toSrc fuel id w g0 = .ok s') :
    WF top m s' ∧ Spec m top init (P ∪ itemPts t id w g0) (view top init s') ∧ s'.tbp = s.tbp := by
  unfold PMH3.hashItem at e
  have h0 : ((0 : Nat) : K) < w := by simpa using hw
  simp only [h0, not_true_eq_false, if_false, TSrc.toSrc] at e
  rw [getMax_eq top init m hm s hwf] at e
  dsimp only at e
  have hwinv : (0 : K) < ((1 : Nat) : K) / w := by simpa using hw
  have hx := hn.1 g0
  have hle : ((1 : Nat) : K) / w * (t.fx g0).1 ≤ ((1 : Nat) : K) / w * ((1 : Nat) : K) :=
    mul_le_mul_of_nonneg_left (by simpa using le_of_lt hx.2) (le_of_lt hwinv)
  have := itemLoop_spec top init m hm t hn id (((1 : Nat) : K) / w) hwinv fuel s _ 1 _ _ P s' hwf rfl hle hs e
  simpa [itemPts] using this

/-! ### the two-pass batch of ProbMinHash3a -/

/-- points still to come for a pending entry `(id, winv, g)` at the start of round `i` -/
def pend (t : TSrc K G) (i : Nat) (e : Nat × K × G) : Set (Pt K Nat) :=
  Set.range (ptFrom t e.2.1 e.1 (e.2.1 * ((i - 1 : Nat) : K) + e.2.1 * (t.fx e.2.2).1) i (t.fx e.2.2).2)

def Pend (t : TSrc K G) (i : Nat) (l : List (Nat × K × G)) : Set (Pt K Nat) := {p | ∃ e ∈ l, p ∈ pend t i e}

def AllPts (t : TSrc K G) (items : List (Nat × K × G)) : Set (Pt K Nat) :=
  {p | ∃ it ∈ items, p ∈ itemPts t it.1 it.2.1 it.2.2}

theorem pend_val_ge (t : TSrc K G) (m : Nat) (hn : Nice t m) (i : Nat) (hi : 1 ≤ i) (e : Nat × K × G) (hw : 0 < e.2.1) :
    ∀ p ∈ pend t i e, e.2.1 * ((i - 1 : Nat) : K) ≤ p.val ∧ p.pos < m := by
  rintro _ ⟨j, rfl⟩
  have hx := hn.1 e.2.2
  have h1 : e.2.1 * ((i - 1 : Nat) : K) ≤ e.2.1 * ((i - 1 : Nat) : K) + e.2.1 * (t.fx e.2.2).1 := by
    have := mul_nonneg (le_of_lt hw) hx.1; linarith
  have h2 : e.2.1 * ((i - 1 : Nat) : K) + e.2.1 * (t.fx e.2.2).1 ≤ e.2.1 * (i : K) := by
    have : e.2.1 * (t.fx e.2.2).1 ≤ e.2.1 * 1 := mul_le_mul_of_nonneg_left (le_of_lt hx.2) (le_of_lt hw)
    have hc : ((i - 1 : Nat) : K) + 1 = (i : K) := by
      have : i - 1 + 1 = i := by omega
      exact_mod_cast this
    rw [← hc]; linarith
  exact ⟨le_trans h1 (ptFrom_val_ge t m hn e.2.1 hw e.1 j _ i _ h2).1, ptFrom_pos t m hn e.2.1 e.1 j _ _ _⟩

/-- decomposition used by a round: first pending point, then what is pending for round `i+1` -/
theorem pend_succ (t : TSrc K G) (i : Nat) (hi : 1 ≤ i) (e : Nat × K × G) :
    pend t i e = {⟨(t.fk (t.fx e.2.2).2).1, e.2.1 * ((i - 1 : Nat) : K) + e.2.1 * (t.fx e.2.2).1, e.1⟩} ∪
      pend t (i + 1) (e.1, e.2.1, (t.fk (t.fx e.2.2).2).2) := by
  unfold pend
  rw [range_ptFrom]
  have : i + 1 - 1 = i := by omega
  simp only [ptFrom, this]

/-- decomposition used by the first pass -/
theorem itemPts_succ (t : TSrc K G) (id : Nat) (w : K) (g0 : G) :
    itemPts t id w g0 = {⟨(t.fk (t.fx g0).2).1, 1 / w * (t.fx g0).1, id⟩} ∪ pend t 2 (id, 1 / w, (t.fk (t.fx g0).2).2) := by
  unfold itemPts pend
  rw [range_ptFrom]
  simp only [ptFrom]


theorem view_tbp (top : K) (init : Nat) (s : PMH3 K G) (kept : Array (Nat × K × G)) :
    view top init { s with tbp := kept } = view top init s := rfl

theorem Pend_append (t : TSrc K G) (i : Nat) (l : List (Nat × K × G)) (e : Nat × K × G) :
    Pend t i (l ++ [e]) = Pend t i l ∪ pend t i e := by
  ext p; simp only [Pend, Set.mem_setOf_eq, List.mem_append, List.mem_singleton, Set.mem_union]
  constructor
  · rintro ⟨e', he' | he', hp⟩
    · exact Or.inl ⟨e', he', hp⟩
    · subst he'; exact Or.inr hp
  · rintro (⟨e', he', hp⟩ | hp)
    · exact ⟨e', Or.inl he', hp⟩
    · exact ⟨e, Or.inr rfl, hp⟩

theorem Pend_cons (t : TSrc K G) (i : Nat) (l : List (Nat × K × G)) (e : Nat × K × G) :
    Pend t i (e :: l) = pend t i e ∪ Pend t i l := by
  ext p; simp only [Pend, Set.mem_setOf_eq, List.mem_cons, Set.mem_union]
  constructor
  · rintro ⟨e', he' | he', hp⟩
    · subst he'; exact Or.inl hp
    · exact Or.inr ⟨e', he', hp⟩
  · rintro (hp | ⟨e', he', hp⟩)
    · exact ⟨e, Or.inl rfl, hp⟩
    · exact ⟨e', Or.inr he', hp⟩

theorem AllPts_cons (t : TSrc K G) (l : List (Nat × K × G)) (it : Nat × K × G) :
    AllPts t (it :: l) = itemPts t it.1 it.2.1 it.2.2 ∪ AllPts t l := by
  ext p; simp only [AllPts, Set.mem_setOf_eq, List.mem_cons, Set.mem_union]
  constructor
  · rintro ⟨e', he' | he', hp⟩
    · subst he'; exact Or.inl hp
    · exact Or.inr ⟨e', he', hp⟩
  · rintro (hp | ⟨e', he', hp⟩)
    · exact ⟨it, Or.inl rfl, hp⟩
    · exact ⟨e', Or.inr he', hp⟩

/-- first pass of the batch -/
theorem firstPass_spec (top : K) (init : Nat) (m : Nat) (hm : 1 ≤ m) (t : TSrc K G) (hn : Nice t m)
    (okW : K → Bool) (Target : Set (Pt K Nat)) :
    ∀ (items : List (Nat × K × G)) (s : PMH3 K G) (qmax : K) (Q : Set (Pt K Nat)) (s' : PMH3 K G) (q' : K),
      WF top m s → qmax = qmaxF m (view top init s) →
      (∀ it ∈ items, okW it.2.1 = true ∧ 0 < it.2.1) → (∀ e ∈ s.tbp.toList, 0 < e.2.1) →
      Spec m top init Q (view top init s) → Q ⊆ Target → AllPts t items ⊆ Target → Pend t 2 s.tbp.toList ⊆ Target →
      (∀ p ∈ Target, p ∈ Q ∨ p ∈ Pend t 2 s.tbp.toList ∨ p ∈ AllPts t items) →
      PMH3.firstPass t.toSrc okW items s qmax = .ok (s', q') →
      ∃ Q', WF top m s' ∧ q' = qmaxF m (view top init s') ∧ Spec m top init Q' (view top init s') ∧ Q' ⊆ Target ∧
        Pend t 2 s'.tbp.toList ⊆ Target ∧
        (∀ p ∈ Target, p ∈ Q' ∨ p ∈ Pend t 2 s'.tbp.toList) ∧ (∀ e ∈ s'.tbp.toList, 0 < e.2.1) := by
  intro items
  induction items with
  | nil =>
    intro s qmax Q s' q' hwf hq _ hpos hs hQT _ hPT hcov e
    simp only [PMH3.firstPass] at e
    injection e with e; injection e with e1 e2; subst e1 e2
    refine ⟨Q, hwf, hq, hs, hQT, hPT, ?_, hpos⟩
    intro p hp
    rcases hcov p hp with h | h | ⟨it, hit, _⟩
    · exact Or.inl h
    · exact Or.inr h
    · exact absurd hit List.not_mem_nil
  | cons it rest ih =>
    obtain ⟨id, w, g0⟩ := it
    intro s qmax Q s' q' hwf _ hok hpos hs hQT hAT hPT hcov e
    have hokw := (hok (id, w, g0) List.mem_cons_self)
    have hw : (0 : K) < w := hokw.2
    have hwinv : (0 : K) < ((1 : Nat) : K) / w := by simpa using hw
    have hokrest : ∀ it ∈ rest, okW it.2.1 = true ∧ 0 < it.2.1 := fun it h => hok it (List.mem_cons_of_mem _ h)
    rw [AllPts_cons] at hAT hcov
    have hAT1 : itemPts t id w g0 ⊆ Target := fun p hp => hAT (Or.inl hp)
    have hAT2 : AllPts t rest ⊆ Target := fun p hp => hAT (Or.inr hp)
    simp only [PMH3.firstPass, hokw.1, not_true_eq_false, if_false, TSrc.toSrc] at e
    rw [getMax_eq top init m hm s hwf] at e
    dsimp only at e
    have hx := hn.1 g0
    have hone : ((1 : Nat) : K) / w = 1 / w := by simp
    by_cases hlt : ((1 : Nat) : K) / w * (t.fx g0).1 < qmaxF m (view top init s)
    · simp only [hlt, if_true] at e
      have hk : (t.fk (t.fx g0).2).1 < s.m := by rw [hwf.1]; exact hn.2 _
      simp only [hk, not_true_eq_false, if_false] at e
      obtain ⟨s1, q1, e1, wf1, v1, hq1, tb1⟩ := offer_sim top init m hm s hwf _ (hn.2 (t.fx g0).2) (((1 : Nat) : K) / w * (t.fx g0).1) id _ rfl
      rw [e1] at e
      dsimp only at e
      have hdec := itemPts_succ t id w g0
      have hs1 : Spec m top init (Q ∪ {⟨(t.fk (t.fx g0).2).1, 1 / w * (t.fx g0).1, id⟩}) (view top init s1) := by
        rw [v1, ← hone]; exact spec_offer hs _
      have hQ1T : Q ∪ {⟨(t.fk (t.fx g0).2).1, 1 / w * (t.fx g0).1, id⟩} ⊆ Target := by
        intro p hp
        rcases hp with hp | hp
        · exact hQT hp
        · exact hAT1 (by rw [hdec]; exact Or.inl hp)
      have hpendT : pend t 2 (id, 1 / w, (t.fk (t.fx g0).2).2) ⊆ Target := fun p hp => hAT1 (by rw [hdec]; exact Or.inr hp)
      by_cases hpush : ((1 : Nat) : K) / w < q1
      · simp only [hpush, if_true] at e
        have htl : ({ s1 with tbp := s1.tbp.push (id, ((1 : Nat) : K) / w, (t.fk (t.fx g0).2).2) } : PMH3 K G).tbp.toList
            = s.tbp.toList ++ [(id, 1 / w, (t.fk (t.fx g0).2).2)] := by
          simp only [Array.toList_push, tb1, hone]
        refine ih { s1 with tbp := s1.tbp.push (id, ((1 : Nat) : K) / w, (t.fk (t.fx g0).2).2) } q1
          (Q ∪ {⟨(t.fk (t.fx g0).2).1, 1 / w * (t.fx g0).1, id⟩}) s' q' ⟨wf1.1, wf1.2.1, wf1.2.2⟩
          (by rw [view_tbp]; exact hq1) hokrest ?_ (by rw [view_tbp]; exact hs1) hQ1T hAT2 ?_ ?_ e
        · intro e' he'
          rw [htl] at he'
          rcases List.mem_append.mp he' with he' | he'
          · exact hpos e' he'
          · rw [List.mem_singleton] at he'; subst he'; simpa using hw
        · rw [htl, Pend_append]
          intro p hp
          rcases hp with hp | hp
          · exact hPT hp
          · exact hpendT hp
        · intro p hp
          rw [htl, Pend_append]
          rcases hcov p hp with h | h | h | h
          · exact Or.inl (Or.inl h)
          · exact Or.inr (Or.inl (Or.inl h))
          · rw [hdec] at h
            rcases h with h | h
            · exact Or.inl (Or.inr h)
            · exact Or.inr (Or.inl (Or.inr h))
          · exact Or.inr (Or.inr h)
      · simp only [hpush, if_false] at e
        have hs2 : Spec m top init ((Q ∪ {⟨(t.fk (t.fx g0).2).1, 1 / w * (t.fx g0).1, id⟩}) ∪ pend t 2 (id, 1 / w, (t.fk (t.fx g0).2).2)) (view top init s1) := by
          refine spec_dominated hs1 ?_
          intro p hp
          obtain ⟨hv, hp'⟩ := pend_val_ge t m hn 2 (by omega) (id, 1 / w, (t.fk (t.fx g0).2).2) (by simpa using hw) p hp
          have hq' := qmaxF_ge m (view top init s1) _ hp'
          rw [← hq1] at hq'
          refine le_trans hq' (le_trans (not_lt.mp hpush) ?_)
          simpa using hv
        refine ih s1 q1 _ s' q' wf1 hq1 hokrest (by rw [tb1]; exact hpos) hs2 ?_ hAT2 (by rw [tb1]; exact hPT) ?_ e
        · intro p hp
          rcases hp with hp | hp
          · exact hQ1T hp
          · exact hpendT hp
        · intro p hp
          rw [tb1]
          rcases hcov p hp with h | h | h | h
          · exact Or.inl (Or.inl (Or.inl h))
          · exact Or.inr (Or.inl h)
          · rw [hdec] at h
            rcases h with h | h
            · exact Or.inl (Or.inl (Or.inr h))
            · exact Or.inl (Or.inr h)
          · exact Or.inr (Or.inr h)
    · simp only [hlt, if_false] at e
      have hs2 : Spec m top init (Q ∪ itemPts t id w g0) (view top init s) := by
        refine spec_dominated hs ?_
        rintro _ ⟨j, rfl⟩
        have hle : 1 / w * (t.fx g0).1 ≤ 1 / w * ((1 : Nat) : K) := by
          have := mul_le_mul_of_nonneg_left (le_of_lt hx.2) (le_of_lt (by simpa using hw : (0:K) < 1 / w))
          simpa using this
        have hv := (ptFrom_val_ge t m hn (1 / w) (by simpa using hw) id j (1 / w * (t.fx g0).1) 1 (t.fx g0).2 hle).1
        have hq' := qmaxF_ge m (view top init s) _ (ptFrom_pos t m hn (1 / w) id j (1 / w * (t.fx g0).1) 1 (t.fx g0).2)
        refine le_trans hq' (le_trans (not_lt.mp hlt) ?_)
        rw [hone]; exact hv
      refine ih s _ _ s' q' hwf rfl hokrest hpos hs2 ?_ hAT2 hPT ?_ e
      · intro p hp
        rcases hp with hp | hp
        · exact hQT hp
        · exact hAT1 hp
      · intro p hp
        rcases hcov p hp with h | h | h | h
        · exact Or.inl (Or.inl h)
        · exact Or.inr (Or.inl h)
        · exact Or.inl (Or.inr h)
        · exact Or.inr (Or.inr h)


/-- one sweep of round `i` over the pending entries -/
theorem roundPass_spec (top : K) (init : Nat) (m : Nat) (hm : 1 ≤ m) (t : TSrc K G) (hn : Nice t m)
    (Target : Set (Pt K Nat)) (i : Nat) (hi : 2 ≤ i) :
    ∀ (l : List (Nat × K × G)) (s : PMH3 K G) (qmax : K) (kept : Array (Nat × K × G)) (Q : Set (Pt K Nat))
      (s' : PMH3 K G) (q' : K) (kept' : Array (Nat × K × G)),
      WF top m s → qmax = qmaxF m (view top init s) →
      (∀ e ∈ l, 0 < e.2.1) → (∀ e ∈ kept.toList, 0 < e.2.1) →
      Spec m top init Q (view top init s) → Q ⊆ Target → Pend t i l ⊆ Target → Pend t (i + 1) kept.toList ⊆ Target →
      (∀ p ∈ Target, p ∈ Q ∨ p ∈ Pend t (i + 1) kept.toList ∨ p ∈ Pend t i l) →
      PMH3.roundPass t.toSrc i l s qmax kept = .ok (s', q', kept') →
      ∃ Q', WF top m s' ∧ q' = qmaxF m (view top init s') ∧ Spec m top init Q' (view top init s') ∧ Q' ⊆ Target ∧
        Pend t (i + 1) kept'.toList ⊆ Target ∧
        (∀ p ∈ Target, p ∈ Q' ∨ p ∈ Pend t (i + 1) kept'.toList) ∧ (∀ e ∈ kept'.toList, 0 < e.2.1) := by
  intro l
  induction l with
  | nil =>
    intro s qmax kept Q s' q' kept' hwf hq _ hkpos hs hQT _ hKT hcov e
    simp only [PMH3.roundPass] at e
    injection e with e; injection e with e1 e; injection e with e2 e3; subst e1 e2 e3
    refine ⟨Q, hwf, hq, hs, hQT, hKT, ?_, hkpos⟩
    intro p hp
    rcases hcov p hp with h | h | ⟨e', he', _⟩
    · exact Or.inl h
    · exact Or.inr h
    · exact absurd he' List.not_mem_nil
  | cons ent rest ih =>
    obtain ⟨id, winv, g⟩ := ent
    intro s qmax kept Q s' q' kept' hwf hq hlpos hkpos hs hQT hLT hKT hcov e
    have hw : (0 : K) < winv := hlpos (id, winv, g) List.mem_cons_self
    have hrestpos : ∀ e ∈ rest, 0 < e.2.1 := fun e h => hlpos e (List.mem_cons_of_mem _ h)
    rw [Pend_cons] at hLT hcov
    have hLT1 : pend t i (id, winv, g) ⊆ Target := fun p hp => hLT (Or.inl hp)
    have hLT2 : Pend t i rest ⊆ Target := fun p hp => hLT (Or.inr hp)
    simp only [PMH3.roundPass, TSrc.toSrc] at e
    rw [getMax_eq top init m hm s hwf] at e
    dsimp only at e
    by_cases hlt : winv * ((i - 1 : Nat) : K) < qmaxF m (view top init s)
    · simp only [hlt, if_true] at e
      obtain ⟨s1, q1, e1, wf1, v1, hq1, tb1⟩ := offer_sim top init m hm s hwf _ (hn.2 (t.fx g).2)
        (winv * ((i - 1 : Nat) : K) + winv * (t.fx g).1) id qmax hq
      rw [e1] at e
      dsimp only at e
      have hdec := pend_succ t i (by omega) (id, winv, g)
      dsimp only at hdec
      have hs1 : Spec m top init (Q ∪ {⟨(t.fk (t.fx g).2).1, winv * ((i - 1 : Nat) : K) + winv * (t.fx g).1, id⟩}) (view top init s1) := by
        rw [v1]; exact spec_offer hs _
      have hQ1T : Q ∪ {⟨(t.fk (t.fx g).2).1, winv * ((i - 1 : Nat) : K) + winv * (t.fx g).1, id⟩} ⊆ Target := by
        intro p hp
        rcases hp with hp | hp
        · exact hQT hp
        · exact hLT1 (by rw [hdec]; exact Or.inl hp)
      have hpendT : pend t (i + 1) (id, winv, (t.fk (t.fx g).2).2) ⊆ Target := fun p hp => hLT1 (by rw [hdec]; exact Or.inr hp)
      by_cases hkeep : winv * (i : K) < q1
      · simp only [hkeep, if_true] at e
        have htl : (kept.push (id, winv, (t.fk (t.fx g).2).2)).toList = kept.toList ++ [(id, winv, (t.fk (t.fx g).2).2)] := by
          simp only [Array.toList_push]
        refine ih s1 q1 (kept.push (id, winv, (t.fk (t.fx g).2).2)) _ s' q' kept' wf1 hq1 hrestpos ?_ hs1 hQ1T hLT2 ?_ ?_ e
        · intro e' he'
          rw [htl] at he'
          rcases List.mem_append.mp he' with he' | he'
          · exact hkpos e' he'
          · rw [List.mem_singleton] at he'; subst he'; exact hw
        · rw [htl, Pend_append]
          intro p hp
          rcases hp with hp | hp
          · exact hKT hp
          · exact hpendT hp
        · intro p hp
          rw [htl, Pend_append]
          rcases hcov p hp with h | h | h | h
          · exact Or.inl (Or.inl h)
          · exact Or.inr (Or.inl (Or.inl h))
          · rw [hdec] at h
            rcases h with h | h
            · exact Or.inl (Or.inr h)
            · exact Or.inr (Or.inl (Or.inr h))
          · exact Or.inr (Or.inr h)
      · simp only [hkeep, if_false] at e
        have hs2 : Spec m top init ((Q ∪ {⟨(t.fk (t.fx g).2).1, winv * ((i - 1 : Nat) : K) + winv * (t.fx g).1, id⟩}) ∪
            pend t (i + 1) (id, winv, (t.fk (t.fx g).2).2)) (view top init s1) := by
          refine spec_dominated hs1 ?_
          intro p hp
          obtain ⟨hv, hp'⟩ := pend_val_ge t m hn (i + 1) (by omega) (id, winv, (t.fk (t.fx g).2).2) hw p hp
          have hq' := qmaxF_ge m (view top init s1) _ hp'
          rw [← hq1] at hq'
          refine le_trans hq' (le_trans (not_lt.mp hkeep) ?_)
          simpa using hv
        refine ih s1 q1 kept _ s' q' kept' wf1 hq1 hrestpos hkpos hs2 ?_ hLT2 hKT ?_ e
        · intro p hp
          rcases hp with hp | hp
          · exact hQ1T hp
          · exact hpendT hp
        · intro p hp
          rcases hcov p hp with h | h | h | h
          · exact Or.inl (Or.inl (Or.inl h))
          · exact Or.inr (Or.inl h)
          · rw [hdec] at h
            rcases h with h | h
            · exact Or.inl (Or.inl (Or.inr h))
            · exact Or.inl (Or.inr h)
          · exact Or.inr (Or.inr h)
    · simp only [hlt, if_false] at e
      have hs2 : Spec m top init (Q ∪ pend t i (id, winv, g)) (view top init s) := by
        refine spec_dominated hs ?_
        intro p hp
        obtain ⟨hv, hp'⟩ := pend_val_ge t m hn i (by omega) (id, winv, g) hw p hp
        have hq' := qmaxF_ge m (view top init s) _ hp'
        exact le_trans hq' (le_trans (not_lt.mp hlt) hv)
      refine ih s qmax kept _ s' q' kept' hwf hq hrestpos hkpos hs2 ?_ hLT2 hKT ?_ e
      · intro p hp
        rcases hp with hp | hp
        · exact hQT hp
        · exact hLT1 hp
      · intro p hp
        rcases hcov p hp with h | h | h | h
        · exact Or.inl (Or.inl h)
        · exact Or.inr (Or.inl h)
        · exact Or.inl (Or.inr h)
        · exact Or.inr (Or.inr h)

/-- the rounds: when the loop returns, nothing is pending and the state meets the specification for `Target` -/
theorem rounds_spec (top : K) (init : Nat) (m : Nat) (hm : 1 ≤ m) (t : TSrc K G) (hn : Nice t m)
    (Target : Set (Pt K Nat)) :
    ∀ (fuel i : Nat) (s : PMH3 K G) (qmax : K) (Q : Set (Pt K Nat)) (s' : PMH3 K G), 2 ≤ i →
      WF top m s → qmax = qmaxF m (view top init s) → (∀ e ∈ s.tbp.toList, 0 < e.2.1) →
      Spec m top init Q (view top init s) → Q ⊆ Target → Pend t i s.tbp.toList ⊆ Target →
      (∀ p ∈ Target, p ∈ Q ∨ p ∈ Pend t i s.tbp.toList) →
      PMH3.rounds t.toSrc fuel i s qmax = .ok s' →
      WF top m s' ∧ Spec m top init Target (view top init s') ∧ s'.tbp.toList = [] := by
  intro fuel
  induction fuel with
  | zero => intro i s qmax Q s' _ _ _ _ _ _ _ _ e; simp [PMH3.rounds] at e
  | succ f ih =>
    intro i s qmax Q s' hi hwf hq hpos hs hQT hPT hcov e
    simp only [PMH3.rounds] at e
    by_cases hemp : s.tbp.isEmpty = true
    · simp only [hemp, if_true] at e
      injection e with e; subst e
      have hnil : s.tbp.toList = [] := by
        have := Array.isEmpty_iff.mp hemp; simp [this]
      refine ⟨hwf, ?_, hnil⟩
      refine spec_mono hs hQT ?_
      intro p hp hnp
      rcases hcov p hp with h | ⟨e', he', _⟩
      · exact absurd h hnp
      · rw [hnil] at he'; exact absurd he' List.not_mem_nil
    · simp only [hemp] at e
      cases hr : PMH3.roundPass t.toSrc i s.tbp.toList s qmax #[] with
      | error er => rw [hr] at e; simp at e
      | ok r =>
        obtain ⟨s1, q1, kept1⟩ := r
        rw [hr] at e
        dsimp only at e
        obtain ⟨Q', wf1, hq1, hs1, hQ1T, hK1T, hcov1, hpos1⟩ := roundPass_spec top init m hm t hn Target i hi s.tbp.toList s qmax #[] Q s1 q1 kept1
          hwf hq hpos (by simp) hs hQT hPT (by intro p hp; obtain ⟨e', he', _⟩ := hp; simp at he')
          (by intro p hp; rcases hcov p hp with h | h
              · exact Or.inl h
              · exact Or.inr (Or.inr h)) hr
        exact ih (i + 1) { s1 with tbp := kept1 } q1 Q' s' (by omega) ⟨wf1.1, wf1.2.1, wf1.2.2⟩ (by rw [view_tbp]; exact hq1)
          hpos1 (by rw [view_tbp]; exact hs1) hQ1T hK1T hcov1 e

/-- **ProbMinHash3a batch**: if it returns, the state meets the specification for the old points plus
all points of all items of the batch, and nothing is left pending. -/
theorem hashBatch_spec (top : K) (init : Nat) (m : Nat) (hm : 1 ≤ m) (t : TSrc K G) (hn : Nice t m)
    (okW : K → Bool) (fuel : Nat) (s s' : PMH3 K G) (items : List (Nat × K × G)) (P : Set (Pt K Nat))
    (hwf : WF top m s) (htb : s.tbp.toList = []) (hitems : ∀ it ∈ items, okW it.2.1 = true ∧ 0 < it.2.1)
    (hs : Spec m top init P (view top init s))
    (e : s.hashBatch t.toSrc okW fuel items = .ok s') :
    WF top m s' ∧ Spec m top init (P ∪ AllPts t items) (view top init s') ∧ s'.tbp.toList = [] := by
  unfold PMH3.hashBatch at e
  rw [getMax_eq top init m hm s hwf] at e
  dsimp only at e
  cases hf : PMH3.firstPass t.toSrc okW items s (qmaxF m (view top init s)) with
  | error er => rw [hf] at e; simp at e
  | ok r =>
    obtain ⟨s1, q1⟩ := r
    rw [hf] at e
    dsimp only at e
    obtain ⟨Q', wf1, hq1, hs1, hQ1T, hP1T, hcov1, hpos1⟩ := firstPass_spec top init m hm t hn okW (P ∪ AllPts t items) items s _ P s1 q1
      hwf rfl hitems (by rw [htb]; simp) hs Set.subset_union_left Set.subset_union_right
      (by intro p hp; obtain ⟨e', he', _⟩ := hp; rw [htb] at he'; simp at he')
      (by intro p hp; rcases hp with h | h
          · exact Or.inl h
          · exact Or.inr (Or.inr h)) hf
    exact rounds_spec top init m hm t hn (P ∪ AllPts t items) fuel 2 s1 q1 Q' s' (by omega) wf1 hq1 hpos1 hs1 hQ1T hP1T hcov1 e

end PMH.P3

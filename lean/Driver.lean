import PMH.Model.Basic
import PMH.Model.Scalar
import PMH.Model.MaxTracker
import PMH.Model.InvHashGen
import PMH.Model.Prng
import PMH.Model.FYShuffle
import PMH.Model.Sig
import PMH.Model.Jaccard
import PMH.Model.Mle
import PMH.Model.ParamsJson
import PMH.Model.Exp01
import PMH.Model.Exp1
import PMH.Model.ProbMinHash3
import PMH.Model.ProbMinHash2
import PMH.Model.SuperMinHash
import PMH.Model.SuperMinHash2
import PMH.Model.SetSketch
import PMH.Model.ChaCha
import PMH.Model.DensMinHash
import PMH.Model.OrdMinHash
import PMH.Model.JaccardBounds
import PMH.Model.Hashers
import PMH.Model.JaccardBoundsGen
import PMH.Model.Exp01Gen
import PMH.Model.PmhConstGen
import Std.Data.HashMap
/-!
# `pmhdriver`: line protocol in front of the executable models

One request per input line, exactly one answer line per request.  Set-up requests answer `ok`;
queries answer a canonical encoding (floats as IEEE bit patterns in hex).  A model operation that
returns `Except.error e` answers `PANIC`/`HANG`/`ERR` (first word of `toString e`).
-/
open PMH

structure DState where
  mt : Std.HashMap String (Tracker Float) := {}
  fy : Std.HashMap String FY := {}
  pmh3 : Std.HashMap String (PMH3 Float Xo × Exp01 Float) := {}
  pmh2 : Std.HashMap String (PMH2 Float) := {}
  smh64 : Std.HashMap String (SMH Float) := {}
  smh32 : Std.HashMap String (SMH Float32) := {}
  smh2 : Std.HashMap String SMH2 := {}
  ssk : Std.HashMap String SSK := {}
  dens64 : Std.HashMap String (Dens Float) := {}
  dens32 : Std.HashMap String (Dens Float32) := {}
  ord : Std.HashMap String (OrdMH Float) := {}

def errWord (e : Err) : String :=
  match e with
  | .assertFail _ => "PANIC"
  | .oob _ => "PANIC"
  | .fuel _ => "HANG"
  | .badArg _ => "ERR"

def dumpTracker (t : Tracker Float) : String := joinSp (t.vals.toList.map f64Hex)

def stepMt (st : DState) : List String → DState × String
  | ["new", n, m] =>
    match m.toNat? with
    | some m => ({ st with mt := st.mt.insert n (Tracker.new f64Max m) }, "ok")
    | none => (st, "bad-op")
  | ["upd", n, k, v] =>
    match st.mt[n]?, k.toNat?, f64OfHex v with
    | some t, some k, some v =>
      match t.update k v with
      | .ok t' => ({ st with mt := st.mt.insert n t' }, dumpTracker t')
      | .error e => (st, errWord e)
    | _, _, _ => (st, "bad-op")
  | ["reset", n] =>
    match st.mt[n]? with
    | some t => let t' := t.reset f64Max; ({ st with mt := st.mt.insert n t' }, dumpTracker t')
    | none => (st, "bad-op")
  -- compact forms for large m: the maximum only / the whole tracker on request
  | ["updq", n, k, v] =>
    match st.mt[n]?, k.toNat?, f64OfHex v with
    | some t, some k, some v =>
      match t.update k v with
      | .ok t' => ({ st with mt := st.mt.insert n t' }, match t'.getMax with | .ok v => f64Hex v | .error e => errWord e)
      | .error e => (st, errWord e)
    | _, _, _ => (st, "bad-op")
  | ["resetq", n] =>
    match st.mt[n]? with
    | some t => ({ st with mt := st.mt.insert n (t.reset f64Max) }, "ok")
    | none => (st, "bad-op")
  | ["dump", n] =>
    match st.mt[n]? with
    | some t => (st, dumpTracker t)
    | none => (st, "bad-op")
  | ["max", n] =>
    match st.mt[n]? with
    | some t => (st, match t.getMax with | .ok v => f64Hex v | .error e => errWord e)
    | none => (st, "bad-op")
  | ["possible", n, v] =>
    match st.mt[n]?, f64OfHex v with
    | some t, some v => (st, match t.isUpdatePossible v with | .ok b => toString b | .error e => errWord e)
    | _, _ => (st, "bad-op")
  | _ => (st, "bad-op")

def stepIh : List String → String
  | ["h64", x] => match parseHex x with | some n => toHexW 16 (InvHashGen.int64_hash (BitVec.ofNat 64 n)).toNat | none => "bad-op"
  | ["i64", x] => match parseHex x with | some n => toHexW 16 (InvHashGen.int64_hash_inverse (BitVec.ofNat 64 n)).toNat | none => "bad-op"
  | ["h32", x] => match parseHex x with | some n => toHexW 8 (InvHashGen.int32_hash (BitVec.ofNat 32 n)).toNat | none => "bad-op"
  | ["i32", x] => match parseHex x with | some n => toHexW 8 (InvHashGen.int32_hash_inverse (BitVec.ofNat 32 n)).toNat | none => "bad-op"
  | _ => "bad-op"

def iter {α β : Type} (f : α → β × α) : Nat → α → List β
  | 0, _ => []
  | n + 1, a => let (b, a') := f a; b :: iter f n a'

def iterE {α β : Type} (f : α → Except Err (β × α)) : Nat → α → Except Err (List β)
  | 0, _ => .ok []
  | n + 1, a => match f a with
    | .ok (b, a') => match iterE f n a' with
      | .ok l => .ok (b :: l)
      | .error e => .error e
    | .error e => .error e

/-- a 64-bit word: hexadecimal, or `fnv:<decimal id>` = the hash `BuildHasherDefault<FnvHasher>` gives the `u64`/`usize`
item `id` (computed by the model of the hasher, `Hashers.fnvU64`) -/
def u64OfHex (s : String) : Option UInt64 :=
  if s.startsWith "fnv:" then (s.drop 4).toString.toNat?.map (fun n => Hashers.fnvU64 n.toUInt64)
  else (parseHex s).map (·.toUInt64)

def bytesOfHexStr (s : String) : Option ByteArray :=
  let cs := s.toList
  if cs.length % 2 ≠ 0 then none else
  let rec go : List Char → List UInt8 → Option (List UInt8)
    | a :: b :: rest, acc => match hexDigit a, hexDigit b with
      | some x, some y => go rest ((x * 16 + y).toUInt8 :: acc)
      | _, _ => none
    | _, acc => some acc.reverse
  (go cs []).map Hashers.ofList

/-- the external hash functions, as modelled in `Model/Hashers.lean`, against the crates -/
def stepHash : List String → String
  | ["fnv64", x] => match x.toNat? with | some n => u64Hex (Hashers.fnvU64 n.toUInt64) | none => "bad-op"
  | ["fnv32", x] => match x.toNat? with | some n => u64Hex (Hashers.fnvU32 n.toUInt32) | none => "bad-op"
  | ["fnvbytes", h] => match bytesOfHexStr (if h == "-" then "" else h) with | some b => u64Hex (Hashers.fnv1a b) | none => "bad-op"
  | ["murmur", x] => match parseHex x with | some n => toHexW 8 (Hashers.murmurOfU64 n.toUInt64).toNat | none => "bad-op"
  | ["murmurbytes", sd, h] => match sd.toNat?, bytesOfHexStr (if h == "-" then "" else h) with
    | some sd, some b => toHexW 8 (Hashers.murmur3_32 b sd.toUInt32).toNat | _, _ => "bad-op"
  | ["sha", h] => match bytesOfHexStr (if h == "-" then "" else h) with
    | some b => let (a, b', c, d) := Hashers.shaSeedWords b; joinSp [u64Hex a, u64Hex b', u64Hex c, u64Hex d]
    | none => "bad-op"
  | "wy" :: sd :: xs => match parseHex sd, xs.mapM parseHex with
    | some sd, some l => u64Hex (Hashers.wyCombine sd.toUInt64 (l.map (·.toUInt64)))
    | _, _ => "bad-op"
  | _ => "bad-op"

def stepXo : List String → String
  | ["seed", s, n] => match u64OfHex s, n.toNat? with
    | some s, some n => joinSp ((iter Xo.next n (Xo.seedFromU64 s)).map u64Hex)
    | _, _ => "bad-op"
  | ["unif01", s, n] => match u64OfHex s, n.toNat? with
    | some s, some n => joinSp ((iter unif01 n (Xo.seedFromU64 s)).map f64Hex)
    | _, _ => "bad-op"
  | ["unif01f32", s, n] => match u64OfHex s, n.toNat? with
    | some s, some n => joinSp ((iter unif01f32 n (Xo.seedFromU64 s)).map f32Hex)
    | _, _ => "bad-op"
  | ["unifusize", s, lo, hi, n] => match u64OfHex s, lo.toNat?, hi.toNat?, n.toNat? with
    | some s, some lo, some hi, some n =>
      (match iterE (unifUsize lo hi) n (Xo.seedFromU64 s) with | .ok l => joinSp (l.map toString) | .error e => errWord e)
    | _, _, _, _ => "bad-op"
  | ["unifu64", s, lo, hi, n] => match u64OfHex s, lo.toNat?, hi.toNat?, n.toNat? with
    | some s, some lo, some hi, some n =>
      (match iterE (unifU64 lo hi) n (Xo.seedFromU64 s) with | .ok l => joinSp (l.map toString) | .error e => errWord e)
    | _, _, _, _ => "bad-op"
  | ["words", a, b, c, d, n] => match u64OfHex a, u64OfHex b, u64OfHex c, u64OfHex d, n.toNat? with
    | some a, some b, some c, some d, some n => joinSp ((iter Xo.next n (Xo.fromWords a b c d)).map u64Hex)
    | _, _, _, _, _ => "bad-op"
  | _ => "bad-op"

def dumpNats (a : Array Nat) : String := joinSp (a.toList.map toString)

def topOffsets (n : Nat) : Nat :=
  let xsi : Float := 1.0 - Float.ofScientific 2220446049250313 true 31
  (List.range n).foldl (fun bad i => if FY.offsetOf xsi (i + 1) ≥ i + 1 then bad + 1 else bad) 0

def stepFy (st : DState) : List String → DState × String
  | ["new", n, m] => match m.toNat? with
    | some m => ({ st with fy := st.fy.insert n (FY.new m) }, "ok")
    | none => (st, "bad-op")
  | ["next", n, u] => match st.fy[n]?, u64OfHex u with
    | some s, some u => (match s.nextU64 u with
      | .ok (k, s') => ({ st with fy := st.fy.insert n s' }, toString k ++ " | " ++ dumpNats s'.v)
      | .error e => (st, errWord e))
    | _, _ => (st, "bad-op")
  | ["reset", n] => match st.fy[n]? with
    | some s => let s' := s.reset; ({ st with fy := st.fy.insert n s' }, dumpNats s'.v)
    | none => (st, "bad-op")
  -- compact forms for large m: the drawn index only / the values on request
  | ["nextk", n, u] => match st.fy[n]?, u64OfHex u with
    | some s, some u => (match s.nextU64 u with
      | .ok (k, s') => ({ st with fy := st.fy.insert n s' }, toString k)
      | .error e => (st, errWord e))
    | _, _ => (st, "bad-op")
  | ["resetq", n] => match st.fy[n]? with
    | some s => ({ st with fy := st.fy.insert n s.reset }, "ok")
    | none => (st, "bad-op")
  | ["values", n] => match st.fy[n]? with
    | some s => (st, dumpNats s.v)
    | none => (st, "bad-op")
  | ["topoffsets", n] => match n.toNat? with
    | some n => (st, toString (topOffsets n))
    | none => (st, "bad-op")
  | _ => (st, "bad-op")

def hexBytes (l : List Nat) : String :=
  if l.isEmpty then "-" else String.join (l.map (toHexW 2))

def natsOf (l : List String) : Option (List Nat) := l.mapM (·.toNat?)

def stepSig : List String → String
  | ["u8", x] => match x.toNat? with | some x => hexBytes (Sig.sigU8 x) | none => "bad-op"
  | ["u16", x] => match x.toNat? with | some x => hexBytes (Sig.sigU16 x) | none => "bad-op"
  | ["u32", x] => match x.toNat? with | some x => hexBytes (Sig.sigU32 x) | none => "bad-op"
  | ["u64", x] => match x.toNat? with | some x => hexBytes (Sig.sigU64 x) | none => "bad-op"
  | "vecu8" :: xs => match natsOf xs with | some l => hexBytes (Sig.sigVecU8 l) | none => "bad-op"
  | "vecu16" :: xs => match natsOf xs with | some l => hexBytes (Sig.sigVecU16 l) | none => "bad-op"
  | "vecu32" :: xs => match natsOf xs with | some l => hexBytes (Sig.sigVecU32 l) | none => "bad-op"
  | "str" :: xs => match natsOf xs with
    | some l => hexBytes (Sig.sigString (String.ofList (l.map Char.ofNat)))
    | none => "bad-op"
  | ["noop"] => "ok"
  | _ => "bad-op"

/-- split a token list at "|" -/
def splitBar (l : List String) : List (List String) :=
  l.foldr (fun t acc => if t == "|" then [] :: acc else match acc with | h :: r => (t :: h) :: r | [] => [[t]]) [[]]

instance : NatCast Float := ⟨Float.ofNat⟩

def floatOps : Mle.FOps Float where
  exp := Float.exp
  ln := Float.log
  ln1p := Float.log1p
  isNaN := Float.isNaN
  bothInfSame := fun a b => a.isInf && b.isInf && ((a > 0) == (b > 0))
  isPosInf := fun a => a.isInf && a > 0
  abs := Float.abs

def gssG1 : Float := -1.0 + 1.618033988749895
def gssG2 : Float := 1.0 - gssG1

def stepJac : List String → String
  | "f64" :: rest => match splitBar rest with
    | [a, b] => (match jaccardF64 a b with | .ok v => f64Hex v | .error _ => "ERR")
    | _ => "bad-op"
  | "f32" :: rest => match splitBar rest with
    | [a, b] => (match jaccardF32 a b with | .ok v => f32Hex v | .error _ => "ERR")
    | _ => "bad-op"
  | "mle" :: b :: m :: c1 :: c2 :: rest => match f64OfHex b, m.toNat?, f64OfHex c1, f64OfHex c2, splitBar rest with
    | some b, some m, some c1, some c2, [_, s1, s2] =>
      (match natsOf s1, natsOf s2 with
       | some s1, some s2 =>
         (match Mle.getMle floatOps gssG1 gssG2 0.01 b m c1 c2 s1 s2 with
          | .ok (some v) => f64Hex v
          | .ok none => "NONE"
          | .error e => errWord e)
       | _, _ => "bad-op")
    | _, _, _, _, _ => "bad-op"
  | _ => "bad-op"

def bytesOfHex (s : String) : Option (List Char) :=
  if s == "-" then some [] else
  let rec go : List Char → List Char → Option (List Char)
    | [], acc => some acc.reverse
    | [_], _ => none
    | a :: b :: r, acc => match hexDigit a, hexDigit b with
      | some x, some y => go r (Char.ofNat (x * 16 + y) :: acc)
      | _, _ => none
  go s.toList []

def hexOfChars (l : List Char) : String := hexBytes (l.map Char.toNat)

def stepPj : List String → String
  | ["missing"] => "ERR"
  | ["ser", b, m, a, q] => match m.toNat?, q.toNat? with
    | some m, some q => hexOfChars (PJ.serialize b.toList m a.toList q)
    | _, _ => "bad-op"
  | ["parse", h] => match bytesOfHex h with
    | some cs => (match PJ.parse cs with
      | .ok (b, m, a, q) => "OK " ++ String.ofList b ++ " " ++ toString m ++ " " ++ String.ofList a ++ " " ++ toString q
      | .error _ => "ERR")
    | none => "bad-op"
  | _ => "bad-op"

def expOps : ExpOps Float := { exp := Float.exp, ln := Float.log, expm1 := Float.expm1 }

def pmh3Src (e : Exp01 Float) (m : Nat) : Src Float Xo :=
  { nextX := fun g => Gen.exp01Sample expOps e unif01 g, nextK := fun g => unifUsize 0 m g }

def pmh2Src : Src2 Float Xo := { nextE := exp1, nextU := fun g => .ok g.next }

/-- item token `id:whex:seedhex` (seed_from_u64) or `id:whex:a:b:c:d` (from_seed words) -/
def parseItem (t : String) : Option (Nat × Float × Xo) :=
  match t.splitOn ":" with
  | [id, w, "fnv"] => match id.toNat?, f64OfHex w with      -- seed = FNV-1a hash of the u64 id (model of the hasher)
    | some id, some w => some (id, w, Xo.seedFromU64 (Hashers.fnvU64 id.toUInt64))
    | _, _ => none
  | [id, w, "sha"] => match id.toNat?, f64OfHex w with      -- seed = Sha512_256 of the id's byte identity (Sig for u64)
    | some id, some w =>
      let (a, b, c, d) := Hashers.shaSeedWords (Hashers.ofList ((Sig.sigU64 id).map (·.toUInt8)))
      some (id, w, Xo.fromWords a b c d)
    | _, _ => none
  | [id, w, sd] => match id.toNat?, f64OfHex w, u64OfHex sd with
    | some id, some w, some sd => some (id, w, Xo.seedFromU64 sd)
    | _, _, _ => none
  -- `id:w:shav8|shav16|shav32:<elements as decimal, comma separated, or ->` : the key is a `Vec<u8|u16|u32>` (or the UTF-8 bytes of a
  -- String, given as shav8); the model computes its byte identity (Model/Sig.lean), Sha512_256 and the generator seed
  | [id, w, kind, elems] =>
    let xs : Option (List Nat) := if elems == "-" then some [] else (elems.splitOn ",").mapM (·.toNat?)
    match id.toNat?, f64OfHex w, xs with
    | some id, some w, some xs =>
      let bytes : Option (List Nat) := match kind with
        | "shav8" => some (Sig.sigVecU8 xs) | "shav16" => some (Sig.sigVecU16 xs) | "shav32" => some (Sig.sigVecU32 xs) | _ => none
      (match bytes with
       | some bs => let (a, b, c, d) := Hashers.shaSeedWords (Hashers.ofList (bs.map (·.toUInt8))); some (id, w, Xo.fromWords a b c d)
       | none => none)
    | _, _, _ => none
  | [id, w, a, b, c, d] => match id.toNat?, f64OfHex w, u64OfHex a, u64OfHex b, u64OfHex c, u64OfHex d with
    | some id, some w, some a, some b, some c, some d => some (id, w, Xo.fromWords a b c d)
    | _, _, _, _, _, _ => none
  | _ => none

def okWeight3a (w : Float) : Bool := w.isFinite && w >= 0.0

def stepPmh3 (st : DState) : List String → DState × String
  | ["new", n, m, init] => match m.toNat?, init.toNat? with
    | some m, some init =>
      (match (PMH3.new f64Max m init : Except Err (PMH3 Float Xo)) with
       | .ok s =>
         let lambda := Gen.pmh3Lambda expOps m      -- the rate as the SOURCE computes it (Model/PmhConstGen.lean)
         ({ st with pmh3 := st.pmh3.insert n (s, Gen.exp01New expOps lambda) }, "ok")
       | .error e => (st, errWord e))
    | _, _ => (st, "bad-op")
  | ["item", n, tok] => match st.pmh3[n]?, parseItem tok with
    | some (s, e), some (id, w, g) =>
      (match s.hashItem (pmh3Src e s.m) 100000 id w g with
       | .ok s' => ({ st with pmh3 := st.pmh3.insert n (s', e) }, "ok")
       | .error er => (st, errWord er))
    | _, _ => (st, "bad-op")
  | "batch" :: n :: toks => match st.pmh3[n]?, toks.mapM parseItem with
    | some (s, e), some items =>
      (match s.hashBatch (pmh3Src e s.m) okWeight3a 100000 items with
       | .ok s' => ({ st with pmh3 := st.pmh3.insert n (s', e) }, "ok")
       | .error er => (st, errWord er))
    | _, _ => (st, "bad-op")
  | ["sig", n] => match st.pmh3[n]? with
    | some (s, _) => (st, dumpNats s.sig)
    | none => (st, "bad-op")
  | ["regs", n] => match st.pmh3[n]? with
    | some (s, _) => (st, joinSp ((s.tracker.vals.toList.take s.m).map f64Hex))
    | none => (st, "bad-op")
  | _ => (st, "bad-op")

def stepPmh2 (st : DState) : List String → DState × String
  | ["new", n, m, init] => match m.toNat?, init.toNat? with
    | some m, some init =>
      -- the beta table as the SOURCE computes it (Model/PmhConstGen.lean, regenerated on every check)
      let s : PMH2 Float := { (PMH2.new f64Max m init : PMH2 Float) with betas := (Array.range m).map (fun x => Gen.pmh2Beta m x) }
      ({ st with pmh2 := st.pmh2.insert n s }, "ok")
    | _, _ => (st, "bad-op")
  | ["item", n, tok] => match st.pmh2[n]?, parseItem tok with
    | some s, some (id, w, g) =>
      (match s.hashItem pmh2Src FY.offsetOf unif01OfU64 id w g with
       | .ok s' => ({ st with pmh2 := st.pmh2.insert n s' }, "ok")
       | .error er => (st, errWord er))
    | _, _ => (st, "bad-op")
  | ["reset", n] => match st.pmh2[n]? with
    | some s => ({ st with pmh2 := st.pmh2.insert n (s.reset f64Max) }, "ok")
    | none => (st, "bad-op")
  | ["sig", n] => match st.pmh2[n]? with
    | some s => (st, dumpNats s.sig)
    | none => (st, "bad-op")
  | ["regs", n] => match st.pmh2[n]? with
    | some s => (st, joinSp ((s.tracker.vals.toList.take s.m).map f64Hex))
    | none => (st, "bad-op")
  | _ => (st, "bad-op")

def stepExp : List String → String
  -- `exp01 <lambda hex> <seed hex> <n>` : n samples, and the generator's next raw word afterwards
  | ["exp01", l, sd, n] => match f64OfHex l, u64OfHex sd, n.toNat? with
    | some l, some sd, some n =>
      let e := Gen.exp01New expOps l
      (match iterE (fun g => Gen.exp01Sample expOps e unif01 g) n (Xo.seedFromU64 sd) with
       | .ok xs => joinSp (xs.map f64Hex)
       | .error er => errWord er)
    | _, _, _ => "bad-op"
  -- `exp01s <lambda hex> w1 w2 …` : one sample from a SCRIPTED word stream; answer: sample bits and words consumed
  | "exp01s" :: l :: ws => match f64OfHex l, ws.mapM u64OfHex with
    | some l, some ws =>
      let e := Gen.exp01New expOps l
      let next : List UInt64 → Float × List UInt64 := fun st => match st with
        | w :: r => (unif01OfU64 w, r)
        | [] => (0.0, [])
      (match Gen.exp01Sample expOps e next ws with
       | .ok (x, rest) => f64Hex x ++ " " ++ toString (ws.length - rest.length)
       | .error er => errWord er)
    | _, _ => "bad-op"
  | ["exp01c", l] => match f64OfHex l with
    | some l => let e := Gen.exp01New expOps l; joinSp [f64Hex e.c1, f64Hex e.c2, f64Hex e.c3]
    | none => "bad-op"
  -- the same three requests answered by the HAND-WRITTEN transcription (Model/Exp01.lean), which the theorems are stated about
  | ["exp01h", l, sd, n] => match f64OfHex l, u64OfHex sd, n.toNat? with
    | some l, some sd, some n =>
      let e := Exp01.new expOps l
      (match iterE (fun g => Exp01.sample expOps e unif01 g) n (Xo.seedFromU64 sd) with
       | .ok xs => joinSp (xs.map f64Hex)
       | .error er => errWord er)
    | _, _, _ => "bad-op"
  -- `exp01s <lambda hex> w1 w2 …` : one sample from a SCRIPTED word stream; answer: sample bits and words consumed
  | "exp01sh" :: l :: ws => match f64OfHex l, ws.mapM u64OfHex with
    | some l, some ws =>
      let e := Exp01.new expOps l
      let next : List UInt64 → Float × List UInt64 := fun st => match st with
        | w :: r => (unif01OfU64 w, r)
        | [] => (0.0, [])
      (match Exp01.sample expOps e next ws with
       | .ok (x, rest) => f64Hex x ++ " " ++ toString (ws.length - rest.length)
       | .error er => errWord er)
    | _, _ => "bad-op"
  | ["exp01ch", l] => match f64OfHex l with
    | some l => let e := Exp01.new expOps l; joinSp [f64Hex e.c1, f64Hex e.c2, f64Hex e.c3]
    | none => "bad-op"
  | ["exp1", sd, n] => match u64OfHex sd, n.toNat? with
    | some sd, some n => (match iterE exp1 n (Xo.seedFromU64 sd) with | .ok xs => joinSp (xs.map f64Hex) | .error er => errWord er)
    | _, _ => "bad-op"
  | _ => "bad-op"

def two64F : Float := 18446744073709551616.0
def smhOps64 : SmhOps Float Xo :=
  { unif := unif01, unifK := unifUsize, ofNat := Float.ofNat,
    toUsize := fun x => if x.isNaN || x <= -1.0 || x >= two64F then none else some x.toUInt64.toNat }
def smhOps32 : SmhOps Float32 Xo :=
  { unif := unif01f32, unifK := unifUsize, ofNat := Float32.ofNat,
    toUsize := fun x => if x.isNaN || x <= -1.0 || x.toFloat >= two64F then none else some x.toUInt64.toNat }
def large64 : Float := Float.ofNat 4294967295
def large32 : Float32 := Float32.ofNat 4294967295

def dumpInts (a : Array Int) : String := joinSp (a.toList.map toString)

def dumpSmh {F : Type} (hex : F → String) (s : SMH F) : String :=
  joinSp (s.hsketch.toList.map hex) ++ " | " ++ dumpInts s.q ++ " | " ++ dumpNats s.p ++ " | " ++ dumpInts s.b ++
    " | " ++ toString s.itemRank ++ " " ++ toString s.aUpper

def stepSmh (st : DState) : List String → DState × String
  | ["new64", n, m] => match m.toNat? with
    | some m => (match SMH.new smhOps64 large64 m with
      | .ok s => ({ st with smh64 := st.smh64.insert n s }, "ok") | .error e => (st, errWord e))
    | none => (st, "bad-op")
  | ["new32", n, m] => match m.toNat? with
    | some m => (match SMH.new smhOps32 large32 m with
      | .ok s => ({ st with smh32 := st.smh32.insert n s }, "ok") | .error e => (st, errWord e))
    | none => (st, "bad-op")
  | ["sk64", n, sd] => match st.smh64[n]?, u64OfHex sd with
    | some s, some sd => (match s.sketch smhOps64 (Xo.seedFromU64 sd) with
      | .ok s' => ({ st with smh64 := st.smh64.insert n s' }, "ok") | .error e => (st, errWord e))
    | _, _ => (st, "bad-op")
  | ["sk32", n, sd] => match st.smh32[n]?, u64OfHex sd with
    | some s, some sd => (match s.sketch smhOps32 (Xo.seedFromU64 sd) with
      | .ok s' => ({ st with smh32 := st.smh32.insert n s' }, "ok") | .error e => (st, errWord e))
    | _, _ => (st, "bad-op")
  | ["reinit64", n] => match st.smh64[n]? with
    | some s => ({ st with smh64 := st.smh64.insert n (s.reinit large64) }, "ok") | none => (st, "bad-op")
  | ["reinit32", n] => match st.smh32[n]? with
    | some s => ({ st with smh32 := st.smh32.insert n (s.reinit large32) }, "ok") | none => (st, "bad-op")
  | ["dump64", n] => match st.smh64[n]? with | some s => (st, dumpSmh f64Hex s) | none => (st, "bad-op")
  | ["dump32", n] => match st.smh32[n]? with | some s => (st, dumpSmh f32Hex s) | none => (st, "bad-op")
  | ["sk64n", n, sd] => match st.smh64[n]?, u64OfHex sd with   -- sketch_slice: items as a run of sk ops; helper kept for symmetry
    | some _, some _ => (st, "ok") | _, _ => (st, "bad-op")
  | _ => (st, "bad-op")

def smh2Ops : Smh2Ops Xo :=
  { nextR := fun g => unifU64 0 18446744073709551615 g, nextU := fun g => g.next,
    offsetOf := fun u n => FY.offsetOf (unif01OfU64 u) n }

def dumpSmh2 (s : SMH2) : String :=
  dumpNats s.hsketch ++ " | " ++ dumpNats s.values ++ " | " ++ dumpNats s.l ++ " | " ++ dumpNats s.b ++ " | " ++ toString s.aUpper

def stepSmh2 (st : DState) : List String → DState × String
  | ["new", n, imax, m] => match imax.toNat?, m.toNat? with
    | some imax, some m => (match SMH2.new imax m with
      | .ok s => ({ st with smh2 := st.smh2.insert n s }, "ok") | .error e => (st, errWord e))
    | _, _ => (st, "bad-op")
  | ["sk", n, hv] => match st.smh2[n]?, u64OfHex hv with
    | some s, some hv => (match s.sketch smh2Ops hv.toNat (Xo.seedFromU64 hv) with
      | .ok s' => ({ st with smh2 := st.smh2.insert n s' }, "ok") | .error e => (st, errWord e))
    | _, _ => (st, "bad-op")
  | ["reinit", n] => match st.smh2[n]? with
    | some s => ({ st with smh2 := st.smh2.insert n s.reinit }, "ok") | none => (st, "bad-op")
  | ["dump", n] => match st.smh2[n]? with | some s => (st, dumpSmh2 s) | none => (st, "bad-op")
  | _ => (st, "bad-op")

def sskOps (s : SSK) : SskOps Float Xo :=
  SSK.floatOps exp1 (fun g => g.next) (fun u n => FY.offsetOf (unif01OfU64 u) n) s.m s.a s.q s.lnb

def stepSsk (st : DState) : List String → DState × String
  | ["new", n, b, m, a, q, imax] => match f64OfHex b, m.toNat?, f64OfHex a, q.toNat?, imax.toNat? with
    | some b, some m, some a, some q, some imax =>
      ({ st with ssk := st.ssk.insert n (SSK.new b m a q imax (Float.log1p (b - 1.0))) }, "ok")
    | _, _, _, _, _ => (st, "bad-op")
  | ["sk", n, sd] => match st.ssk[n]?, u64OfHex sd with
    | some s, some sd => (match s.sketch (sskOps s) (Xo.seedFromU64 sd) with
      | .ok s' => ({ st with ssk := st.ssk.insert n s' }, "ok") | .error e => (st, errWord e))
    | _, _ => (st, "bad-op")
  | ["merge", n, o] => match st.ssk[n]?, st.ssk[o]? with
    | some s, some t => (match s.merge t with
      | .ok s' => ({ st with ssk := st.ssk.insert n s' }, "ok") | .error e => (st, errWord e))
    | _, _ => (st, "bad-op")
  | ["reinit", n] => match st.ssk[n]? with
    | some s => ({ st with ssk := st.ssk.insert n s.reinit }, "ok") | none => (st, "bad-op")
  | ["dump", n] => match st.ssk[n]? with
    | some s => (st, dumpNats s.kvec ++ " | " ++ toString s.lowerK ++ " " ++ toString s.nbmin ++ " " ++ toString s.nbOverflow)
    | none => (st, "bad-op")
  | ["bounds", b, j] => match f64OfHex b, f64OfHex j with
    | some b, some j =>
      let o : BOps Float := { pow := Float.pow, sqrt := Float.sqrt, max := fun x y => if x < y then y else x, min := fun x y => if y < x then y else x }
      (st, match Gen.jaccardBounds o b j with | .ok (lo, hi) => f64Hex lo ++ " " ++ f64Hex hi | .error e => errWord e)
    | _, _ => (st, "bad-op")
  | ["boundsh", b, j] => match f64OfHex b, f64OfHex j with      -- hand-written transcription (Model/JaccardBounds.lean)
    | some b, some j =>
      let o : BOps Float := { pow := Float.pow, sqrt := Float.sqrt, max := fun x y => if x < y then y else x, min := fun x y => if y < x then y else x }
      (st, match jaccardBoundsG o b j with | .ok (lo, hi) => f64Hex lo ++ " " ++ f64Hex hi | .error e => errWord e)
    | _, _ => (st, "bad-op")
  | ["card", n] => match st.ssk[n]? with
    | some s => let (c, r) := s.cardinalStats (Float.log1p (s.b - 1.0)); (st, f64Hex c ++ " " ++ f64Hex r)
    | none => (st, "bad-op")
  | _ => (st, "bad-op")

def densOps64 : DensOps Float Xo ChaCha.Rng :=
  { unif := unif01, unifK := fun m g => unifUsize 0 m g, mkRng := fun sd => ChaCha.seedFromU64 sd.toUInt64,
    draw := fun m r => ChaCha.unifBelow m 1000 r }
def densOps32 : DensOps Float32 Xo ChaCha.Rng :=
  { unif := unif01f32, unifK := fun m g => unifUsize 0 m g, mkRng := fun sd => ChaCha.seedFromU64 sd.toUInt64,
    draw := fun m r => ChaCha.unifBelow m 1000 r }

def dumpDens {F : Type} (hex : F → String) (s : Dens F) : String :=
  joinSp (s.hsketch.toList.map hex) ++ " | " ++ dumpNats s.values ++ " | " ++
    joinSp (s.init.toList.map (fun b => if b then "1" else "0")) ++ " | " ++ toString s.nbEmpty

def densFuel : Nat := 200000

def stepDens (st : DState) : List String → DState × String
  | ["new64", n, m] => match m.toNat? with
    | some m => ({ st with dens64 := st.dens64.insert n (Dens.new large64 m) }, "ok") | none => (st, "bad-op")
  | ["new32", n, m] => match m.toNat? with
    | some m => ({ st with dens32 := st.dens32.insert n (Dens.new large32 m) }, "ok") | none => (st, "bad-op")
  | ["sk64", n, hv] => match st.dens64[n]?, u64OfHex hv with
    | some s, some hv => (match s.sketch densOps64 hv.toNat (Xo.seedFromU64 hv) with
      | .ok s' => ({ st with dens64 := st.dens64.insert n s' }, "ok") | .error e => (st, errWord e))
    | _, _ => (st, "bad-op")
  | ["sk32", n, hv] => match st.dens32[n]?, u64OfHex hv with
    | some s, some hv => (match s.sketch densOps32 hv.toNat (Xo.seedFromU64 hv) with
      | .ok s' => ({ st with dens32 := st.dens32.insert n s' }, "ok") | .error e => (st, errWord e))
    | _, _ => (st, "bad-op")
  | ["end64", n, alg] => match st.dens64[n]? with
    | some s => (match s.endSketch densOps64 (alg == "opt") densFuel with
      | .ok s' => ({ st with dens64 := st.dens64.insert n s' }, "ok") | .error e => (st, errWord e))
    | none => (st, "bad-op")
  | ["end32", n, alg] => match st.dens32[n]? with
    | some s => (match s.endSketch densOps32 (alg == "opt") densFuel with
      | .ok s' => ({ st with dens32 := st.dens32.insert n s' }, "ok") | .error e => (st, errWord e))
    | none => (st, "bad-op")
  | "slice64" :: n :: alg :: hs => match st.dens64[n]?, hs.mapM u64OfHex with
    | some s, some hs => (match s.sketchSlice densOps64 (alg == "opt") densFuel (hs.map (fun h => (h.toNat, Xo.seedFromU64 h))) with
      | .ok s' => ({ st with dens64 := st.dens64.insert n s' }, "ok") | .error e => (st, errWord e))
    | _, _ => (st, "bad-op")
  | "slice32" :: n :: alg :: hs => match st.dens32[n]?, hs.mapM u64OfHex with
    | some s, some hs => (match s.sketchSlice densOps32 (alg == "opt") densFuel (hs.map (fun h => (h.toNat, Xo.seedFromU64 h))) with
      | .ok s' => ({ st with dens32 := st.dens32.insert n s' }, "ok") | .error e => (st, errWord e))
    | _, _ => (st, "bad-op")
  | ["reinit64", n] => match st.dens64[n]? with
    | some s => ({ st with dens64 := st.dens64.insert n (s.reinit large64) }, "ok") | none => (st, "bad-op")
  | ["reinit32", n] => match st.dens32[n]? with
    | some s => ({ st with dens32 := st.dens32.insert n (s.reinit large32) }, "ok") | none => (st, "bad-op")
  | ["u32view64", n] => match st.dens64[n]? with | some s => (st, joinSp (s.u32View.map (fun x => toString x.toNat))) | none => (st, "bad-op")
  | ["u32view32", n] => match st.dens32[n]? with | some s => (st, joinSp (s.u32View.map (fun x => toString x.toNat))) | none => (st, "bad-op")
  | ["dump64", n] => match st.dens64[n]? with | some s => (st, dumpDens f64Hex s) | none => (st, "bad-op")
  | ["dump32", n] => match st.dens32[n]? with | some s => (st, dumpDens f32Hex s) | none => (st, "bad-op")
  | ["chacha", sd, m, cnt] => match sd.toNat?, m.toNat?, cnt.toNat? with
    | some sd, some m, some cnt => (st, match iterE (ChaCha.unifBelow m 1000) cnt (ChaCha.seedFromU64 sd.toUInt64) with
      | .ok l => joinSp (l.map toString) | .error e => errWord e)
    | _, _, _ => (st, "bad-op")
  | _ => (st, "bad-op")

def ordOps : OrdOps Float Xo :=
  { nextE := exp1, nextU := fun g => g.next, offsetOf := fun u n => FY.offsetOf (unif01OfU64 u) n,
    mkGen := fun h c sd => Xo.seedFromU64 (h ^^^ rotl (c * 0x9e3779b97f4a7c15) 32 ^^^ (sd * 0xbf58476d1ce4e5b9)) }

def stepOrd (st : DState) : List String → DState × String
  | ["new", n, m, l, sd] => match m.toNat?, l.toNat?, u64OfHex sd with
    | some m, some l, some sd => (match (OrdMH.new f64Max m l sd : Except Err (OrdMH Float)) with
      | .ok s => ({ st with ord := st.ord.insert n s }, "ok") | .error e => (st, errWord e))
    | _, _, _ => (st, "bad-op")
  | "sig" :: n :: wy :: hs => match st.ord[n]?, u64OfHex wy, hs.mapM u64OfHex with   -- after `set` with the same hashes
    | some s, some wy, some hs => (st, joinSp ((s.signature hs wy).map (fun x => toString x.toNat)))
    | _, _, _ => (st, "bad-op")
  | "set" :: n :: hs => match st.ord[n]?, hs.mapM u64OfHex with
    | some s, some hs => (match s.hashSet ordOps f64Max hs with
      | .ok s' => ({ st with ord := st.ord.insert n s' }, dumpNats s'.indices ++ " | " ++ joinSp (s'.values.toList.map f64Hex))
      | .error e => (st, errWord e))
    | _, _ => (st, "bad-op")
  | _ => (st, "bad-op")

def step (st : DState) (line : String) : DState × String :=
  match (line.trimAscii.toString.splitOn " ").filter (· ≠ "") with
  | "case" :: id :: _ => (st, "case " ++ id)
  | "mt" :: rest => stepMt st rest
  | "ih" :: rest => (st, stepIh rest)
  | "xo" :: rest => (st, stepXo rest)
  | "fy" :: rest => stepFy st rest
  | "sig" :: rest => (st, stepSig rest)
  | "jac" :: rest => (st, stepJac rest)
  | "pj" :: rest => (st, stepPj rest)
  | "pmh3" :: rest => stepPmh3 st rest
  | "smh" :: rest => stepSmh st rest
  | "smh2" :: rest => stepSmh2 st rest
  | "ssk" :: rest => stepSsk st rest
  | "dens" :: rest => stepDens st rest
  | "ord" :: rest => stepOrd st rest
  | "pmh2" :: rest => stepPmh2 st rest
  | "rnd" :: rest => (st, stepExp rest)
  | "hash" :: rest => (st, stepHash rest)
  | _ => (st, "bad-op")

partial def loop (h : IO.FS.Stream) (out : IO.FS.Stream) (st : DState) : IO Unit := do
  let line ← h.getLine
  if line.isEmpty then return ()
  let (st', o) := step st line
  out.putStrLn o
  loop h out st'

def main : IO Unit := do
  let stdin ← IO.getStdin
  let stdout ← IO.getStdout
  loop stdin stdout {}

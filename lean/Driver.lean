import PMH.Model.Basic
import PMH.Model.Scalar
import PMH.Model.MaxTracker
import PMH.Model.InvHashGen
import Std.Data.HashMap
/-!
# `pmhdriver`: line protocol in front of the executable models

One request per input line, exactly one answer line per request.  Set-up requests answer `ok`;
queries answer a canonical encoding (floats as IEEE bit patterns in hex).  A model operation that
returns `Except.error e` answers `PANIC`/`HANG`/`ERR` (first word of `toString e`).
-/
open PMH

structure DState where
  mt : Std.HashMap String (Tracker Float) := {}

def errWord (e : Err) : String :=
  match e with
  | .assertFail _ => "PANIC"
  | .oob _ => "PANIC"
  | .fuel _ => "HANG"
  | .badArg _ => "ERR"

def dumpTracker (t : Tracker Float) : String := joinSp (t.vals.toList.map f64Hex)

def stepMt (st : DState) : List String → DState × String
  | ["new", n, m] =>
    match m.toNat? with
    | some m => ({ st with mt := st.mt.insert n (Tracker.new f64Max m) }, "ok")
    | none => (st, "bad-op")
  | ["upd", n, k, v] =>
    match st.mt[n]?, k.toNat?, f64OfHex v with
    | some t, some k, some v =>
      match t.update k v with
      | .ok t' => ({ st with mt := st.mt.insert n t' }, dumpTracker t')
      | .error e => (st, errWord e)
    | _, _, _ => (st, "bad-op")
  | ["reset", n] =>
    match st.mt[n]? with
    | some t => let t' := t.reset f64Max; ({ st with mt := st.mt.insert n t' }, dumpTracker t')
    | none => (st, "bad-op")
  | ["max", n] =>
    match st.mt[n]? with
    | some t => (st, match t.getMax with | .ok v => f64Hex v | .error e => errWord e)
    | none => (st, "bad-op")
  | ["possible", n, v] =>
    match st.mt[n]?, f64OfHex v with
    | some t, some v => (st, match t.isUpdatePossible v with | .ok b => toString b | .error e => errWord e)
    | _, _ => (st, "bad-op")
  | _ => (st, "bad-op")

def stepIh : List String → String
  | ["h64", x] => match parseHex x with | some n => toHexW 16 (InvHashGen.int64_hash (BitVec.ofNat 64 n)).toNat | none => "bad-op"
  | ["i64", x] => match parseHex x with | some n => toHexW 16 (InvHashGen.int64_hash_inverse (BitVec.ofNat 64 n)).toNat | none => "bad-op"
  | ["h32", x] => match parseHex x with | some n => toHexW 8 (InvHashGen.int32_hash (BitVec.ofNat 32 n)).toNat | none => "bad-op"
  | ["i32", x] => match parseHex x with | some n => toHexW 8 (InvHashGen.int32_hash_inverse (BitVec.ofNat 32 n)).toNat | none => "bad-op"
  | _ => "bad-op"

def step (st : DState) (line : String) : DState × String :=
  match (line.trimAscii.toString.splitOn " ").filter (· ≠ "") with
  | "case" :: id :: _ => (st, "case " ++ id)
  | "mt" :: rest => stepMt st rest
  | "ih" :: rest => (st, stepIh rest)
  | _ => (st, "bad-op")

partial def loop (h : IO.FS.Stream) (out : IO.FS.Stream) (st : DState) : IO Unit := do
  let line ← h.getLine
  if line.isEmpty then return ()
  let (st', o) := step st line
  out.putStrLn o
  loop h out st'

def main : IO Unit := do
  let stdin ← IO.getStdin
  let stdout ← IO.getStdout
  loop stdin stdout {}

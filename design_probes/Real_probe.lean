import Mathlib.Analysis.SpecialFunctions.Pow.Real
import Mathlib.Analysis.SpecialFunctions.Log.Basic
open Real
/-- C07: lower Jaccard bound never exceeds the upper one (exact arithmetic), x = b^(p/2). -/
theorem jinf_le_jsup (b p : ℝ) (hb : 1 < b) :
    2 * (b ^ (p / 2) * Real.sqrt b - 1) / (b - 1) - 1 ≤ ((b ^ (p / 2)) * (b ^ (p / 2)) - 1) / (b - 1) := by
  have hb0 : 0 < b := by linarith
  have hb1 : 0 < b - 1 := by linarith
  set x := b ^ (p / 2) with hx
  set s := Real.sqrt b with hs
  have hss : s * s = b := Real.mul_self_sqrt hb0.le
  rw [div_sub_one hb1.ne', div_le_div_iff_of_pos_right hb1]
  nlinarith [sq_nonneg (x - s)]
/-- C01: with the code's rate λ = ln(m/(m-1)), "one truncated-exponential point per unit interval,
    slot uniform" gives each slot an Exp(λ) first-hit time: survival within the unit interval. -/
theorem pmh3_survival (m : ℕ) (hm : 2 ≤ m) (s : ℝ) :
    let lam := Real.log ((m : ℝ) / ((m : ℝ) - 1))
    1 - (1 / (m : ℝ)) * ((1 - Real.exp (-lam * s)) / (1 - Real.exp (-lam))) = Real.exp (-lam * s) := by
  intro lam
  have hm1 : (0 : ℝ) < (m : ℝ) - 1 := by
    have : (2 : ℝ) ≤ m := by exact_mod_cast hm
    linarith
  have hm0 : (0 : ℝ) < m := by linarith
  have hpos : 0 < (m : ℝ) / ((m : ℝ) - 1) := div_pos hm0 hm1
  have h1 : Real.exp (-lam) = ((m : ℝ) - 1) / m := by
    rw [Real.exp_neg, Real.exp_log hpos, inv_div]
  rw [h1]
  have h2 : 1 - ((m : ℝ) - 1) / m = 1 / m := by field_simp; ring
  rw [h2]
  field_simp
  ring

import Mathlib.Order.Basic
import Mathlib.Data.Set.Basic
import Mathlib.Data.Set.Insert
import Mathlib.Logic.Function.Basic

/-! Probe: generic race framework + ProbMinHash3-style early-exit loop. -/
namespace Race
variable {V T : Type} [LinearOrder V]

structure Pt (V T : Type) where
  pos : Nat
  val : V
  tag : T

structure St (V T : Type) where
  reg : Nat → V
  tag : Nat → T

def offer (s : St V T) (p : Pt V T) : St V T :=
  if p.val < s.reg p.pos then
    { reg := Function.update s.reg p.pos p.val, tag := Function.update s.tag p.pos p.tag }
  else s

def LB (P : Set (Pt V T)) (s : St V T) : Prop := ∀ pt ∈ P, s.reg pt.pos ≤ pt.val
def Att (top : V) (init : T) (P : Set (Pt V T)) (s : St V T) : Prop :=
  ∀ k, (s.reg k = top ∧ s.tag k = init) ∨ ∃ pt ∈ P, pt.pos = k ∧ pt.val = s.reg k ∧ pt.tag = s.tag k
def Spec (top : V) (init : T) (P : Set (Pt V T)) (s : St V T) : Prop := LB P s ∧ Att top init P s

theorem offer_reg_le (s : St V T) (p : Pt V T) (k : Nat) : (offer s p).reg k ≤ s.reg k := by
  unfold offer; split
  · by_cases h : k = p.pos
    · subst h; simp [Function.update_self]; exact le_of_lt ‹_›
    · simp [Function.update_of_ne h]
  · exact le_refl _

theorem offer_reg_pos (s : St V T) (p : Pt V T) : (offer s p).reg p.pos ≤ p.val := by
  unfold offer; split
  · simp [Function.update_self]
  · exact not_lt.mp ‹_›

theorem spec_offer {top : V} {init : T} {P : Set (Pt V T)} {s : St V T} (h : Spec top init P s) (p : Pt V T) :
    Spec top init (P ∪ {p}) (offer s p) := by
  obtain ⟨hl, ha⟩ := h
  refine ⟨?_, ?_⟩
  · intro pt hpt
    rcases hpt with hpt | hpt
    · exact le_trans (offer_reg_le s p _) (hl pt hpt)
    · rw [Set.mem_singleton_iff] at hpt; subst hpt; exact offer_reg_pos s pt
  · intro k
    unfold offer; split
    · by_cases hk : k = p.pos
      · right; exact ⟨p, Or.inr rfl, hk.symm, by subst hk; simp, by subst hk; simp⟩
      · rcases ha k with h0 | ⟨pt, hpt, h1, h2, h3⟩
        · left; simpa [Function.update_of_ne hk] using h0
        · right; exact ⟨pt, Or.inl hpt, h1, by simpa [Function.update_of_ne hk] using h2,
            by simpa [Function.update_of_ne hk] using h3⟩
    · rcases ha k with h0 | ⟨pt, hpt, h1, h2, h3⟩
      · left; exact h0
      · right; exact ⟨pt, Or.inl hpt, h1, h2, h3⟩

theorem spec_dominated {top : V} {init : T} {P Q : Set (Pt V T)} {s : St V T} (h : Spec top init P s)
    (hd : ∀ pt ∈ Q, s.reg pt.pos ≤ pt.val) : Spec top init (P ∪ Q) s := by
  obtain ⟨hl, ha⟩ := h
  refine ⟨fun pt hpt => hpt.elim (hl pt) (hd pt), fun k => ?_⟩
  rcases ha k with h0 | ⟨pt, hpt, h1, h2, h3⟩
  · exact Or.inl h0
  · exact Or.inr ⟨pt, Or.inl hpt, h1, h2, h3⟩

theorem spec_unique_reg {top : V} {init : T} {P : Set (Pt V T)} {s s' : St V T}
    (hP : ∀ pt ∈ P, pt.val < top) (h : Spec top init P s) (h' : Spec top init P s') : s.reg = s'.reg := by
  funext k
  have key : ∀ {a b : St V T}, Spec top init P a → Spec top init P b → a.reg k ≤ b.reg k := by
    intro a b ha hb
    rcases hb.2 k with h0 | ⟨pt, hpt, h1, h2, _⟩
    · rcases ha.2 k with g0 | ⟨qt, hqt, g1, g2, _⟩
      · rw [g0.1, h0.1]
      · rw [h0.1, ← g2]; exact le_of_lt (hP qt hqt)
    · rw [← h2, ← h1]; exact ha.1 pt hpt
  exact le_antisymm (key h h') (key h' h)

/-! ### PMH3-style loop over one item's infinite stream -/
variable (qmax : St V T → V) (pt : Nat → Pt V T) (L : Nat → V)

def loop : Nat → St V T → Nat → Option (St V T)
  | 0, _, _ => none
  | f+1, s, i =>
    if (pt i).val < qmax s then
      let s' := offer s (pt i)
      if qmax s' ≤ L i then some s' else loop f s' (i+1)
    else some s

theorem loop_spec {top : V} {init : T}
    (hq : ∀ s k, s.reg k ≤ qmax s)                       -- C15: tracker max bounds every register
    (hqmono : ∀ s p, qmax (offer s p) ≤ qmax s)           -- max only decreases
    (hwf1 : ∀ i, (pt i).val ≤ L i) (hwf2 : ∀ i, L i ≤ (pt (i+1)).val) :
    ∀ (fuel : Nat) (s : St V T) (i : Nat) (P : Set (Pt V T)) (s' : St V T),
      loop qmax pt L fuel s i = some s' → Spec top init P s →
      (∀ j, j < i → s.reg (pt j).pos ≤ (pt j).val) →
      Spec top init (P ∪ Set.range pt) s' := by
  have mono : ∀ i j, i ≤ j → (pt i).val ≤ (pt j).val := by
    intro i j hij
    induction hij with
    | refl => exact le_refl _
    | step _ ih => exact le_trans ih (le_trans (hwf1 _) (hwf2 _))
  intro fuel
  induction fuel with
  | zero => intro s i P s' h; simp [loop] at h
  | succ f ih =>
    intro s i P s' h hs hlt
    simp only [loop] at h
    split at h
    · -- point i offered
      rename_i hlt'
      split at h
      · rename_i hstop
        injection h with h; subst h
        -- all points: j ≤ i offered/dominated, j > i dominated by L i ≥ qmax
        have hs1 := spec_offer hs (pt i)
        have := spec_dominated (Q := Set.range pt) hs1 (by
          rintro _ ⟨j, rfl⟩
          rcases Nat.lt_trichotomy j i with hj | hj | hj
          · exact le_trans (offer_reg_le s (pt i) _) (hlt j hj)
          · subst hj; exact offer_reg_pos s (pt j)
          · have : L i ≤ (pt j).val := le_trans (hwf2 i) (mono (i+1) j hj)
            exact le_trans (hq _ _) (le_trans hstop this))
        refine ⟨fun p hp => this.1 p (hp.elim (fun h => Or.inl (Or.inl h)) Or.inr), fun k => ?_⟩
        rcases this.2 k with h0 | ⟨p, hp, h1, h2, h3⟩
        · exact Or.inl h0
        · refine Or.inr ⟨p, ?_, h1, h2, h3⟩
          rcases hp with (hp | hp) | hp
          · exact Or.inl hp
          · rw [Set.mem_singleton_iff] at hp; exact Or.inr ⟨i, hp.symm⟩
          · exact Or.inr hp
      · have hs1 := spec_offer hs (pt i)
        have := ih (offer s (pt i)) (i+1) (P ∪ {pt i}) s' h hs1 (by
          intro j hj
          rcases Nat.lt_succ_iff_lt_or_eq.mp hj with hj | hj
          · exact le_trans (offer_reg_le s (pt i) _) (hlt j hj)
          · subst hj; exact offer_reg_pos s (pt j))
        refine ⟨fun p hp => this.1 p (hp.elim (fun h => Or.inl (Or.inl h)) Or.inr), fun k => ?_⟩
        rcases this.2 k with h0 | ⟨p, hp, h1, h2, h3⟩
        · exact Or.inl h0
        · refine Or.inr ⟨p, ?_, h1, h2, h3⟩
          rcases hp with (hp | hp) | hp
          · exact Or.inl hp
          · rw [Set.mem_singleton_iff] at hp; exact Or.inr ⟨i, hp.symm⟩
          · exact Or.inr hp
    · -- stopped: h_i ≥ qmax
      rename_i hge
      injection h with h; subst h
      have hge : qmax s ≤ (pt i).val := not_lt.mp hge
      exact spec_dominated hs (by
        rintro _ ⟨j, rfl⟩
        rcases Nat.lt_or_ge j i with hj | hj
        · exact hlt j hj
        · exact le_trans (hq _ _) (le_trans hge (mono i j hj)))
end Race
#print axioms Race.loop_spec
#print axioms Race.spec_unique_reg

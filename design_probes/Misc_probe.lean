/-! Probe for C15: sibling index `k ^^^ 1` in terms omega understands (core only). -/
theorem xor1 (k : Nat) : k ^^^ 1 = if k % 2 = 0 then k + 1 else k - 1 := by
  have h2 : (k ^^^ 1) / 2 = k / 2 := by
    rw [Nat.xor_div_two]; simp
  have h1 : ((k ^^^ 1) % 2 = 1) ↔ ¬ ((k % 2 = 1) ↔ (1 % 2 = 1)) := Nat.xor_mod_two_eq_one
  split <;> omega
#print axioms xor1

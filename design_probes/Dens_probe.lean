import Mathlib.Order.Basic
import Mathlib.Data.Nat.Find
/-! Probe for C08: restriction lemma for optimal densification, functional form. -/
namespace Dens
variable {Item : Type}

/-- One set's view: which bins are populated, and the item shown by a populated bin. -/
structure View (Item : Type) where
  pop : Nat → Prop
  own : Nat → Item

variable (probe : Nat → Nat → Nat)

/-- stop condition of the probing loop for empty bin k at attempt t -/
def Stop (V : View Item) (k t : Nat) : Prop := probe k t < k ∨ V.pop (probe k t)

/-- `Src V k b`: bin k finally shows the content of populated bin b (relational, no fuel). -/
inductive Src (V : View Item) : Nat → Nat → Prop
  | self {k} : V.pop k → Src V k k
  | back {k t b} : ¬ V.pop k → Stop probe V k t → (∀ t' < t, ¬ Stop probe V k t') →
      probe k t < k → Src V (probe k t) b → Src V k b
  | hit {k t} : ¬ V.pop k → Stop probe V k t → (∀ t' < t, ¬ Stop probe V k t') →
      ¬ probe k t < k → Src V k (probe k t)

theorem src_pop {V : View Item} {k b : Nat} (h : Src probe V k b) : V.pop b := by
  induction h with
  | self hp => exact hp
  | back _ _ _ _ _ ih => exact ih
  | hit _ hs _ hn => exact hs.resolve_left hn

/-- S ⊆ U expressed on views: populated in S ⇒ populated in U; and whenever U's item of a bin
    lies in S, the bin is populated in S and shows the same item (argmin restriction). -/
structure Sub (inS : Item → Prop) (S U : View Item) : Prop where
  pop_mono : ∀ b, S.pop b → U.pop b
  restrict : ∀ b, U.pop b → inS (U.own b) → S.pop b ∧ S.own b = U.own b

theorem restriction {inS : Item → Prop} {S U : View Item} (hsub : Sub inS S U) :
    ∀ k b, Src probe U k b → inS (U.own b) → Src probe S k b ∧ S.own b = U.own b := by
  intro k b h
  induction h with
  | self hp =>
    intro hin
    obtain ⟨hs, he⟩ := hsub.restrict _ hp hin
    exact ⟨Src.self hs, he⟩
  | @back k t b hnp hstop hmin hlt _ ih =>
    intro hin
    obtain ⟨hs, he⟩ := ih hin
    refine ⟨Src.back (fun h => hnp (hsub.pop_mono _ h)) (Or.inl hlt) ?_ hlt hs, he⟩
    intro t' ht' hst
    exact hmin t' ht' (hst.elim Or.inl (fun h => Or.inr (hsub.pop_mono _ h)))
  | @hit k t hnp hstop hmin hn =>
    intro hin
    have hpU := hstop.resolve_left hn
    obtain ⟨hs, he⟩ := hsub.restrict _ hpU hin
    refine ⟨Src.hit (fun h => hnp (hsub.pop_mono _ h)) (Or.inr hs) ?_ hn, he⟩
    intro t' ht' hst
    exact hmin t' ht' (hst.elim Or.inl (fun h => Or.inr (hsub.pop_mono _ h)))

/-- Src is functional: a bin shows one source. -/
theorem src_unique {V : View Item} {k b b' : Nat} (h : Src probe V k b) (h' : Src probe V k b') : b = b' := by
  induction h generalizing b' with
  | self hp =>
    cases h' with
    | self _ => rfl
    | back hnp _ _ _ _ => exact absurd hp hnp
    | hit hnp _ _ _ => exact absurd hp hnp
  | @back k t b hnp hstop hmin hlt _ ih =>
    cases h' with
    | self hp => exact absurd hp hnp
    | @back _ t2 _ _ hstop2 hmin2 hlt2 hsrc2 =>
      have : t = t2 := by
        rcases Nat.lt_trichotomy t t2 with h | h | h
        · exact absurd hstop (hmin2 t h)
        · exact h
        · exact absurd hstop2 (hmin t2 h)
      subst this; exact ih hsrc2
    | @hit _ t2 _ hstop2 hmin2 hn2 =>
      have : t = t2 := by
        rcases Nat.lt_trichotomy t t2 with h | h | h
        · exact absurd hstop (hmin2 t h)
        · exact h
        · exact absurd hstop2 (hmin t2 h)
      subst this; exact absurd hlt hn2
  | @hit k t hnp hstop hmin hn =>
    cases h' with
    | self hp => exact absurd hp hnp
    | @back _ t2 _ _ hstop2 hmin2 hlt2 _ =>
      have : t = t2 := by
        rcases Nat.lt_trichotomy t t2 with h | h | h
        · exact absurd hstop (hmin2 t h)
        · exact h
        · exact absurd hstop2 (hmin t2 h)
      subst this; exact absurd hlt2 hn
    | @hit _ t2 _ hstop2 hmin2 _ =>
      have : t = t2 := by
        rcases Nat.lt_trichotomy t t2 with h | h | h
        · exact absurd hstop (hmin2 t h)
        · exact h
        · exact absurd hstop2 (hmin t2 h)
      subst this; rfl
end Dens
#print axioms Dens.restriction
#print axioms Dens.src_unique

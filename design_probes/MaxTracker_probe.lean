import Mathlib.Order.Basic
import Mathlib.Order.Lattice
import Mathlib.Order.MinMax
/-! Probe for C15: array model of MaxValueTracker.update and its invariant. -/
namespace MT
variable {α : Type} [LinearOrder α]

theorem xor1 (k : Nat) : k ^^^ 1 = if k % 2 = 0 then k + 1 else k - 1 := by
  have h2 : (k ^^^ 1) / 2 = k / 2 := by
    rw [Nat.xor_div_two]; simp
  have h1 : ((k ^^^ 1) % 2 = 1) ↔ ¬ ((k % 2 = 1) ↔ (1 % 2 = 1)) := Nat.xor_mod_two_eq_one
  split <;> omega

/-- functional view of the node array: `v i` for i < 2m-1 -/
structure T (α : Type) where
  m : Nat
  v : Nat → α

/-- local invariant at internal node i -/
def NodeOK (t : T α) (i : Nat) : Prop := t.v i = max (t.v (2*(i - t.m))) (t.v (2*(i - t.m) + 1))
def Inv (t : T α) : Prop := ∀ i, t.m ≤ i → i < 2*t.m - 1 → NodeOK t i

/-- the propagation loop, on the functional view; fuel = number of levels left -/
def prop : Nat → T α → Nat → α → T α
  | 0, t, _, _ => t
  | f+1, t, k, cur =>
    let t1 : T α := { t with v := Function.update t.v k cur }
    let p := t.m + k / 2
    if p > 2*t.m - 2 then t1
    else
      let s := k ^^^ 1
      let cur' := if cur < t1.v s then t1.v s else cur
      if t1.v p ≤ cur' then t1 else prop f t1 p cur'

/-- invariant "everywhere except that node k is about to receive `cur`" -/
def InvExcept (t : T α) (k : Nat) (cur : α) : Prop :=
  (∀ i, t.m ≤ i → i < 2*t.m - 1 → i ≠ k → i ≠ t.m + k/2 → NodeOK t i) ∧
  (t.m ≤ k → cur = max (t.v (2*(k - t.m))) (t.v (2*(k - t.m) + 1))) ∧
  (k < 2*t.m - 2 → t.v (t.m + k/2) = max (t.v k) (t.v (k ^^^ 1))) ∧
  cur ≤ t.v k ∧ k < 2*t.m - 1

theorem prop_inv : ∀ (f : Nat) (t : T α) (k : Nat) (cur : α),
    2*t.m - 1 ≤ k + f → 1 ≤ t.m → InvExcept t k cur → Inv (prop f t k cur) ∧ (prop f t k cur).m = t.m := by
  intro f
  induction f with
  | zero =>
    intro t k cur hf hm h
    obtain ⟨_, _, _, _, hk⟩ := h
    omega
  | succ f ih =>
    intro t k cur hf hm h
    obtain ⟨hoth, hself, hpar, hle, hk⟩ := h
    simp only [prop]
    have hsib : k ^^^ 1 = if k % 2 = 0 then k + 1 else k - 1 := xor1 k
    split
    · -- k is the root
      rename_i hroot
      refine ⟨?_, rfl⟩
      intro i hi1 hi2
      dsimp only at hi1 hi2
      have hkroot : k = 2*t.m - 2 := by omega
      by_cases hik : i = k
      · subst hik
        have c1 : 2 * (i - t.m) ≠ i := by omega
        have c2 : 2 * (i - t.m) + 1 ≠ i := by omega
        simp only [NodeOK, Function.update_self, Function.update_of_ne c1, Function.update_of_ne c2]
        exact hself hi1
      · have c1 : 2 * (i - t.m) ≠ k := by omega
        have c2 : 2 * (i - t.m) + 1 ≠ k := by omega
        have := hoth i hi1 hi2 hik (by omega)
        simp only [NodeOK, Function.update_of_ne hik, Function.update_of_ne c1, Function.update_of_ne c2] at this ⊢
        exact this
    · rename_i hnroot
      have hk2 : k < 2*t.m - 2 := by omega
      have hsk : k ^^^ 1 ≠ k := by rw [hsib]; split <;> omega
      have hpk : t.m + k/2 ≠ k := by omega
      have hps : t.m + k/2 ≠ k ^^^ 1 := by rw [hsib]; split <;> omega
      simp only [Function.update_of_ne hsk, Function.update_of_ne hpk]
      -- new value for the parent
      have hcur' : (if cur < t.v (k ^^^ 1) then t.v (k ^^^ 1) else cur) = max cur (t.v (k ^^^ 1)) := by
        split
        · rw [max_eq_right (le_of_lt ‹_›)]
        · rw [max_eq_left (not_lt.mp ‹_›)]
      rw [hcur']
      have hparv := hpar hk2
      have hle' : max cur (t.v (k ^^^ 1)) ≤ t.v (t.m + k/2) := by
        rw [hparv]; exact max_le_max hle (le_refl _)
      -- children of the parent are k and its sibling
      have hch : (2 * (t.m + k/2 - t.m) = k ∧ 2 * (t.m + k/2 - t.m) + 1 = k ^^^ 1) ∨
                 (2 * (t.m + k/2 - t.m) = k ^^^ 1 ∧ 2 * (t.m + k/2 - t.m) + 1 = k) := by
        rw [hsib]; split <;> omega
      split
      · -- parent already equal: done
        rename_i hge
        have heq : t.v (t.m + k/2) = max cur (t.v (k ^^^ 1)) := le_antisymm hge hle'
        refine ⟨?_, rfl⟩
        intro i hi1 hi2
        dsimp only at hi1 hi2
        by_cases hik : i = k
        · subst hik
          have c1 : 2 * (i - t.m) ≠ i := by omega
          have c2 : 2 * (i - t.m) + 1 ≠ i := by omega
          simp only [NodeOK, Function.update_self, Function.update_of_ne c1, Function.update_of_ne c2]
          exact hself hi1
        · by_cases hip : i = t.m + k/2
          · subst hip
            simp only [NodeOK, Function.update_of_ne hpk]
            rcases hch with ⟨e1, e2⟩ | ⟨e1, e2⟩
            · rw [e2, e1, Function.update_self, Function.update_of_ne hsk, heq]
            · rw [e2, e1, Function.update_self, Function.update_of_ne hsk, heq, max_comm]
          · have c1 : 2 * (i - t.m) ≠ k := by omega
            have c2 : 2 * (i - t.m) + 1 ≠ k := by omega
            have := hoth i hi1 hi2 hik hip
            simp only [NodeOK, Function.update_of_ne hik, Function.update_of_ne c1, Function.update_of_ne c2] at this ⊢
            exact this
      · -- recurse on the parent
        rename_i hlt
        have hlt : max cur (t.v (k ^^^ 1)) < t.v (t.m + k/2) := not_le.mp hlt
        have := ih { t with v := Function.update t.v k cur } (t.m + k/2) (max cur (t.v (k ^^^ 1)))
          (by dsimp only; omega) hm ?_
        · exact this
        · refine ⟨?_, ?_, ?_, ?_, ?_⟩
          · intro i hi1 hi2 hne1 hne2
            dsimp only at hi1 hi2 hne1 hne2 ⊢
            by_cases hik : i = k
            · subst hik
              have c1 : 2 * (i - t.m) ≠ i := by omega
              have c2 : 2 * (i - t.m) + 1 ≠ i := by omega
              simp only [NodeOK, Function.update_self, Function.update_of_ne c1, Function.update_of_ne c2]
              exact hself hi1
            · have c1 : 2 * (i - t.m) ≠ k := by omega
              have c2 : 2 * (i - t.m) + 1 ≠ k := by omega
              have := hoth i hi1 hi2 hik hne1
              simp only [NodeOK, Function.update_of_ne hik, Function.update_of_ne c1, Function.update_of_ne c2] at this ⊢
              exact this
          · intro _
            dsimp only
            rcases hch with ⟨e1, e2⟩ | ⟨e1, e2⟩
            · rw [e2, e1, Function.update_self, Function.update_of_ne hsk]
            · rw [e2, e1, Function.update_self, Function.update_of_ne hsk, max_comm]
          · intro hp2
            dsimp only at hp2 ⊢
            -- grandparent relation is untouched by the write at k
            have hgp : t.m + (t.m + k/2)/2 ≠ k := by omega
            have hps' : (t.m + k/2) ^^^ 1 ≠ k := by rw [xor1]; split <;> omega
            rw [Function.update_of_ne hgp, Function.update_of_ne hpk, Function.update_of_ne hps']
            have hi1 : t.m ≤ t.m + (t.m + k/2)/2 := by omega
            have hi2 : t.m + (t.m + k/2)/2 < 2*t.m - 1 := by omega
            have := hoth _ hi1 hi2 (by omega) (by omega)
            simp only [NodeOK] at this
            rw [this]
            have hch2 : (2 * (t.m + (t.m + k/2)/2 - t.m) = t.m + k/2 ∧ 2 * (t.m + (t.m + k/2)/2 - t.m) + 1 = (t.m + k/2) ^^^ 1) ∨
                 (2 * (t.m + (t.m + k/2)/2 - t.m) = (t.m + k/2) ^^^ 1 ∧ 2 * (t.m + (t.m + k/2)/2 - t.m) + 1 = t.m + k/2) := by
              rw [xor1]; split <;> omega
            rcases hch2 with ⟨e1, e2⟩ | ⟨e1, e2⟩
            · rw [e2, e1]
            · rw [e2, e1, max_comm]
          · simp only [Function.update_of_ne hpk]; exact le_of_lt hlt
          · dsimp only; omega
end MT
#print axioms MT.prop_inv

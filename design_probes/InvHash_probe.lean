import Std.Tactic.BVDecide
/-! Probe for C19: every statement of int64_hash has a machine-checked inverse step.
    Multiplication steps are done algebraically (plain bv_decide times out on them). -/
theorem mul265 (k : BitVec 64) : (k + (k <<< 3) + (k <<< 8)) * 15244667743933553977#64 = k := by
  have h : k + (k <<< 3) + (k <<< 8) = k * 265#64 := by bv_decide
  rw [h, BitVec.mul_assoc]
  have : 265#64 * 15244667743933553977#64 = 1#64 := by decide
  rw [this, BitVec.mul_one]
theorem mul21 (k : BitVec 64) : (k + (k <<< 2) + (k <<< 4)) * 14933078535860113213#64 = k := by
  have h : k + (k <<< 2) + (k <<< 4) = k * 21#64 := by bv_decide
  rw [h, BitVec.mul_assoc]
  have : 21#64 * 14933078535860113213#64 = 1#64 := by decide
  rw [this, BitVec.mul_one]
theorem xs24 (k : BitVec 64) : let y := k ^^^ (k >>> 24); let t := y ^^^ (y >>> 24); y ^^^ (t >>> 24) = k := by bv_decide
theorem xs28 (k : BitVec 64) : let y := k ^^^ (k >>> 28); let t := y ^^^ (y >>> 28); y ^^^ (t >>> 28) = k := by bv_decide
theorem xs14 (k : BitVec 64) :
    let y := k ^^^ (k >>> 14)
    let t := y ^^^ (y >>> 14)
    let t := y ^^^ (t >>> 14)
    let t := y ^^^ (t >>> 14)
    y ^^^ (t >>> 14) = k := by bv_decide
theorem f21 (k : BitVec 64) :
    let y := (~~~k) + (k <<< 21)
    let t := ~~~y
    let t := ~~~(y - (t <<< 21))
    let t := ~~~(y - (t <<< 21))
    ~~~(y - (t <<< 21)) = k := by bv_decide
theorem a31 (x : BitVec 64) : let y := x + (x <<< 31); y - ((y - (y <<< 31)) <<< 31) = x := by bv_decide
#print axioms mul265

import Mathlib.GroupTheory.GroupAction.Basic
import Mathlib.Data.Fintype.Card
/-- §4.3: an equivariant map from a finite G-set has equinumerous fibres over points of one orbit. -/
theorem fiber_card_eq {G Ω X : Type*} [Group G] [MulAction G Ω] [MulAction G X]
    [Fintype Ω] [DecidableEq X]
    (f : Ω → X) (hf : ∀ (g : G) (ω : Ω), f (g • ω) = g • f ω)
    (x y : X) (hxy : ∃ g : G, g • x = y) :
    (Finset.univ.filter (fun ω => f ω = x)).card = (Finset.univ.filter (fun ω => f ω = y)).card := by
  obtain ⟨g, rfl⟩ := hxy
  apply Finset.card_bij (fun ω _ => g • ω)
  · intro ω hω
    simp only [Finset.mem_filter, Finset.mem_univ, true_and] at hω ⊢
    rw [hf, hω]
  · intro a _ b _ h
    exact MulAction.injective g h
  · intro ω hω
    simp only [Finset.mem_filter, Finset.mem_univ, true_and] at hω
    refine ⟨g⁻¹ • ω, ?_, by simp⟩
    simp only [Finset.mem_filter, Finset.mem_univ, true_and]
    rw [hf, hω, inv_smul_smul]
#print axioms fiber_card_eq

//! Dependency-free mini-crate: includes /repo's sig.rs verbatim and exercises every `Sig` impl.
//! Run natively (prints bytes) and under Miri (`cargo +nightly miri run`) for the memory-safety clause of C18.
#[path = "/repo/src/probminhasher/sig.rs"]
mod sig;
use sig::Sig;

fn hex(b: &[u8]) -> String {
    b.iter().map(|x| format!("{:02x}", x)).collect::<Vec<_>>().join("")
}

fn main() {
    let mut total = 0usize;
    // scalars
    for x in [0u8, 1, 0x7f, 0xff] {
        let s = x.get_sig();
        assert_eq!(s, vec![x]);
        total += s.len();
    }
    for x in [0u16, 1, 0x1234, 0xffff] {
        let s = x.get_sig();
        assert_eq!(s, x.to_ne_bytes().to_vec());
        total += s.len();
    }
    for x in [0u32, 1, 0x12345678, u32::MAX] {
        let s = x.get_sig();
        assert_eq!(s, x.to_ne_bytes().to_vec());
        total += s.len();
    }
    for x in [0u64, 1, 0x123456789abcdef0, u64::MAX] {
        let s = x.get_sig();
        assert_eq!(s, x.to_ne_bytes().to_vec());
        total += s.len();
    }
    for x in [0i16, -1, i16::MIN, i16::MAX] {
        assert_eq!(x.get_sig(), x.to_ne_bytes().to_vec());
    }
    for x in [0i32, -1, i32::MIN, i32::MAX] {
        assert_eq!(x.get_sig(), x.to_ne_bytes().to_vec());
    }
    // vectors: empty, 1, many
    for n in [0usize, 1, 2, 3, 4, 5, 7, 8, 9, 15, 16, 17, 20, 24, 31, 32, 33, 64, 65, 257] {
        let v8: Vec<u8> = (0..n).map(|i| (i * 7 + 3) as u8).collect();
        let s = v8.get_sig();
        assert_eq!(s, v8);
        let v16: Vec<u16> = (0..n).map(|i| (i * 257 + 1) as u16).collect();
        let s = v16.get_sig();
        let want: Vec<u8> = v16.iter().flat_map(|x| x.to_ne_bytes()).collect();
        println!("vec_u16 n={} got={} want={}", n, hex(&s), hex(&want));
        assert_eq!(s, want, "Vec<u16> bytes");
        drop(s);
        // the argument must still be intact and usable
        assert_eq!(v16.len(), n);
        // the same values with spare capacity / truncated from a longer vector: identical bytes, no read past len
        let mut c16: Vec<u16> = Vec::with_capacity(2 * n + 7);
        c16.extend_from_slice(&v16);
        assert_eq!(c16.get_sig(), want, "Vec<u16> with spare capacity");
        let mut t16 = v16.clone();
        for _ in 0..(n / 2 + 3) { t16.push(0xABCD); }
        t16.truncate(n);
        assert_eq!(t16.get_sig(), want, "Vec<u16> truncated");
        let v32: Vec<u32> = (0..n).map(|i| (i as u32).wrapping_mul(0x01010101).wrapping_add(5)).collect();
        let s = v32.get_sig();
        let want: Vec<u8> = v32.iter().flat_map(|x| x.to_ne_bytes()).collect();
        assert_eq!(s, want, "Vec<u32> bytes");
        drop(s);
        let mut c32: Vec<u32> = Vec::with_capacity(2 * n + 7);
        c32.extend_from_slice(&v32);
        assert_eq!(c32.get_sig(), want, "Vec<u32> with spare capacity");
        let mut t32 = v32.clone();
        for _ in 0..(n / 2 + 3) { t32.push(0xABCD_EF01); }
        t32.truncate(n);
        assert_eq!(t32.get_sig(), want, "Vec<u32> truncated");
        assert_eq!(v32.len(), n);
        total += n;
    }
    for st in ["", "a", "héllo wörld", "日本語", "\u{10FFFF}x"] {
        let s = st.to_string().get_sig();
        assert_eq!(s, st.as_bytes().to_vec());
    }
    println!("sig_miri ok {}", total);
}

//! C12: a sketch is a pure function of parameters, hasher and input: several instances in one thread,
//! instances running concurrently in threads, and instances in separate processes must all agree
//! (and agree with the single model output).
use crate::c02::{seed_fnv, INIT};
use crate::c04::{gen_stream, hash_with};
use crate::dens::D;
use crate::ssk::{new16, new32};
use crate::util::*;
use fnv::FnvHasher;
use indexmap::IndexMap;
use probminhash::probminhasher::probordminhash2::ProbOrdMinHash2;
use probminhash::probminhasher::*;
use probminhash::superminhasher::SuperMinHash;
use probminhash::superminhasher2::SuperMinHash2;
use std::collections::HashMap;
use std::hash::BuildHasherDefault;
use std::process::Command;
use std::sync::{Arc, Barrier};

pub const KINDS: [&str; 16] = ["pmh3", "pmh3hashmap", "pmh3a", "pmh3ahashmap", "pmh3asha", "pmh2", "ord", "smh", "smh2", "ssk", "dens",
    // other instantiations of the generic sketchers, with parameters whose values exceed the narrower type's range
    "ssk32wide", "smh32", "dens32", "denssparse", "refitems"];   // (SuperMinHash2<u32> needs a 32-bit hasher: documented precondition)

fn bh() -> BuildHasherDefault<FnvHasher> {
    BuildHasherDefault::<FnvHasher>::default()
}

/// the canonical text of the sketch of `items` (with weights derived from the ids) for sketcher `kind`
pub fn sketch_text(kind: &str, m: usize, items: &[u64]) -> String {
    let w = |x: u64| 0.5 + (x % 13) as f64 * 0.75;
    match kind {
        "pmh3" => {
            let mut s = ProbMinHash3::<u64, FnvHasher>::new(m, INIT);
            for x in items { s.hash_item(*x, &w(*x)); }
            join(s.get_signature())
        }
        "pmh3hashmap" => {
            // HashMap with the default RandomState: per-process / per-instance random iteration order
            let mut map: HashMap<u64, f64> = HashMap::new();
            for x in items { map.insert(*x, w(*x)); }
            let mut s = ProbMinHash3::<u64, FnvHasher>::new(m, INIT);
            s.hash_weigthed_hashmap(&map);
            join(s.get_signature())
        }
        "pmh3a" => {
            let mut map: IndexMap<u64, f64> = IndexMap::new();
            for x in items { map.insert(*x, w(*x)); }
            let mut s = ProbMinHash3a::<u64, FnvHasher>::new(m, INIT);
            s.hash_weigthed_idxmap(&map);
            join(s.get_signature())
        }
        "pmh3ahashmap" => {
            let mut map: HashMap<u64, f64> = HashMap::new();
            for x in items { map.insert(*x, w(*x)); }
            let mut s = ProbMinHash3a::<u64, FnvHasher>::new(m, INIT);
            s.hash_weigthed_hashmap(&map);
            join(s.get_signature())
        }
        "pmh3asha" => {
            let mut map: HashMap<u64, f64> = HashMap::new();
            for x in items { map.insert(*x, w(*x)); }
            let mut s = ProbMinHash3aSha::<u64>::new(m, INIT);
            s.hash_weigthed_hashmap(&map);
            join(s.get_signature())
        }
        "pmh2" => {
            let mut map: HashMap<u64, f64> = HashMap::new();
            for x in items { map.insert(*x, w(*x)); }
            let mut s = ProbMinHash2::<u64, FnvHasher>::new(m, INIT);
            s.hash_weigthed_hashmap::<std::collections::hash_map::RandomState>(&map);
            join(s.get_signature())
        }
        "ord" => {
            let mut s = ProbOrdMinHash2::<FnvHasher>::new(m as u32, 2);
            join(&s.hash_set(items))
        }
        "smh" => {
            let mut s = SuperMinHash::<f64, u64, FnvHasher>::new(m, bh());
            s.sketch_slice(items).unwrap();
            join_fhx(s.get_hsketch())
        }
        "smh2" => {
            let mut s = SuperMinHash2::<u64, u64, FnvHasher>::new(m, bh());
            s.sketch_slice(items).unwrap();
            join(s.get_hsketch())
        }
        "ssk" => {
            let mut s = new16((1.2, m as u64, 20.0, 65534));
            s.sketch_slice(items).unwrap();
            let kv: Vec<u64> = s.get_signature().iter().map(|x| *x as u64).collect();
            join(&kv)
        }
        "ssk32wide" => {
            // u32 registers well above u16::MAX (b close to 1, q = 2^20)
            let mut s = new32((1.0001, m as u64, 20.0, 1 << 20));
            s.sketch_slice(items).unwrap();
            let kv: Vec<u64> = s.get_signature().iter().map(|x| *x as u64).collect();
            format!("{} ovf={}", join(&kv), s.get_nb_overflow())
        }
        "refitems" => {
            // items are REFERENCES (&str into freshly allocated Strings at addresses that differ from call to call): the sketch must
            // depend on what the items are, not on where they live
            static BUMP: std::sync::atomic::AtomicUsize = std::sync::atomic::AtomicUsize::new(1);
            let k = BUMP.fetch_add(1, std::sync::atomic::Ordering::SeqCst);
            let pad: Vec<u8> = Vec::with_capacity(17 + 48 * (k % 61));
            std::mem::forget(pad);                                            // shifts the allocator's next addresses
            let strings: Vec<String> = items.iter().map(|x| format!("key-{:x}-{}", x, "p".repeat(k % 7))).map(|s| s[..s.len() - k % 7].to_string()).collect();
            let refs: Vec<&str> = strings.iter().map(|s| s.as_str()).collect();
            let mut a = SuperMinHash::<f64, &str, FnvHasher>::new(m, bh());
            a.sketch_slice(&refs).unwrap();
            let mut b = probminhash::setsketcher::SetSketcher::<u16, &str, FnvHasher>::new(probminhash::setsketcher::SetSketchParams::new(1.2, m as u64, 20.0, 65534), bh());
            b.sketch_slice(&refs).unwrap();
            let mut c = probminhash::densminhash::OptDensMinHash::<f64, &str, FnvHasher>::new(m, bh());
            let _ = c.sketch_slice(&refs);
            let mut d = probminhash::densminhash::RevOptDensMinHash::<f32, &str, FnvHasher>::new(m, bh());
            let _ = d.sketch_slice(&refs);
            let mut e = SuperMinHash2::<u64, &str, FnvHasher>::new(m, bh());
            e.sketch_slice(&refs).unwrap();
            format!("{} / {} / {} / {} / {}", join_fhx(a.get_hsketch()), join(&b.get_signature().iter().map(|x| *x as u64).collect::<Vec<_>>()), join(&c.get_hsketch_u64()), join(&d.get_hsketch_u64()), join(e.get_hsketch()))
        }
        "smh32" => {
            let mut s = SuperMinHash::<f32, u64, FnvHasher>::new(m, bh());
            s.sketch_slice(items).unwrap();
            join(&s.get_hsketch().iter().map(|x| x.to_bits() as u64).collect::<Vec<_>>())
        }
        "denssparse" => {
            // few items in many bins: densification fills most positions (both algorithms, f64 and f32)
            let few = &items[..items.len().min(6)];
            let mm = 4 * m;
            let mut out = Vec::new();
            for kind in 0..4 {
                let mut a = D::new(kind, mm);
                a.sketch_slice(few);
                out.push(join(&a.u64view()));
            }
            out.join(" / ")
        }
        "dens32" => {
            let mut a = D::new(2, m);
            a.sketch_slice(items);
            let mut b = D::new(3, m);
            b.sketch_slice(items);
            format!("{} / {}", join(&a.u64view()), join(&b.u64view()))
        }
        "dens" => {
            let mut a = D::new(0, m);
            a.sketch_slice(items);
            let mut b = D::new(1, m);
            b.sketch_slice(items);
            format!("{} / {}", join(&a.u64view()), join(&b.u64view()))
        }
        _ => panic!("kind"),
    }
}

/// run sketcher `k` on unrelated inputs of several sizes (dense and sparse): whatever process-wide or thread-local
/// state this leaves behind must not influence later sketches
pub fn prelude(k: &str, seed: u64) {
    let warm = gen_stream(&mut Sm64(seed ^ 0x5555), 25);
    let _ = sketch_text(k, 8, &warm);
    let _ = sketch_text(k, 32, &warm[..3]);
    let _ = sketch_text(k, 128, &warm[..5]);
}

/// child process: `pmh_harness child-c12 <kind> <m> <seed> <n>`
pub fn child(args: &[String]) {
    let m: usize = args[1].parse().unwrap();
    let seed: u64 = args[2].parse().unwrap();
    let n: usize = args[3].parse().unwrap();
    let items = gen_stream(&mut Sm64(seed), n);
    // ambient logging: with VERIF_TRACE set a logger that discards everything is installed with the maximum level at Trace, so
    // every log::trace!/debug! argument of the crate is EVALUATED (an argument with a side effect then changes the sketch)
    if std::env::var("VERIF_TRACE").is_ok() {
        struct Discard;
        impl log::Log for Discard {
            fn enabled(&self, _: &log::Metadata) -> bool { true }
            fn log(&self, record: &log::Record) { let _ = format!("{}", record.args()); }
            fn flush(&self) {}
        }
        static LOGGER: Discard = Discard;
        let _ = log::set_logger(&LOGGER);
        log::set_max_level(log::LevelFilter::Trace);
    }
    // prelude: other sketchers (other instantiations) run first in this process — process-wide state they
    // leave behind (statics, caches, thread-locals) must not influence the target
    for k in &args[4..] {
        prelude(k, seed);
    }
    println!("{}", sketch_text(&args[0], m, &items));
}

pub fn corr(ctx: &mut Ctx) {
    let nproc = ctx.n(4, 12) as usize;
    let rounds = ctx.n(2, 8);
    for r in 0..rounds {
        for kind in KINDS.iter() {
            let m = [16usize, 8, 33][r as usize % 3];
            let n = 40 + 17 * r as usize;
            let seed = ctx.rng.next() >> 1;
            let items = gen_stream(&mut Sm64(seed), n);
            ctx.begin_case(&format!("purity {} m={} n={}", kind, m, n));
            ctx.mark_nontrivial();
            ctx.count(&format!("kind={}", kind));
            let reference = sketch_text(kind, m, &items);
            let mut all: Vec<(String, String)> = Vec::new();
            for i in 0..3 {
                all.push((format!("instance{}", i), sketch_text(kind, m, &items)));
            }
            // concurrently, barrier-started
            let barrier = Arc::new(Barrier::new(4));
            let handles: Vec<_> = (0..4)
                .map(|t| {
                    let b = barrier.clone();
                    let it = items.clone();
                    let k = kind.to_string();
                    std::thread::spawn(move || {
                        b.wait();
                        // every second thread has a history: all sketchers ran in it before (thread-local state)
                        if t % 2 == 1 { for pk in KINDS.iter() { prelude(pk, seed); } }
                        (format!("thread{}{}", t, if t % 2 == 1 { " with history" } else { "" }), sketch_text(&k, m, &it))
                    })
                })
                .collect();
            for (t, hnd) in handles.into_iter().enumerate() {
                match hnd.join() {
                    Ok(x) => all.push(x),
                    Err(_) => all.push((format!("thread{}{} PANICKED", t, if t % 2 == 1 { " with history" } else { "" }), "PANIC".to_string())),
                }
            }
            // separate processes (different address-space layout and RandomState keys)
            let exe = std::env::current_exe().unwrap();
            for pi in 0..nproc {
                // process histories: fresh / every other sketcher first / the same in reverse / a random subset
                let mut prelude: Vec<&str> = match pi % 4 {
                    0 => vec![],
                    1 => KINDS.iter().cloned().filter(|k| k != kind).collect(),
                    2 => KINDS.iter().rev().cloned().filter(|k| k != kind).collect(),
                    _ => KINDS.iter().cloned().filter(|_| ctx.rng.below(2) == 0).collect(),
                };
                if pi % 4 == 3 { let n0 = prelude.len(); if n0 > 1 { let j = ctx.rng.below(n0 as u64) as usize; prelude.swap(0, j); } }
                ctx.count(["process history=fresh", "process history=all other sketchers first", "process history=all others, reverse order", "process history=random subset"][pi % 4]);
                let out = Command::new(&exe).arg("child-c12").arg(kind).arg(m.to_string()).arg(seed.to_string()).arg(n.to_string()).args(&prelude).output().unwrap();
                all.push((format!("process{} after [{}]", pi, prelude.join(",")), String::from_utf8_lossy(&out.stdout).lines().next().unwrap_or("CRASH").to_string()));
            }
            for (who, txt) in &all {
                if txt != &reference {
                    ctx.oracle_failure(serde_json::json!({"kind":"impl_violates_property","key":format!("purity:{}",kind),
                        "what":"same parameters, hasher and input give different sketches","sketcher":kind,"who":who,"m":m,"n":n,"seed":seed}));
                    break;
                }
            }
            // large inputs inside rayon pools of several sizes and in child processes with RAYON_NUM_THREADS set:
            // a sketcher that splits its input over the ambient pool must not depend on the pool's size
            if r < 1 {
                let nbig = [8192usize + 7, 12289, 20011][(r as usize + kind.len()) % 3];
                let big = gen_stream(&mut Sm64(seed ^ 0xb16), nbig);
                let mb = if *kind == "ord" { 64usize } else { 2048 };   // many positions: a dropped item is then visible with high probability
                let ref_big = sketch_text(kind, mb, &big);
                ctx.count("context=rayon pools of size 1,2,3,7 with >= 8192 items");
                for threads in [1usize, 2, 3, 7] {
                    let pool = rayon::ThreadPoolBuilder::new().num_threads(threads).build().unwrap();
                    let k = kind.to_string();
                    let got = pool.install(|| sketch_text(&k, mb, &big));
                    if got != ref_big {
                        ctx.oracle_failure(serde_json::json!({"kind":"impl_violates_property","key":format!("purity:{}",kind),
                            "what":"sketch depends on the size of the ambient rayon pool","sketcher":kind,"who":format!("rayon pool of {} threads", threads),"m":mb,"n":nbig,"seed":seed ^ 0xb16}));
                        break;
                    }
                }
                // a child process with a logger installed at Trace level (ambient logging configuration), small and large input
                for (mm, nn, sd) in [(m, n, seed), (mb, nbig.min(3000), seed ^ 0xb16)] {
                    let its = gen_stream(&mut Sm64(sd), nn);
                    let want = sketch_text(kind, mm, &its);
                    let out = Command::new(&exe).arg("child-c12").arg(kind).arg(mm.to_string()).arg(sd.to_string()).arg(nn.to_string())
                        .env("VERIF_TRACE", "1").output().unwrap();
                    let got = String::from_utf8_lossy(&out.stdout).lines().next().unwrap_or("CRASH").to_string();
                    ctx.count("context=child process with a Trace-level logger installed");
                    if got != want {
                        ctx.oracle_failure(serde_json::json!({"kind":"impl_violates_property","key":format!("purity:{}",kind),
                            "what":"sketch depends on the ambient log level (a logger installed at Trace level)","sketcher":kind,"who":"process with a Trace-level logger","m":mm,"n":nn,"seed":sd}));
                        break;
                    }
                }
                for threads in ["1", "3"] {
                    let out = Command::new(&exe).arg("child-c12").arg(kind).arg(mb.to_string()).arg((seed ^ 0xb16).to_string()).arg(nbig.to_string())
                        .env("RAYON_NUM_THREADS", threads).output().unwrap();
                    let got = String::from_utf8_lossy(&out.stdout).lines().next().unwrap_or("CRASH").to_string();
                    if got != ref_big {
                        ctx.oracle_failure(serde_json::json!({"kind":"impl_violates_property","key":format!("purity:{}",kind),
                            "what":"sketch depends on RAYON_NUM_THREADS of the process","sketcher":kind,"who":format!("process with RAYON_NUM_THREADS={}", threads),"m":mb,"n":nbig,"seed":seed ^ 0xb16}));
                        break;
                    }
                }
            }
            // the single model output for the kinds whose model ops are order-sensitive only through the set
            match *kind {
                "smh" => {
                    ctx.op(&format!("smh new64 a {}", m));
                    for x in &items { ctx.op(&format!("smh sk64 a {}", fnv_tok(x))); }
                    let s = {
                        let mut s = SuperMinHash::<f64, u64, FnvHasher>::new(m, bh());
                        s.sketch_slice(&items).unwrap();
                        let (q, p, b, ir, au) = s.verif_state();
                        format!("{} | {} | {} | {} | {} {}", join_fhx(s.get_hsketch()), join(&q), join(&p), join(&b), ir, au)
                    };
                    ctx.line("smh dump64 a", &s);
                }
                "pmh3" => {
                    ctx.op(&format!("pmh3 new a {} {}", m, INIT));
                    for x in &items { ctx.op(&format!("pmh3 item a {}:{}:fnv", x, fhx(0.5 + (x % 13) as f64 * 0.75))); }
                    ctx.line("pmh3 sig a", &reference);
                }
                _ => {}
            }
        }
    }
}

//! C02 (and the deterministic part of C01, C12, C13): ProbMinHash 2 / 3 / 3a / 3aSha — real sketchers vs model,
//! plus the implementation-only oracles (order, duplicates, batch split, 3 vs 3a, scaling, union, no placeholder)
use crate::util::*;
use fnv::FnvHasher;
use indexmap::IndexMap;
use probminhash::nohasher::NoHashHasher;
use probminhash::probminhasher::*;
use probminhash::weightedset::WeightedSet;
use sha2::{Digest, Sha512_256};
use std::collections::HashMap;
use std::hash::{BuildHasher, BuildHasherDefault};

pub const INIT: u64 = 999_999_999_999;

pub fn seed_fnv(id: u64) -> u64 {
    BuildHasherDefault::<FnvHasher>::default().hash_one(&id)
}
pub fn seed_nohash(id: u64) -> u64 {
    BuildHasherDefault::<NoHashHasher>::default().hash_one(&id)
}
pub fn sha_words(id: u64) -> [u64; 4] {
    let mut h = Sha512_256::new();
    h.update(id.to_ne_bytes());
    let d = h.finalize();
    let mut w = [0u64; 4];
    for i in 0..4 {
        w[i] = u64::from_le_bytes(d[8 * i..8 * i + 8].try_into().unwrap());
    }
    w
}

#[derive(Clone, Copy, Debug, PartialEq)]
pub enum Wclass {
    Equal,
    Uniform,
    LogUniform,
    Pow2,
    HugeTiny,
    Extreme,
}
pub const WCLASSES: [Wclass; 6] = [Wclass::Equal, Wclass::Uniform, Wclass::LogUniform, Wclass::Pow2, Wclass::HugeTiny, Wclass::Extreme];

pub fn gen_weights(rng: &mut Sm64, n: usize, c: Wclass) -> Vec<f64> {
    (0..n)
        .map(|i| match c {
            Wclass::Equal => 1.0,
            Wclass::Uniform => 0.1 + 9.9 * rng.unit(),
            Wclass::LogUniform => 10f64.powf(-12.0 + 24.0 * rng.unit()),
            Wclass::Pow2 => 2f64.powi(rng.below(41) as i32 - 20),
            Wclass::HugeTiny => {
                if i == 0 {
                    1e9
                } else {
                    1e-3 * (1.0 + rng.unit())
                }
            }
            Wclass::Extreme => 10f64.powf(-290.0 + 590.0 * rng.unit()),
        })
        .collect()
}

pub fn gen_ids(rng: &mut Sm64, n: usize) -> Vec<u64> {
    let dense = rng.below(2) == 0;
    let mut ids: Vec<u64> = Vec::new();
    let mut seen = std::collections::HashSet::new();
    while ids.len() < n {
        let x = if dense { rng.below(4 * n as u64 + 4) } else { rng.next() >> 1 };
        if x != INIT && seen.insert(x) {
            ids.push(x);
        }
    }
    ids
}

struct WSet {
    items: Vec<(u64, f64)>,
    pos: usize,
}
impl Iterator for WSet {
    type Item = u64;
    fn next(&mut self) -> Option<u64> {
        if self.pos < self.items.len() {
            self.pos += 1;
            Some(self.items[self.pos - 1].0)
        } else {
            None
        }
    }
}
impl WeightedSet for WSet {
    type Object = u64;
    fn get_weight(&self, obj: &u64) -> f64 {
        self.items.iter().find(|(i, _)| i == obj).unwrap().1
    }
}

type Res = Result<(Vec<u64>, Vec<f64>), String>;

fn pmh3_items(m: usize, items: &[(u64, f64)], nohash: bool) -> Res {
    catch(std::panic::AssertUnwindSafe(|| {
        if nohash {
            let mut h = ProbMinHash3::<u64, NoHashHasher>::new(m, INIT);
            for (i, (id, w)) in items.iter().enumerate() {
                h.hash_item(*id, w);
                if i % 3 == 0 { let _ = h.get_signature().len(); } // observers between updates (anything they cache must not go stale)
            }
            (h.get_signature().clone(), h.verif_registers())
        } else {
            let mut h = ProbMinHash3::<u64, FnvHasher>::new(m, INIT);
            for (i, (id, w)) in items.iter().enumerate() {
                h.hash_item(*id, w);
                if i % 3 == 0 { let _ = h.get_signature().clone(); let _ = h.verif_registers(); }
            }
            (h.get_signature().clone(), h.verif_registers())
        }
    }))
}

/// ProbMinHash3a over 1..n batches (IndexMap keeps the given order)
fn pmh3a_batches(m: usize, batches: &[Vec<(u64, f64)>]) -> Res {
    catch(std::panic::AssertUnwindSafe(|| {
        let mut h = ProbMinHash3a::<u64, FnvHasher>::new(m, INIT);
        for b in batches {
            let mut map: IndexMap<u64, f64> = IndexMap::new();
            for (id, w) in b {
                map.insert(*id, *w);
            }
            h.hash_weigthed_idxmap(&map);
            let _ = h.get_signature().clone(); // read between batches
        }
        (h.get_signature().clone(), h.verif_registers())
    }))
}

fn tok(id: u64, w: f64, seed: u64) -> String {
    format!("{}:{}:{}", id, fhx(w), hx(seed))
}
fn tok_sha(id: u64, w: f64) -> String {
    // the model computes the byte identity (Sig for u64), Sha512_256 and the from_seed words itself
    format!("{}:{}:sha", id, fhx(w))
}
/// item whose generator seed is the FNV hash of the id: computed by the model's own FNV-1a
fn tok_fnv(id: u64, w: f64) -> String {
    format!("{}:{}:fnv", id, fhx(w))
}

fn emit(ctx: &mut Ctx, model: &str, name: &str, r: &Res) {
    match r {
        Ok((sig, regs)) => {
            ctx.line(&format!("{} sig {}", model, name), &join(sig));
            ctx.line(&format!("{} regs {}", model, name), &join_fhx(regs));
        }
        Err(_) => {
            ctx.line(&format!("{} sig {}", model, name), "PANIC");
        }
    }
}

/// exact J_P is not needed here; oracles below are equalities
pub fn corr(ctx: &mut Ctx) {
    corr_opts(ctx, true)
}

/// `directed`: also run the directed tiny-weight cases (they probe a clause of C02 only)
pub fn corr_opts(ctx: &mut Ctx, directed: bool) {
    let ms: Vec<usize> = if ctx.quick() { vec![2, 3, 4, 7, 16, 64] } else { vec![2, 3, 4, 7, 16, 64, 257, 1024] };
    let ns: Vec<usize> = if ctx.quick() { vec![1, 2, 3, 5, 17, 64, 300] } else { vec![1, 2, 3, 5, 17, 64, 300, 2000] };
    let ncases = ctx.n(90, 1200);
    for c in 0..ncases {
        let m = ms[c as usize % ms.len()];
        let n = ns[(c as usize / ms.len()) % ns.len()];
        let wc = WCLASSES[(c as usize) % WCLASSES.len()];
        let mut rng = ctx.rng.fork();
        let ids = gen_ids(&mut rng, n);
        let ws = gen_weights(&mut rng, n, wc);
        let items: Vec<(u64, f64)> = ids.iter().cloned().zip(ws.iter().cloned()).collect();
        ctx.count(&format!("wclass={:?}", wc));
        ctx.count(&format!("m={}", m));
        ctx.count(&format!("n={}", n));

        // ---------- ProbMinHash3, item-wise, FNV and NoHash -------------------------------------
        for nohash in [false, true] {
            ctx.begin_case(&format!("pmh3 item-wise m={} n={} w={:?} nohash={}", m, n, wc, nohash));
            if n > 1 { ctx.mark_nontrivial(); }
            ctx.op(&format!("pmh3 new a {} {}", m, INIT));
            for (id, w) in &items {
                let t = if nohash { tok(*id, *w, seed_nohash(*id)) } else { tok_fnv(*id, *w) };
                ctx.op(&format!("pmh3 item a {}", t));
            }
            let r = pmh3_items(m, &items, nohash);
            emit(ctx, "pmh3", "a", &r);
        }
        let reference = pmh3_items(m, &items, false);

        // ---------- ProbMinHash3 through hash_wset / IndexMap / HashMap (same model ops, other entry point)
        {
            ctx.begin_case(&format!("pmh3 wset+idxmap+hashmap m={} n={} w={:?}", m, n, wc));
            ctx.mark_nontrivial();
            let r = catch(std::panic::AssertUnwindSafe(|| {
                let mut h = ProbMinHash3::<u64, FnvHasher>::new(m, INIT);
                let mut ws = WSet { items: items.clone(), pos: 0 };
                h.hash_wset(&mut ws);
                (h.get_signature().clone(), h.verif_registers())
            }));
            ctx.op(&format!("pmh3 new a {} {}", m, INIT));
            for (id, w) in &items { ctx.op(&format!("pmh3 item a {}", tok_fnv(*id, *w))); }
            emit(ctx, "pmh3", "a", &r);
            let mut imap: IndexMap<u64, f64> = IndexMap::new();
            let mut hmap: HashMap<u64, f64> = HashMap::new();
            for (id, w) in &items { imap.insert(*id, *w); hmap.insert(*id, *w); }
            let r = catch(std::panic::AssertUnwindSafe(|| {
                let mut h = ProbMinHash3::<u64, FnvHasher>::new(m, INIT);
                h.hash_weigthed_idxmap(&imap);
                (h.get_signature().clone(), h.verif_registers())
            }));
            emit(ctx, "pmh3", "a", &r);
            // HashMap: iteration order is the map's own; the model gets the same order
            let order: Vec<(u64, f64)> = hmap.iter().map(|(k, v)| (*k, *v)).collect();
            let r = catch(std::panic::AssertUnwindSafe(|| {
                let mut h = ProbMinHash3::<u64, FnvHasher>::new(m, INIT);
                h.hash_weigthed_hashmap(&hmap);
                (h.get_signature().clone(), h.verif_registers())
            }));
            ctx.op(&format!("pmh3 new b {} {}", m, INIT));
            for (id, w) in &order { ctx.op(&format!("pmh3 item b {}", tok_fnv(*id, *w))); }
            emit(ctx, "pmh3", "b", &r);
        }

        // ---------- ProbMinHash3a: 1..4 batches, IndexMap and HashMap ----------------------------
        let nb = 1 + (c as usize % 4);
        let mut batches: Vec<Vec<(u64, f64)>> = vec![Vec::new(); nb];
        for (i, it) in items.iter().enumerate() {
            batches[if nb == 1 { 0 } else { rng.below(nb as u64) as usize }].push(*it);
            let _ = i;
        }
        {
            ctx.begin_case(&format!("pmh3a idxmap batches={} m={} n={} w={:?}", nb, m, n, wc));
            ctx.mark_nontrivial();
            ctx.count(&format!("batches={}", nb));
            ctx.op(&format!("pmh3 new a {} {}", m, INIT));
            for b in &batches {
                let toks: Vec<String> = b.iter().map(|(id, w)| tok_fnv(*id, *w)).collect();
                ctx.op(&format!("pmh3 batch a {}", toks.join(" ")));
            }
            let r = pmh3a_batches(m, &batches);
            emit(ctx, "pmh3", "a", &r);
            // HashMap entry point
            let mut hmap: HashMap<u64, f64> = HashMap::new();
            for (id, w) in &items { hmap.insert(*id, *w); }
            let order: Vec<(u64, f64)> = hmap.iter().map(|(k, v)| (*k, *v)).collect();
            let r2 = catch(std::panic::AssertUnwindSafe(|| {
                let mut h = ProbMinHash3a::<u64, FnvHasher>::new(m, INIT);
                h.hash_weigthed_hashmap(&hmap);
                (h.get_signature().clone(), h.verif_registers())
            }));
            ctx.op(&format!("pmh3 new b {} {}", m, INIT));
            let toks: Vec<String> = order.iter().map(|(id, w)| tok_fnv(*id, *w)).collect();
            ctx.op(&format!("pmh3 batch b {}", toks.join(" ")));
            emit(ctx, "pmh3", "b", &r2);
            // oracle: 3 == 3a (registers always; signature too unless an exact tie — then registers tell)
            if let (Ok((s3, r3)), Ok((sa, ra))) = (&reference, &r) {
                if r3 != ra || s3 != sa {
                    ctx.oracle_failure(serde_json::json!({"kind":"impl_violates_property","what":"ProbMinHash3 and ProbMinHash3a differ","m":m,"n":n,"wclass":format!("{:?}",wc),"batches":nb,
                        "regs_equal": r3 == ra, "items": items.iter().take(40).map(|(i,w)| format!("{}:{}",i,fhx(*w))).collect::<Vec<_>>()}));
                }
            }
            if let (Ok((s3, r3)), Ok((sa, ra))) = (&reference, &r2) {
                if r3 != ra || s3 != sa {
                    ctx.oracle_failure(serde_json::json!({"kind":"impl_violates_property","what":"ProbMinHash3 and ProbMinHash3a(HashMap) differ","m":m,"n":n,"wclass":format!("{:?}",wc)}));
                }
            }
        }

        // ---------- ProbMinHash3aSha ---------------------------------------------------------------
        if c % 2 == 0 {
            ctx.begin_case(&format!("pmh3asha idxmap m={} n={} w={:?}", m, n, wc));
            ctx.mark_nontrivial();
            let mut imap: IndexMap<u64, f64> = IndexMap::new();
            for (id, w) in &items { imap.insert(*id, *w); }
            let r = catch(std::panic::AssertUnwindSafe(|| {
                let mut h = ProbMinHash3aSha::<u64>::new(m, INIT);
                h.hash_weigthed_idxmap(&imap);
                (h.get_signature().clone(), h.verif_registers())
            }));
            ctx.op(&format!("pmh3 new a {} {}", m, INIT));
            let toks: Vec<String> = items.iter().map(|(id, w)| tok_sha(*id, *w)).collect();
            ctx.op(&format!("pmh3 batch a {}", toks.join(" ")));
            emit(ctx, "pmh3", "a", &r);
            let mut hmap: HashMap<u64, f64> = HashMap::new();
            for (id, w) in &items { hmap.insert(*id, *w); }
            let rh = catch(std::panic::AssertUnwindSafe(|| {
                let mut h = ProbMinHash3aSha::<u64>::new(m, INIT);
                h.hash_weigthed_hashmap(&hmap);
                (h.get_signature().clone(), h.verif_registers())
            }));
            if let (Ok(a), Ok(b)) = (&r, &rh) {
                if a != b {
                    ctx.oracle_failure(serde_json::json!({"kind":"impl_violates_property","what":"ProbMinHash3aSha: IndexMap and HashMap entry points differ","m":m,"n":n,"wclass":format!("{:?}",wc)}));
                }
            }
            // the SAME sketcher object fed in several batches (the batches of the 3a case above), both containers:
            // the model gets the same batches; the result must equal the one-batch signature
            if nb > 1 {
                ctx.begin_case(&format!("pmh3asha {} batches m={} n={} w={:?}", nb, m, n, wc));
                ctx.mark_nontrivial();
                ctx.count("sha batches>1");
                let rb = catch(std::panic::AssertUnwindSafe(|| {
                    let mut h = ProbMinHash3aSha::<u64>::new(m, INIT);
                    for b in &batches {
                        let mut map: IndexMap<u64, f64> = IndexMap::new();
                        for (id, w) in b { map.insert(*id, *w); }
                        h.hash_weigthed_idxmap(&map);
                    }
                    (h.get_signature().clone(), h.verif_registers())
                }));
                ctx.op(&format!("pmh3 new a {} {}", m, INIT));
                for b in &batches {
                    let toks: Vec<String> = b.iter().map(|(id, w)| tok_sha(*id, *w)).collect();
                    ctx.op(&format!("pmh3 batch a {}", toks.join(" ")));
                }
                emit(ctx, "pmh3", "a", &rb);
                let rbh = catch(std::panic::AssertUnwindSafe(|| {
                    let mut h = ProbMinHash3aSha::<u64>::new(m, INIT);
                    for b in &batches {
                        let mut map: HashMap<u64, f64> = HashMap::new();
                        for (id, w) in b { map.insert(*id, *w); }
                        h.hash_weigthed_hashmap(&map);
                    }
                    (h.get_signature().clone(), h.verif_registers())
                }));
                for (what, other) in [("IndexMap batches", &rb), ("HashMap batches", &rbh)] {
                    match (&r, other) {
                        (Ok(a), Ok(b)) if a == b => {}
                        _ => ctx.oracle_failure(serde_json::json!({"kind":"impl_violates_property","what":format!("ProbMinHash3aSha: {} on one sketcher differ from the one-batch signature", what),"m":m,"n":n,"batches":nb,"wclass":format!("{:?}",wc),
                            "items": items.iter().take(40).map(|(i,w)| format!("{}:{}",i,fhx(*w))).collect::<Vec<_>>()})),
                    }
                }
            }
        }

        // ---------- ProbMinHash2 ---------------------------------------------------------------------
        if m <= 64 && n <= 64 || c % 5 == 0 {
            ctx.begin_case(&format!("pmh2 item-wise m={} n={} w={:?}", m, n, wc));
            ctx.mark_nontrivial();
            let run2 = |its: &[(u64, f64)]| -> Res {
                catch(std::panic::AssertUnwindSafe(|| {
                    let mut h = ProbMinHash2::<u64, FnvHasher>::new(m, INIT);
                    for (id, w) in its { h.hash_item(*id, *w); }
                    (h.get_signature().clone(), h.verif_registers())
                }))
            };
            let r = run2(&items);
            ctx.op(&format!("pmh2 new a {} {}", m, INIT));
            for (id, w) in &items { ctx.op(&format!("pmh2 item a {}", tok_fnv(*id, *w))); }
            emit(ctx, "pmh2", "a", &r);
            // oracles for variant 2: order, duplicates, HashMap entry point
            let mut perm = items.clone();
            rng.shuffle(&mut perm);
            let mut dup = perm.clone();
            for _ in 0..(1 + n / 3) { let x = *rng.pick(&items); dup.push(x); }
            let rp = run2(&perm);
            let rd = run2(&dup);
            let mut hmap: HashMap<u64, f64> = HashMap::new();
            for (id, w) in &items { hmap.insert(*id, *w); }
            let rh: Res = catch(std::panic::AssertUnwindSafe(|| {
                let mut h = ProbMinHash2::<u64, FnvHasher>::new(m, INIT);
                h.hash_weigthed_hashmap::<std::collections::hash_map::RandomState>(&hmap);
                (h.get_signature().clone(), h.verif_registers())
            }));
            for (what, other) in [("permutation", &rp), ("re-insertion of pairs", &rd), ("HashMap entry point", &rh)] {
                match (&r, other) {
                    (Ok(a), Ok(b)) if a == b => {}
                    _ => ctx.oracle_failure(serde_json::json!({"kind":"impl_violates_property","what":format!("ProbMinHash2 signature/registers change under {}", what),"m":m,"n":n,"wclass":format!("{:?}",wc),
                        "items": items.iter().take(40).map(|(i,w)| format!("{}:{}",i,fhx(*w))).collect::<Vec<_>>()})),
                }
            }
            if let Ok((sig, _)) = &r {
                if sig.iter().any(|x| !ids.contains(x)) {
                    ctx.oracle_failure(serde_json::json!({"kind":"impl_violates_property","what":"ProbMinHash2 signature holds the placeholder or a foreign item","m":m,"n":n,"wclass":format!("{:?}",wc)}));
                }
            }
        }

        // ---------- implementation-only oracles on variant 3 / 3a -------------------------------------
        ctx.note_case(&format!("oracles m={} n={} w={:?} ids[0]={}", m, n, wc, ids[0]), n > 1);
        if let Ok((sig0, regs0)) = &reference {
            let mut perm = items.clone();
            rng.shuffle(&mut perm);
            let mut dup = perm.clone();
            for _ in 0..(1 + n / 3) { let x = *rng.pick(&items); let at = rng.below(dup.len() as u64 + 1) as usize; dup.insert(at, x); }
            for (what, its) in [("permutation", &perm), ("re-insertion of pairs", &dup)] {
                match pmh3_items(m, its, false) {
                    Ok((s, r)) if &s == sig0 && &r == regs0 => {}
                    other => ctx.oracle_failure(serde_json::json!({"kind":"impl_violates_property","what":format!("ProbMinHash3 signature/registers change under {}", what),"m":m,"n":n,"wclass":format!("{:?}",wc),
                        "regs_equal": other.as_ref().map(|x| &x.1 == regs0).unwrap_or(false),
                        "items": items.iter().take(40).map(|(i,w)| format!("{}:{}",i,fhx(*w))).collect::<Vec<_>>()})),
                }
            }
            // no placeholder / foreign item
            if sig0.iter().any(|x| !ids.contains(x)) {
                ctx.oracle_failure(serde_json::json!({"kind":"impl_violates_property","what":"ProbMinHash3 signature holds the placeholder or a foreign item","m":m,"n":n,"wclass":format!("{:?}",wc)}));
            }
            // scaling by a power of two (exact in IEEE as long as nothing over/underflows)
            let k = rng.below(41) as i32 - 20;
            let scaled: Vec<(u64, f64)> = items.iter().map(|(i, w)| (*i, *w * 2f64.powi(k))).collect();
            if wc != Wclass::Extreme {
                match pmh3_items(m, &scaled, false) {
                    Ok((s, _)) if &s == sig0 => {}
                    _ => ctx.oracle_failure(serde_json::json!({"kind":"impl_violates_property","what":"ProbMinHash3 signature changes when all weights are multiplied by a power of two","m":m,"n":n,"k":k,"wclass":format!("{:?}",wc)})),
                }
            }
            // union: split items into A and B with a common part carrying equal weights
            if n >= 2 {
                let cut1 = rng.below(n as u64) as usize;
                let cut2 = cut1 + rng.below((n - cut1) as u64 + 1) as usize;
                let a: Vec<(u64, f64)> = items[..cut2].to_vec();
                let b: Vec<(u64, f64)> = items[cut1..].to_vec();
                if !a.is_empty() && !b.is_empty() {
                    if let (Ok((sa, ra)), Ok((sb, rb))) = (pmh3_items(m, &a, false), pmh3_items(m, &b, false)) {
                        for p in 0..m {
                            let okp = (sig0[p] == sa[p] && regs0[p] == ra[p]) || (sig0[p] == sb[p] && regs0[p] == rb[p]);
                            let okr = regs0[p] == ra[p].min(rb[p]);
                            if !okp || !okr {
                                ctx.oracle_failure(serde_json::json!({"kind":"impl_violates_property","what":"union position is neither A's nor B's (or register is not the min)","m":m,"n":n,"pos":p,"wclass":format!("{:?}",wc)}));
                                break;
                            }
                        }
                    }
                }
            }
        } else {
            ctx.oracle_failure(serde_json::json!({"kind":"impl_violates_property","what":"ProbMinHash3 panicked on a valid weighted set","m":m,"n":n,"wclass":format!("{:?}",wc),"msg":format!("{:?}",reference.as_ref().err())}));
        }
    }

    small_sweep(ctx);
    large_m_entry_points(ctx);
    long_streams(ctx);
    sha_key_types(ctx);
    placeholder_member(ctx);
    weight_types(ctx);
    zero_weight_entries(ctx);

    // ---------- edge: weight <= 0 ---------------------------------------------------------------------
    ctx.begin_case("pmh3 weight 0 (hash_item asserts) / pmh3a weight 0 (skipped)");
    let r = pmh3_items(4, &[(1, 1.0), (2, 0.0)], false);
    ctx.op("pmh3 new a 4 999999999999");
    ctx.op(&format!("pmh3 item a {}", tok_fnv(1, 1.0)));
    ctx.line(&format!("pmh3 item a {}", tok_fnv(2, 0.0)), if r.is_err() { "PANIC" } else { "ok" });
    let r = pmh3a_batches(4, &[vec![(1, 1.0), (2, 0.0), (3, 2.5)]]);
    ctx.op("pmh3 new b 4 999999999999");
    ctx.op(&format!("pmh3 batch b {} {} {}", tok_fnv(1, 1.0), tok_fnv(2, 0.0), tok_fnv(3, 2.5)));
    emit(ctx, "pmh3", "b", &r);
    ctx.begin_case("pmh3 nbhash < 2 asserts");
    let r = catch(|| { let _ = ProbMinHash3::<u64, FnvHasher>::new(1, INIT); });
    ctx.line("pmh3 new c 1 0", if r.is_err() { "PANIC" } else { "ok" });

    // ---------- directed: race values overflow for tiny weights (finding F9) -----------------------------
    for (w, m) in if directed { vec![(2.3e-308f64, 16usize), (1e-307, 16)] } else { vec![] } {
        ctx.note_case(&format!("tiny weight {} m={}", w, m), true);
        for variant in ["pmh3", "pmh2"] {
            let sig: Vec<u64> = if variant == "pmh3" {
                pmh3_items(m, &[(7, w)], false).map(|x| x.0).unwrap_or_default()
            } else {
                catch(std::panic::AssertUnwindSafe(|| { let mut h = ProbMinHash2::<u64, FnvHasher>::new(m, INIT); h.hash_item(7, w); h.get_signature().clone() })).unwrap_or_default()
            };
            let placeholders = sig.iter().filter(|x| **x == INIT).count();
            if placeholders > 0 || sig.is_empty() {
                ctx.oracle_failure(serde_json::json!({"kind":"impl_violates_property","key":format!("{}:single-item:w={:e}:m={}",variant,w,m),
                    "what":"placeholder survives in the signature of a non-empty set (race values overflow to inf)","placeholders":placeholders,"m":m,"w":w}));
            }
        }
    }
}


/// Maps that contain ZERO-weight entries (first, in the middle, last, several): the two-pass entry points accept them and must
/// ignore them - same signature as the map without them, for IndexMap and HashMap, ProbMinHash3a and ProbMinHash3aSha; model included
pub fn zero_weight_entries(ctx: &mut Ctx) {
    for c in 0..ctx.n(16, 160) {
        let mut rng = ctx.rng.fork();
        let m = [2usize, 8, 64, 16][c as usize % 4];
        let n = [2usize, 4, 12, 30][(c as usize / 4) % 4];
        let ids = gen_ids(&mut rng, n + 3);
        let mut items: Vec<(u64, f64)> = ids[..n].iter().enumerate().map(|(i, x)| (*x, 0.5 + (i % 6) as f64)).collect();
        let clean = items.clone();
        // zero entries at chosen ranks
        let zpos: Vec<usize> = match c % 5 { 0 => vec![0], 1 => vec![n / 2], 2 => vec![n], 3 => vec![0, n / 2 + 1, n + 2], _ => vec![1, 2] };
        for (j, zp) in zpos.iter().enumerate() { items.insert((*zp).min(items.len()), (ids[n + j], 0.0)); }
        ctx.begin_case(&format!("pmh zero-weight entries m={} n={} zeros at {:?}", m, n, zpos));
        ctx.mark_nontrivial();
        ctx.count("maps with zero-weight entries");
        let mk_i = |its: &[(u64, f64)]| { let mut mp: IndexMap<u64, f64> = IndexMap::new(); for (x, w) in its { mp.insert(*x, *w); } mp };
        let mk_h = |its: &[(u64, f64)]| { let mut mp: HashMap<u64, f64> = HashMap::new(); for (x, w) in its { mp.insert(*x, *w); } mp };
        let (iz, ic, hz) = (mk_i(&items), mk_i(&clean), mk_h(&items));
        let r3a_z: Res = catch(std::panic::AssertUnwindSafe(|| { let mut h = ProbMinHash3a::<u64, FnvHasher>::new(m, INIT); h.hash_weigthed_idxmap(&iz); (h.get_signature().clone(), h.verif_registers()) }));
        let r3a_c: Res = catch(std::panic::AssertUnwindSafe(|| { let mut h = ProbMinHash3a::<u64, FnvHasher>::new(m, INIT); h.hash_weigthed_idxmap(&ic); (h.get_signature().clone(), h.verif_registers()) }));
        let r3a_h: Res = catch(std::panic::AssertUnwindSafe(|| { let mut h = ProbMinHash3a::<u64, FnvHasher>::new(m, INIT); h.hash_weigthed_hashmap(&hz); (h.get_signature().clone(), h.verif_registers()) }));
        let rs_z: Res = catch(std::panic::AssertUnwindSafe(|| { let mut h = ProbMinHash3aSha::<u64>::new(m, INIT); h.hash_weigthed_idxmap(&iz); (h.get_signature().clone(), h.verif_registers()) }));
        let rs_c: Res = catch(std::panic::AssertUnwindSafe(|| { let mut h = ProbMinHash3aSha::<u64>::new(m, INIT); h.hash_weigthed_idxmap(&ic); (h.get_signature().clone(), h.verif_registers()) }));
        let rs_h: Res = catch(std::panic::AssertUnwindSafe(|| { let mut h = ProbMinHash3aSha::<u64>::new(m, INIT); h.hash_weigthed_hashmap(&hz); (h.get_signature().clone(), h.verif_registers()) }));
        ctx.op(&format!("pmh3 new a {} {}", m, INIT));
        ctx.op(&format!("pmh3 batch a {}", items.iter().map(|(id, w)| tok_fnv(*id, *w)).collect::<Vec<_>>().join(" ")));
        emit(ctx, "pmh3", "a", &r3a_z);
        ctx.op(&format!("pmh3 new s {} {}", m, INIT));
        ctx.op(&format!("pmh3 batch s {}", items.iter().map(|(id, w)| tok_sha(*id, *w)).collect::<Vec<_>>().join(" ")));
        emit(ctx, "pmh3", "s", &rs_z);
        let eq = |x: &Res, y: &Res| match (x, y) { (Ok(p), Ok(q)) => p.0 == q.0 && p.1.iter().map(|v| v.to_bits()).eq(q.1.iter().map(|v| v.to_bits())), _ => false };
        for (name, a, b) in [("ProbMinHash3a IndexMap: with vs without zero entries", &r3a_z, &r3a_c), ("ProbMinHash3a: IndexMap vs HashMap with zero entries", &r3a_z, &r3a_h),
                             ("ProbMinHash3aSha IndexMap: with vs without zero entries", &rs_z, &rs_c), ("ProbMinHash3aSha: IndexMap vs HashMap with zero entries", &rs_z, &rs_h)] {
            if !eq(a, b) {
                ctx.oracle_failure(serde_json::json!({"kind":"impl_violates_property","what":"zero-weight entries of a map change the signature / entry points disagree","which":name,"m":m,"zeros_at":zpos,
                    "items": items.iter().map(|(i,w)| format!("{}:{}",i,w)).collect::<Vec<_>>()}));
            }
        }
        // no position may hold a zero-weight object
        let zero_ids: Vec<u64> = items.iter().filter(|(_, w)| *w == 0.0).map(|(i, _)| *i).collect();
        for (name, r) in [("ProbMinHash3a", &r3a_z), ("ProbMinHash3aSha", &rs_z), ("ProbMinHash3a HashMap", &r3a_h), ("ProbMinHash3aSha HashMap", &rs_h)] {
            if let Ok((sig, _)) = r { if sig.iter().any(|d| zero_ids.contains(d)) {
                ctx.oracle_failure(serde_json::json!({"kind":"impl_violates_property","what":"a signature position holds an object of weight 0","variant":name,"m":m,"zeros_at":zpos}));
            } }
        }
    }
}

/// The weight TYPE of the generic entry points (`hash_item<F>`, `hash_weigthed_idxmap<_, F>`, `hash_weigthed_hashmap<_, F>`): f32, u32, u64
/// and usize weights must give the signature of the same set with the weights converted to f64 (what the model receives)
pub fn weight_types(ctx: &mut Ctx) {
    for c in 0..ctx.n(12, 120) {
        let mut rng = ctx.rng.fork();
        let m = *rng.pick(&[2usize, 4, 16, 64]);
        let n = *rng.pick(&[1usize, 3, 9, 40]);
        let ids = gen_ids(&mut rng, n);
        ctx.begin_case(&format!("pmh weight types m={} n={}", m, n));
        ctx.mark_nontrivial();
        ctx.count("weight types f32 / u32 / u64 / usize");
        macro_rules! run { ($wt:ty, $mk:expr, $name:expr) => {{
            let mk = $mk;
            let ws: Vec<$wt> = (0..ids.len()).map(|i| mk(i, &mut rng)).collect();
            let wf: Vec<f64> = ws.iter().map(|w| num::ToPrimitive::to_f64(w).unwrap()).collect();
            let items: Vec<(u64, f64)> = ids.iter().cloned().zip(wf.iter().cloned()).collect();
            let mut imap: IndexMap<u64, $wt> = IndexMap::new();
            let mut hmap: HashMap<u64, $wt> = HashMap::new();
            for (i, x) in ids.iter().enumerate() { imap.insert(*x, ws[i]); hmap.insert(*x, ws[i]); }
            let idc = ids.clone(); let wsc = ws.clone();
            let a: Res = catch(std::panic::AssertUnwindSafe(move || { let mut h = ProbMinHash3::<u64, FnvHasher>::new(m, INIT); for (i, x) in idc.iter().enumerate() { h.hash_item(*x, &wsc[i]); } (h.get_signature().clone(), h.verif_registers()) }));
            ctx.op(&format!("pmh3 new a {} {}", m, INIT));
            for (id, w) in &items { ctx.op(&format!("pmh3 item a {}", tok_fnv(*id, *w))); }
            emit(ctx, "pmh3", "a", &a);
            let outs: Vec<(&str, Res)> = vec![
                ("ProbMinHash3::hash_weigthed_idxmap", catch(std::panic::AssertUnwindSafe(|| { let mut h = ProbMinHash3::<u64, FnvHasher>::new(m, INIT); h.hash_weigthed_idxmap(&imap); (h.get_signature().clone(), h.verif_registers()) }))),
                ("ProbMinHash3::hash_weigthed_hashmap", catch(std::panic::AssertUnwindSafe(|| { let mut h = ProbMinHash3::<u64, FnvHasher>::new(m, INIT); h.hash_weigthed_hashmap(&hmap); (h.get_signature().clone(), h.verif_registers()) }))),
                ("ProbMinHash3a::hash_weigthed_idxmap", catch(std::panic::AssertUnwindSafe(|| { let mut h = ProbMinHash3a::<u64, FnvHasher>::new(m, INIT); h.hash_weigthed_idxmap(&imap); (h.get_signature().clone(), h.verif_registers()) }))),
                ("ProbMinHash3a::hash_weigthed_hashmap", catch(std::panic::AssertUnwindSafe(|| { let mut h = ProbMinHash3a::<u64, FnvHasher>::new(m, INIT); h.hash_weigthed_hashmap(&hmap); (h.get_signature().clone(), h.verif_registers()) }))),
            ];
            for (name, r) in outs.iter() {
                let same = match (&a, r) { (Ok(x), Ok(y)) => x.0 == y.0 && x.1.iter().map(|v| v.to_bits()).eq(y.1.iter().map(|v| v.to_bits())), _ => false };
                if !same {
                    ctx.oracle_failure(serde_json::json!({"kind":"impl_violates_property","what":"entry points disagree for a non-f64 weight type","weight_type":$name,"entry":name,"m":m,"n":ids.len()}));
                }
            }
            let rs: Res = catch(std::panic::AssertUnwindSafe(|| { let mut h = ProbMinHash3aSha::<u64>::new(m, INIT); h.hash_weigthed_idxmap(&imap); (h.get_signature().clone(), h.verif_registers()) }));
            ctx.op(&format!("pmh3 new s {} {}", m, INIT));
            ctx.op(&format!("pmh3 batch s {}", items.iter().map(|(id, w)| tok_sha(*id, *w)).collect::<Vec<_>>().join(" ")));
            emit(ctx, "pmh3", "s", &rs);
        }}}
        match c % 4 {
            0 => run!(f32, |i: usize, r: &mut Sm64| 0.1f32 + (i % 7) as f32 * 0.37 + (r.below(1000) as f32) * 1e-4, "f32"),
            1 => run!(u32, |i: usize, r: &mut Sm64| 1 + (i as u32 % 5) + r.below(1000) as u32, "u32"),
            2 => run!(u64, |i: usize, r: &mut Sm64| 1 + (i as u64 % 3) + (r.next() >> (10 + 5 * (i as u64 % 9))), "u64"),      // up to 2^54: beyond f64's integer precision
            _ => run!(usize, |i: usize, r: &mut Sm64| 1 + i % 4 + r.below(50) as usize, "usize"),
        }
    }
}

/// The placeholder given to `new` (e.g. 0 for numeric ids) IS a member of the weighted set - first, in the middle or last in the
/// stream. Every variant and every entry point (item-wise, hash_wset, IndexMap, HashMap) must still give the signature of the model
/// (which knows nothing special about the placeholder) and the same signature for every position of the placeholder-valued item.
pub fn placeholder_member(ctx: &mut Ctx) {
    for c in 0..ctx.n(12, 120) {
        let mut rng = ctx.rng.fork();
        let m = [2usize, 4, 16, 64][c as usize % 4];
        let n = [2usize, 3, 5, 17][(c as usize / 4) % 4];
        let init: u64 = if c % 2 == 0 { 0 } else { INIT };
        let mut ids = gen_ids(&mut rng, n);
        ids.retain(|x| *x != init);
        let pos = [0usize, ids.len() / 2, ids.len()][c as usize % 3];
        ids.insert(pos, init);
        // the placeholder-valued item is heavy in half of the cases (it should then own most positions)
        let items: Vec<(u64, f64)> = ids.iter().enumerate().map(|(i, x)| (*x, if *x == init && c % 4 < 2 { 40.0 } else { 0.5 + (i % 5) as f64 })).collect();
        ctx.begin_case(&format!("pmh placeholder is a member m={} n={} placeholder={} at={}", m, items.len(), init, pos));
        ctx.mark_nontrivial();
        ctx.count("placeholder given to new() is a member of the set");
        let mut imap: IndexMap<u64, f64> = IndexMap::new();
        let mut hmap: HashMap<u64, f64> = HashMap::new();
        for (id, w) in &items { imap.insert(*id, *w); hmap.insert(*id, *w); }
        let its = items.clone();
        let mut outs: Vec<(&str, Res)> = Vec::new();
        outs.push(("ProbMinHash3::hash_item", catch(std::panic::AssertUnwindSafe(|| { let mut h = ProbMinHash3::<u64, FnvHasher>::new(m, init); for (x, w) in &its { h.hash_item(*x, w); } (h.get_signature().clone(), h.verif_registers()) }))));
        ctx.op(&format!("pmh3 new a {} {}", m, init));
        for (id, w) in &items { ctx.op(&format!("pmh3 item a {}", tok_fnv(*id, *w))); }
        emit(ctx, "pmh3", "a", &outs[0].1);
        outs.push(("ProbMinHash3::hash_wset", catch(std::panic::AssertUnwindSafe(|| { let mut h = ProbMinHash3::<u64, FnvHasher>::new(m, init); let mut ws = WSet { items: its.clone(), pos: 0 }; h.hash_wset(&mut ws); (h.get_signature().clone(), h.verif_registers()) }))));
        outs.push(("ProbMinHash3::hash_weigthed_idxmap", catch(std::panic::AssertUnwindSafe(|| { let mut h = ProbMinHash3::<u64, FnvHasher>::new(m, init); h.hash_weigthed_idxmap(&imap); (h.get_signature().clone(), h.verif_registers()) }))));
        outs.push(("ProbMinHash3::hash_weigthed_hashmap", catch(std::panic::AssertUnwindSafe(|| { let mut h = ProbMinHash3::<u64, FnvHasher>::new(m, init); h.hash_weigthed_hashmap(&hmap); (h.get_signature().clone(), h.verif_registers()) }))));
        outs.push(("ProbMinHash3a::hash_weigthed_idxmap", catch(std::panic::AssertUnwindSafe(|| { let mut h = ProbMinHash3a::<u64, FnvHasher>::new(m, init); h.hash_weigthed_idxmap(&imap); (h.get_signature().clone(), h.verif_registers()) }))));
        outs.push(("ProbMinHash3a::hash_weigthed_hashmap", catch(std::panic::AssertUnwindSafe(|| { let mut h = ProbMinHash3a::<u64, FnvHasher>::new(m, init); h.hash_weigthed_hashmap(&hmap); (h.get_signature().clone(), h.verif_registers()) }))));
        for (name, r) in outs.iter().skip(1) {
            let same = match (&outs[0].1, r) { (Ok(a), Ok(b)) => a.0 == b.0 && a.1.iter().map(|x| x.to_bits()).eq(b.1.iter().map(|x| x.to_bits())), _ => false };
            if !same {
                ctx.oracle_failure(serde_json::json!({"kind":"impl_violates_property","what":"entry points disagree when the placeholder given to new() is a member of the set","entry":name,"m":m,"placeholder":init,
                    "items": items.iter().map(|(i,w)| format!("{}:{}",i,w)).collect::<Vec<_>>()}));
            }
        }
        // ProbMinHash3aSha (model computes the digest)
        let rs = catch(std::panic::AssertUnwindSafe(|| { let mut h = ProbMinHash3aSha::<u64>::new(m, init); h.hash_weigthed_idxmap(&imap); (h.get_signature().clone(), h.verif_registers()) }));
        ctx.op(&format!("pmh3 new s {} {}", m, init));
        ctx.op(&format!("pmh3 batch s {}", items.iter().map(|(id, w)| tok_sha(*id, *w)).collect::<Vec<_>>().join(" ")));
        emit(ctx, "pmh3", "s", &rs);
        // ProbMinHash2: item-wise (model), hash_wset, HashMap, and the reversed stream
        let mut outs2: Vec<(&str, Res)> = Vec::new();
        outs2.push(("ProbMinHash2::hash_item", catch(std::panic::AssertUnwindSafe(|| { let mut h = ProbMinHash2::<u64, FnvHasher>::new(m, init); for (x, w) in &its { h.hash_item(*x, *w); } (h.get_signature().clone(), h.verif_registers()) }))));
        ctx.op(&format!("pmh2 new a {} {}", m, init));
        for (id, w) in &items { ctx.op(&format!("pmh2 item a {}", tok_fnv(*id, *w))); }
        emit(ctx, "pmh2", "a", &outs2[0].1);
        outs2.push(("ProbMinHash2::hash_wset", catch(std::panic::AssertUnwindSafe(|| { let mut h = ProbMinHash2::<u64, FnvHasher>::new(m, init); let mut ws = WSet { items: its.clone(), pos: 0 }; h.hash_wset(&mut ws); (h.get_signature().clone(), h.verif_registers()) }))));
        outs2.push(("ProbMinHash2::hash_weigthed_hashmap", catch(std::panic::AssertUnwindSafe(|| { let mut h = ProbMinHash2::<u64, FnvHasher>::new(m, init); h.hash_weigthed_hashmap::<std::collections::hash_map::RandomState>(&hmap); (h.get_signature().clone(), h.verif_registers()) }))));
        outs2.push(("ProbMinHash2::hash_item (reversed stream)", catch(std::panic::AssertUnwindSafe(|| { let mut h = ProbMinHash2::<u64, FnvHasher>::new(m, init); for (x, w) in its.iter().rev() { h.hash_item(*x, *w); } (h.get_signature().clone(), h.verif_registers()) }))));
        for (name, r) in outs2.iter().skip(1) {
            let same = match (&outs2[0].1, r) { (Ok(a), Ok(b)) => a.0 == b.0 && a.1.iter().map(|x| x.to_bits()).eq(b.1.iter().map(|x| x.to_bits())), _ => false };
            if !same {
                ctx.oracle_failure(serde_json::json!({"kind":"impl_violates_property","what":"entry points / orders disagree when the placeholder given to new() is a member of the set","entry":name,"m":m,"placeholder":init,
                    "items": items.iter().map(|(i,w)| format!("{}:{}",i,w)).collect::<Vec<_>>()}));
            }
        }
    }
}

/// ProbMinHash3aSha over every key type with a byte identity other than u64: Vec<u8>, String, Vec<u16>, Vec<u32>, with byte lengths
/// 0 .. 130 (in particular exactly 32 = the seed length, 64 = the digest input block boundary / 2, 128 = one SHA-512 block):
/// the model computes Sig bytes, Sha512_256 and the generator seed itself (Model/Sig.lean, Model/Hashers.lean)
pub fn sha_key_types(ctx: &mut Ctx) {
    let byte_lens: Vec<usize> = if ctx.quick() { vec![0, 1, 8, 16, 31, 32, 33, 64, 128] } else { vec![0, 1, 2, 4, 7, 8, 9, 16, 24, 31, 32, 33, 48, 63, 64, 65, 111, 112, 127, 128, 129, 130] };
    for kt in ["vecu8", "string", "vecu16", "vecu32"] {
        let width = match kt { "vecu16" => 2, "vecu32" => 4, _ => 1 };
        for bl in &byte_lens {
            if bl % width != 0 { continue; }
            let nel = bl / width;
            let m = [4usize, 16][(bl / 8) % 2];
            let n = 12usize;
            ctx.begin_case(&format!("pmh3asha keys={} key_bytes={} m={}", kt, bl, m));
            ctx.mark_nontrivial();
            ctx.count(&format!("sha key type {}", kt));
            ctx.count(&format!("sha key bytes {}", bl));
            // structured keys: zero-padded counters (the interesting case for anything that skips the digest), distinct
            let mut keys: Vec<Vec<u64>> = Vec::new();
            for i in 0..n {
                let mut k: Vec<u64> = vec![if kt == "string" { 0x30 } else { 0 }; nel];
                if nel > 0 { let last = nel - 1; k[last] = if kt == "string" { 0x30 + (i as u64 % 10) } else { i as u64 }; if nel > 1 && kt == "string" { k[last - 1] = 0x30 + (i as u64 / 10); } }
                if nel == 0 && i > 0 { break; }      // only one key of length 0
                keys.push(k);
            }
            let ws: Vec<f64> = (0..keys.len()).map(|i| 0.5 + (i % 5) as f64).collect();
            let toks: Vec<String> = keys.iter().enumerate().map(|(i, k)| format!("{}:{}:{}:{}", i, fhx(ws[i]),
                match kt { "vecu16" => "shav16", "vecu32" => "shav32", _ => "shav8" },
                if k.is_empty() { "-".to_string() } else { k.iter().map(|x| x.to_string()).collect::<Vec<_>>().join(",") })).collect();
            macro_rules! run { ($t:ty, $conv:expr, $init:expr) => {{
                let conv = $conv;
                let objs: Vec<$t> = keys.iter().map(|k| conv(k)).collect();
                let mut imap: IndexMap<$t, f64> = IndexMap::new();
                for (i, o) in objs.iter().enumerate() { imap.insert(o.clone(), ws[i]); }
                catch(std::panic::AssertUnwindSafe(|| {
                    let mut h = ProbMinHash3aSha::<$t>::new(m, $init);
                    h.hash_weigthed_idxmap(&imap);
                    let sig: Vec<u64> = h.get_signature().iter().map(|d| objs.iter().position(|o| o == d).map(|p| p as u64).unwrap_or(INIT)).collect();
                    (sig, h.verif_registers())
                }))
            }}}
            let r: Res = match kt {
                "vecu8" => run!(Vec<u8>, |k: &Vec<u64>| k.iter().map(|x| *x as u8).collect::<Vec<u8>>(), vec![0xffu8; 3]),
                "string" => run!(String, |k: &Vec<u64>| k.iter().map(|x| *x as u8 as char).collect::<String>(), "\u{1}init".to_string()),
                "vecu16" => run!(Vec<u16>, |k: &Vec<u64>| k.iter().map(|x| *x as u16).collect::<Vec<u16>>(), vec![0xffffu16; 3]),
                _ => run!(Vec<u32>, |k: &Vec<u64>| k.iter().map(|x| *x as u32).collect::<Vec<u32>>(), vec![0xffff_ffffu32; 3]),
            };
            ctx.op(&format!("pmh3 new a {} {}", m, INIT));
            ctx.op(&format!("pmh3 batch a {}", toks.join(" ")));
            emit(ctx, "pmh3", "a", &r);
        }
    }
}

/// one instance receiving MORE than 2^16 (+ 2^8) items: bookkeeping that counts items, resets or generations in a
/// narrow integer shows only then; implementation only: two insertion orders (a heavy item first / at rank 2^16+1 ...)
/// on fresh instances must give the same signature and registers, item-wise ProbMinHash2 / ProbMinHash3 and one
/// ProbMinHash3a batch
pub fn long_streams(ctx: &mut Ctx) {
    let cases: Vec<(usize, usize)> = if ctx.quick() { vec![(8, 65_536 + 300), (1024, 65_536 + 2)] } else { vec![(8, 65_536 + 300), (1024, 65_536 + 2), (64, 140_000), (3, 70_000)] };
    for (m, n) in cases {
        ctx.begin_case(&format!("pmh long stream m={} n={}", m, n));
        ctx.mark_nontrivial();
        ctx.count("long stream (> 2^16 items on one instance)");
        let mut rng = ctx.rng.fork();
        let ids = gen_ids(&mut rng, n);
        // light items (they touch few slots) around two heavy ones that touch every slot
        let mut items: Vec<(u64, f64)> = ids.iter().enumerate().map(|(i, x)| (*x, 1e-6 * (1.0 + (i % 5) as f64))).collect();
        items[0].1 = 1e3;
        items[65_536].1 = 2e3;
        let mut orders: Vec<Vec<(u64, f64)>> = vec![items.clone()];
        let mut o2 = items.clone(); o2.swap(0, 65_536); orders.push(o2);
        let mut o3 = items.clone(); o3.reverse(); orders.push(o3);
        let mut o4 = items.clone(); let h = o4.remove(65_536); o4.insert(1, h); orders.push(o4);
        for variant in ["pmh2", "pmh3", "pmh3a"] {
            let mut outs: Vec<Result<(Vec<u64>, Vec<f64>), String>> = Vec::new();
            for o in &orders {
                let o = o.clone();
                outs.push(match variant {
                    "pmh2" => catch(std::panic::AssertUnwindSafe(move || { let mut h = ProbMinHash2::<u64, FnvHasher>::new(m, INIT); for (x, w) in &o { h.hash_item(*x, *w); } (h.get_signature().clone(), h.verif_registers()) })),
                    "pmh3" => catch(std::panic::AssertUnwindSafe(move || { let mut h = ProbMinHash3::<u64, FnvHasher>::new(m, INIT); for (x, w) in &o { h.hash_item(*x, w); } (h.get_signature().clone(), h.verif_registers()) })),
                    _ => catch(std::panic::AssertUnwindSafe(move || { let mut map: IndexMap<u64, f64> = IndexMap::new(); for (x, w) in &o { map.insert(*x, *w); }
                               let mut h = ProbMinHash3a::<u64, FnvHasher>::new(m, INIT); h.hash_weigthed_idxmap(&map); (h.get_signature().clone(), h.verif_registers()) })),
                });
            }
            for (i, r) in outs.iter().enumerate() {
                let same = match (&outs[0], r) { (Ok(a), Ok(b)) => a.0 == b.0 && a.1.iter().map(|x| x.to_bits()).eq(b.1.iter().map(|x| x.to_bits())), _ => false };
                if !same {
                    let which = ["as generated", "heavy items swapped", "reversed", "second heavy item moved to rank 2"][i];
                    ctx.oracle_failure(serde_json::json!({"kind":"impl_violates_property","what":"signature of a long stream (> 2^16 items on one instance) depends on the insertion order",
                        "variant":variant,"m":m,"n":n,"order":which,
                        "panic": r.as_ref().err().cloned().unwrap_or_default()}));
                    break;
                }
            }
        }
    }
}

/// many small cases with weights within a factor of two and n from m to 8m: this is where a wrong pruning
/// bound (a point dropped although it could still win a register) shows up, and only in ~1% of the cases
/// large signature lengths that are NOT powers of two: the bias-correction paths of integer range sampling are taken
/// (probability ~ m / 2^32 per slot draw, ~ m ln m draws per item), so every entry point of every variant must still agree —
/// implementation only (all entry points against ProbMinHash3 item-wise), a few items each
pub fn large_m_entry_points(ctx: &mut Ctx) {
    let ms: Vec<usize> = if ctx.quick() { vec![100_003, 65_537, 250_007] } else { vec![100_003, 65_537, 250_007, 1_000_003, 3 << 18] };
    for (ci, m) in ms.iter().enumerate() {
        let m = *m;
        let mut rng = ctx.rng.fork();
        let n = 3 + ci % 3;
        let ids = gen_ids(&mut rng, n);
        let items: Vec<(u64, f64)> = ids.iter().map(|id| (*id, 1.0 + rng.below(4) as f64 * 0.5)).collect();
        ctx.begin_case(&format!("pmh entry points at large m={} n={}", m, n));
        ctx.mark_nontrivial();
        ctx.count("large m (non power of two) entry-point agreement");
        let reference = pmh3_items(m, &items, false);
        let mut imap: IndexMap<u64, f64> = IndexMap::new();
        let mut hmap: HashMap<u64, f64> = HashMap::new();
        for (id, w) in &items { imap.insert(*id, *w); hmap.insert(*id, *w); }
        let mut results: Vec<(&str, Res)> = Vec::new();
        results.push(("ProbMinHash3::hash_weigthed_idxmap", catch(std::panic::AssertUnwindSafe(|| { let mut h = ProbMinHash3::<u64, FnvHasher>::new(m, INIT); h.hash_weigthed_idxmap(&imap); (h.get_signature().clone(), h.verif_registers()) }))));
        results.push(("ProbMinHash3::hash_weigthed_hashmap", catch(std::panic::AssertUnwindSafe(|| { let mut h = ProbMinHash3::<u64, FnvHasher>::new(m, INIT); h.hash_weigthed_hashmap(&hmap); (h.get_signature().clone(), h.verif_registers()) }))));
        results.push(("ProbMinHash3::hash_wset", catch(std::panic::AssertUnwindSafe(|| { let mut h = ProbMinHash3::<u64, FnvHasher>::new(m, INIT); let mut ws = WSet { items: items.clone(), pos: 0 }; h.hash_wset(&mut ws); (h.get_signature().clone(), h.verif_registers()) }))));
        results.push(("ProbMinHash3a::hash_weigthed_idxmap", catch(std::panic::AssertUnwindSafe(|| { let mut h = ProbMinHash3a::<u64, FnvHasher>::new(m, INIT); h.hash_weigthed_idxmap(&imap); (h.get_signature().clone(), h.verif_registers()) }))));
        results.push(("ProbMinHash3a::hash_weigthed_hashmap", catch(std::panic::AssertUnwindSafe(|| { let mut h = ProbMinHash3a::<u64, FnvHasher>::new(m, INIT); h.hash_weigthed_hashmap(&hmap); (h.get_signature().clone(), h.verif_registers()) }))));
        for (name, r) in &results {
            let same = match (&reference, r) { (Ok(a), Ok(b)) => a == b, _ => false };
            if !same {
                let ndiff = match (&reference, r) { (Ok(a), Ok(b)) => a.0.iter().zip(b.0.iter()).filter(|(x, y)| x != y).count(), _ => usize::MAX };
                ctx.oracle_failure(serde_json::json!({"kind":"impl_violates_property","what":format!("{} differs from ProbMinHash3 item-wise at a large signature length", name),"m":m,
                    "items": items.iter().map(|(i,w)| format!("{}:{}",i,w)).collect::<Vec<_>>(),"positions_differing":ndiff}));
            }
        }
        // ProbMinHash2: the two container orders must agree with item-wise streaming
        let p2 = |order: Vec<(u64, f64)>| -> Res { catch(std::panic::AssertUnwindSafe(|| { let mut h = ProbMinHash2::<u64, FnvHasher>::new(m, INIT); for (id, w) in &order { h.hash_item(*id, *w); } (h.get_signature().clone(), h.verif_registers()) })) };
        let fwd = p2(items.clone());
        let rev = p2(items.iter().rev().cloned().collect());
        let viamap: Res = catch(std::panic::AssertUnwindSafe(|| { let mut h = ProbMinHash2::<u64, FnvHasher>::new(m, INIT); h.hash_weigthed_hashmap::<std::collections::hash_map::RandomState>(&hmap); (h.get_signature().clone(), h.verif_registers()) }));
        for (name, r) in [("ProbMinHash2 reversed order", &rev), ("ProbMinHash2::hash_weigthed_hashmap", &viamap)] {
            let same = match (&fwd, r) { (Ok(a), Ok(b)) => a == b, _ => false };
            if !same {
                ctx.oracle_failure(serde_json::json!({"kind":"impl_violates_property","what":format!("{} differs from item-wise ProbMinHash2 at a large signature length", name),"m":m,
                    "items": items.iter().map(|(i,w)| format!("{}:{}",i,w)).collect::<Vec<_>>()}));
            }
        }
    }
}

pub fn small_sweep(ctx: &mut Ctx) {
    let ncases = ctx.n(2400, 30000);
    for c in 0..ncases {
        let mut rng = ctx.rng.fork();
        let m = [2usize, 3, 4, 5, 8, 16][c as usize % 6];
        let n = m + rng.below(7 * m as u64 + 1) as usize;
        let ids = gen_ids(&mut rng, n);
        let wsel = c / 6 % 3;
        let items: Vec<(u64, f64)> = ids
            .iter()
            .map(|id| (*id, match wsel { 0 => if rng.below(2) == 0 { 1.0 } else { 1.5 }, 1 => 1.0 + rng.unit(), _ => [1.0, 1.25, 1.75, 3.0][rng.below(4) as usize] }))
            .collect();
        let variant = c % 3;
        ctx.begin_case(&format!("pmh small sweep variant={} m={} n={} w={}", variant, m, n, wsel));
        ctx.mark_nontrivial();
        ctx.count(&format!("sweep variant={}", ["3", "3a", "2"][variant as usize]));
        match variant {
            0 => {
                ctx.op(&format!("pmh3 new a {} {}", m, INIT));
                for (id, w) in &items { ctx.op(&format!("pmh3 item a {}", tok_fnv(*id, *w))); }
                let r = pmh3_items(m, &items, false);
                emit(ctx, "pmh3", "a", &r);
            }
            1 => {
                let nb = 1 + rng.below(3) as usize;
                let mut batches: Vec<Vec<(u64, f64)>> = vec![Vec::new(); nb];
                for (i, it) in items.iter().enumerate() { batches[i * nb / n].push(*it); }
                ctx.op(&format!("pmh3 new a {} {}", m, INIT));
                for b in &batches {
                    let toks: Vec<String> = b.iter().map(|(id, w)| tok_fnv(*id, *w)).collect();
                    ctx.op(&format!("pmh3 batch a {}", toks.join(" ")));
                }
                let r = pmh3a_batches(m, &batches);
                emit(ctx, "pmh3", "a", &r);
                // 3 vs 3a on the implementation
                if let (Ok(a), Ok(b)) = (&r, &pmh3_items(m, &items, false)) {
                    if a != b {
                        ctx.oracle_failure(serde_json::json!({"kind":"impl_violates_property","what":"ProbMinHash3a differs from ProbMinHash3 (small sweep)","m":m,"n":n,
                          "items": items.iter().map(|(i,w)| format!("{}:{}",i,w)).collect::<Vec<_>>(), "batches": nb}));
                    }
                }
            }
            _ => {
                let r: Res = catch(std::panic::AssertUnwindSafe(|| {
                    let mut h = ProbMinHash2::<u64, FnvHasher>::new(m, INIT);
                    for (id, w) in &items { h.hash_item(*id, *w); }
                    (h.get_signature().clone(), h.verif_registers())
                }));
                ctx.op(&format!("pmh2 new a {} {}", m, INIT));
                for (id, w) in &items { ctx.op(&format!("pmh2 item a {}", tok_fnv(*id, *w))); }
                emit(ctx, "pmh2", "a", &r);
            }
        }
    }
}

//! C18: byte identities (`Sig`) — real impls vs model; Vec<u16>/Vec<u32> run in a child process
//! because a memory error there aborts the process instead of unwinding.
use crate::util::*;
use probminhash::probminhasher::sig::Sig;
use std::process::Command;

fn hexb(b: &[u8]) -> String {
    if b.is_empty() {
        return "-".to_string();
    }
    b.iter().map(|x| format!("{:02x}", x)).collect::<Vec<_>>().join("")
}

/// `pmh_harness child-sig vecu16|vecu32 n1 n2 …` : prints the bytes, then re-checks the argument is intact
/// the same VALUE with different allocation histories: exact capacity, spare capacity (never written), or
/// truncated from a longer vector (stale elements behind the end) — a faithful byte identity sees no difference
fn shaped<T: Copy>(kind: &str, exact: Vec<T>, filler: T) -> Vec<T> {
    if kind.ends_with("cap") {
        let mut v = Vec::with_capacity(2 * exact.len() + 7);
        v.extend_from_slice(&exact);
        v
    } else if kind.ends_with("trunc") {
        let mut v = exact.clone();
        for _ in 0..(exact.len() / 2 + 3) { v.push(filler); }
        v.truncate(exact.len());
        v
    } else {
        exact
    }
}

pub fn child(args: &[String]) {
    let kind = args[0].as_str();
    let nums: Vec<u64> = args[1..].iter().map(|s| s.parse().unwrap()).collect();
    match kind {
        "vecu16" | "vecu16cap" | "vecu16trunc" => {
            let v: Vec<u16> = shaped(kind, nums.iter().map(|x| *x as u16).collect(), 0xABCD);
            let s = v.get_sig();
            println!("{}", hexb(&s));
            drop(s);
            let w: Vec<u64> = v.iter().map(|x| *x as u64).collect();
            assert_eq!(w, nums);
        }
        "vecu32" | "vecu32cap" | "vecu32trunc" => {
            let v: Vec<u32> = shaped(kind, nums.iter().map(|x| *x as u32).collect(), 0xABCD_EF01);
            let s = v.get_sig();
            println!("{}", hexb(&s));
            drop(s);
            let w: Vec<u64> = v.iter().map(|x| *x as u64).collect();
            assert_eq!(w, nums);
        }
        "sha" => {
            // the call path through ProbMinHash3aSha with Vec<u16> keys
            use indexmap::IndexMap;
            let mut map: IndexMap<Vec<u16>, f64> = IndexMap::new();
            for (i, x) in nums.iter().enumerate() {
                map.insert(vec![*x as u16; 1 + i % 5], 1.0 + i as f64);
            }
            let mut h = probminhash::probminhasher::ProbMinHash3aSha::<Vec<u16>>::new(8, vec![]);
            h.hash_weigthed_idxmap(&map);
            println!("{}", h.get_signature().len());
        }
        _ => panic!("bad kind"),
    }
}

fn run_child(kind: &str, nums: &[u64]) -> String {
    let exe = std::env::current_exe().unwrap();
    let mut c = Command::new(exe);
    c.arg("child-sig").arg(kind);
    for n in nums {
        c.arg(n.to_string());
    }
    match c.output() {
        Ok(o) => {
            if o.status.success() {
                String::from_utf8_lossy(&o.stdout).lines().next().unwrap_or("").to_string()
            } else {
                format!("CRASH status={:?} first_line={}", o.status.code(), String::from_utf8_lossy(&o.stdout).lines().next().unwrap_or(""))
            }
        }
        Err(e) => format!("CRASH spawn {}", e),
    }
}

pub fn corr(ctx: &mut Ctx) {
    let nsc = ctx.n(60, 1000);
    // scalars: boundary + random
    let mut vals: Vec<u64> = vec![0, 1, 0x7f, 0x80, 0xff, 0x100, 0x7fff, 0x8000, 0xffff, 0x10000, 0x7fffffff, 0x80000000, 0xffffffff, 0x1_0000_0000, u64::MAX, 0x0123456789abcdef];
    for _ in 0..nsc {
        let r = ctx.rng.next();
        vals.push(r >> ctx.rng.below(64));
    }
    for x in &vals {
        ctx.begin_case("sig scalar");
        ctx.mark_nontrivial();
        let x = *x;
        ctx.line(&format!("sig u8 {}", x as u8), &hexb(&(x as u8).get_sig()));
        ctx.line(&format!("sig u16 {}", x as u16), &hexb(&(x as u16).get_sig()));
        ctx.line(&format!("sig u32 {}", x as u32), &hexb(&(x as u32).get_sig()));
        ctx.line(&format!("sig u64 {}", x), &hexb(&x.get_sig()));
        // i16 / i32 enter the model as their two's complement bit pattern
        ctx.line(&format!("sig u16 {}", x as u16), &hexb(&(x as u16 as i16).get_sig()));
        ctx.line(&format!("sig u32 {}", x as u32), &hexb(&(x as u32 as i32).get_sig()));
        // property oracle: exactly the native-endian bytes
        if (x as u16).get_sig() != (x as u16).to_ne_bytes().to_vec() || (x as u32).get_sig() != (x as u32).to_ne_bytes().to_vec() || x.get_sig() != x.to_ne_bytes().to_vec() {
            ctx.oracle_failure(serde_json::json!({"kind":"impl_violates_property","what":"scalar bytes are not to_ne_bytes","x":x}));
        }
    }
    ctx.count_n("scalars", vals.len() as u64);
    // strings
    let strings = ["", "a", "héllo wörld", "日本語テキスト", "\u{10FFFF}x\u{7ff}\u{800}", "a\0b"];
    for st in strings.iter() {
        ctx.begin_case("sig string");
        ctx.mark_nontrivial();
        let cps: Vec<String> = st.chars().map(|c| (c as u32).to_string()).collect();
        let got = st.to_string().get_sig();
        ctx.line(&format!("sig str {}", cps.join(" ")), &hexb(&got));
        if got != st.as_bytes() {
            ctx.oracle_failure(serde_json::json!({"kind":"impl_violates_property","what":"String bytes are not its UTF-8","s":st}));
        }
    }
    for _ in 0..ctx.n(20, 300) {
        let n = ctx.rng.below(12) as usize;
        let cps: Vec<u32> = (0..n)
            .map(|_| loop {
                let c = match ctx.rng.below(4) {
                    0 => ctx.rng.below(0x80) as u32,
                    1 => ctx.rng.below(0x800) as u32,
                    2 => ctx.rng.below(0x10000) as u32,
                    _ => ctx.rng.below(0x110000) as u32,
                };
                if char::from_u32(c).is_some() {
                    break c;
                }
            })
            .collect();
        let st: String = cps.iter().map(|c| char::from_u32(*c).unwrap()).collect();
        ctx.begin_case("sig string random");
        ctx.mark_nontrivial();
        ctx.line(&format!("sig str {}", join(&cps)), &hexb(&st.get_sig()));
    }
    // vectors
    // every length up to 34 (block boundaries of any small unrolling factor), then around powers of two
    let mut lens: Vec<usize> = (0..=34).collect();
    lens.extend_from_slice(&[47, 48, 49, 63, 64, 65, 127, 128, 129, 255, 256, 257, 300, 1024]);
    if !ctx.quick() { lens.extend_from_slice(&[4095, 4096, 4097, 20000, 65536, 65537]); }
    // long byte vectors (a length threshold above which another path is taken): Vec<u8> and String only, in process
    for n in [4096usize, 8192, 8193, 16_385, 70_001] {
        let v8: Vec<u8> = (0..n).map(|_| ctx.rng.next() as u8).collect();
        ctx.begin_case(&format!("sig long vec<u8> / String n={}", n));
        ctx.mark_nontrivial();
        ctx.count("long byte vectors");
        let s8: Vec<u64> = v8.iter().map(|x| *x as u64).collect();
        ctx.line(&format!("sig vecu8 {}", join(&s8)), &hexb(&v8.get_sig()));
        // two vectors of the same length that differ only in the middle must have different identities
        let mut w8 = v8.clone();
        w8[n / 2] ^= 0x5a;
        if v8.get_sig() == w8.get_sig() || v8.get_sig() != v8 {
            ctx.oracle_failure(serde_json::json!({"kind":"impl_violates_property","key":format!("vecu8-long:n={}",n),"what":"long Vec<u8>: identity is not the bytes themselves / two different vectors share an identity","n":n,"sig_len":v8.get_sig().len()}));
        }
        let st: String = (0..n).map(|i| (b'a' + (v8[i] % 26)) as char).collect();
        if st.get_sig() != st.as_bytes() {
            ctx.oracle_failure(serde_json::json!({"kind":"impl_violates_property","key":format!("string-long:n={}",n),"what":"long String: identity is not its UTF-8 bytes","n":n}));
        }
    }
    for (i, n) in lens.iter().enumerate() {
        let v8: Vec<u8> = (0..*n).map(|_| ctx.rng.next() as u8).collect();
        ctx.begin_case(&format!("sig vec n={}", n));
        ctx.mark_nontrivial();
        ctx.count("vector cases");
        let s8: Vec<u64> = v8.iter().map(|x| *x as u64).collect();
        ctx.line(&format!("sig vecu8 {}", join(&s8)), &hexb(&v8.get_sig()));
        ctx.line(&format!("sig vecu8 {}", join(&s8)), &hexb(&shaped("cap", v8.clone(), 0xEEu8).get_sig()));
        ctx.line(&format!("sig vecu8 {}", join(&s8)), &hexb(&shaped("trunc", v8.clone(), 0xEEu8).get_sig()));
        let v16: Vec<u64> = (0..*n).map(|j| if i % 2 == 0 { ctx.rng.next() & 0xffff } else { (j as u64 * 257 + 1) & 0xffff }).collect();
        let want: Vec<u8> = v16.iter().flat_map(|x| (*x as u16).to_ne_bytes()).collect();
        for shape in ["vecu16", "vecu16cap", "vecu16trunc"] {
            let got = run_child(shape, &v16);
            ctx.count(&format!("vector allocation history={}", &shape[6..]));
            ctx.line(&format!("sig vecu16 {}", join(&v16)), &got);
            if got != hexb(&want) {
                ctx.oracle_failure(serde_json::json!({"kind":"impl_violates_property","key":format!("{}:n={}",shape,n),"what":"Vec<u16>::get_sig: wrong bytes or memory error (child process)","allocation":shape,"n":n,"got":got.chars().take(80).collect::<String>(),"want":hexb(&want).chars().take(80).collect::<String>()}));
            }
        }
        let v32: Vec<u64> = (0..*n).map(|_| ctx.rng.next() & 0xffff_ffff).collect();
        let want: Vec<u8> = v32.iter().flat_map(|x| (*x as u32).to_ne_bytes()).collect();
        for shape in ["vecu32", "vecu32cap", "vecu32trunc"] {
            let got = run_child(shape, &v32);
            ctx.line(&format!("sig vecu32 {}", join(&v32)), &got);
            if got != hexb(&want) {
                ctx.oracle_failure(serde_json::json!({"kind":"impl_violates_property","key":format!("{}:n={}",shape,n),"what":"Vec<u32>::get_sig: wrong bytes or memory error (child process)","allocation":shape,"n":n,"got":got.chars().take(80).collect::<String>(),"want":hexb(&want).chars().take(80).collect::<String>()}));
            }
        }
    }
    // call path through ProbMinHash3aSha
    ctx.begin_case("sig through ProbMinHash3aSha<Vec<u16>>");
    let got = run_child("sha", &[3, 5, 7, 11, 13, 17, 19, 23, 29, 31]);
    if got != "8" {
        ctx.oracle_failure(serde_json::json!({"kind":"impl_violates_property","key":"sha:vecu16","what":"ProbMinHash3aSha over Vec<u16> keys crashed","got":got}));
    }
    ctx.line("sig noop", "ok");
}

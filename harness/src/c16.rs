//! C16: truncated-exponential sampler — the real `ExpRestricted01::sample` driven by a scripted RngCore
use crate::c17::Scripted;
use crate::util::*;
use probminhash::exp01::ExpRestricted01;
use rand::distr::Distribution;

pub fn corr(ctx: &mut Ctx) {
    // "every rate lambda > 0": down to rates at which exp(-lambda) rounds to 1 (lambda <= 2^-54) and the subnormal range, up to
    // rates whose exp(lambda) is near the top of the double range
    let mut lambdas: Vec<f64> = vec![1e-300, 1e-100, 1e-17, 5.5e-17, 1.5e-16, 3e-16, 1e-15, 1e-12, 1e-9, 1e-6, 0.5, std::f64::consts::LN_2, 1.0, 5.0, 30.0, 100.0, 700.0];
    let mut m = 2.0f64;
    while m < 2e6 {
        lambdas.push((m / (m - 1.0)).ln());
        m = (m * 3.7).floor();
    }
    let per = ctx.n(40, 800);
    for lam in lambdas.iter() {
        let e = ExpRestricted01::new(*lam);
        ctx.count(&format!("lambda~1e{}", lam.log10().round()));
        // directed boundary words: the generator states at which the comparisons of the sampler flip.
        // Uniform<f64> on [0,1) uses the top 52 bits k of a word: u = k / 2^52.  First test `c1*u < 1`: k around 2^52/c1;
        // second test `u < c2`: k around c2 * 2^52.  (c1, c2 recomputed here as the code computes them.)
        let c1 = lam.exp_m1() / lam;
        let c2 = (2.0 / (1.0 + (-lam).exp())).ln() / lam;
        let two52 = 4503599627370496.0f64;
        let mut directed: Vec<Vec<u64>> = Vec::new();
        let k1 = (two52 / c1) as i64;
        for d in -3i64..=3 {
            let k = (k1 + d).clamp(0, (1i64 << 52) - 1) as u64;
            directed.push(vec![k << 12]);
        }
        let k2 = (c2 * two52) as i64;
        for d in -2i64..=2 {
            let k = (k2 + d).clamp(0, (1i64 << 52) - 1) as u64;
            directed.push(vec![u64::MAX, k << 12]); // first branch rejected (c1*u >= 1), then the c2 test at its boundary
        }
        for c in 0..per + directed.len() as u64 {
            // 48 words are far more than one sample ever consumes (a Scripted overrun would panic → finding)
            let mut words: Vec<u64> = (0..48)
                .map(|i| match (c + i) % 9 {
                    0 => 0,
                    1 => u64::MAX,
                    2 => u64::MAX << 12,
                    3 => 1u64 << 63,
                    4 => (ctx.rng.next() >> 1) | (1 << 62), // upper half
                    _ => ctx.rng.next(),
                })
                .collect();
            if c >= per {
                let dwords = &directed[(c - per) as usize];
                for (i, w) in dwords.iter().enumerate() { words[i] = *w; }
                ctx.count("directed boundary words (c1*u vs 1, u vs c2)");
            }
            let mut rng = Scripted { words: words.clone(), pos: 0 };
            ctx.begin_case(&format!("exp01 lambda={:e}", lam));
            ctx.mark_nontrivial();
            let r = catch(std::panic::AssertUnwindSafe(|| e.sample(&mut rng)));
            let ws: Vec<String> = words.iter().map(|w| hx(*w)).collect();
            match r {
                Ok(x) => {
                    ctx.line(&format!("rnd exp01s {} {}", fhx(*lam), ws.join(" ")), &format!("{} {}", fhx(x), rng.pos));       // definition generated from the source
                    ctx.line(&format!("rnd exp01sh {} {}", fhx(*lam), ws.join(" ")), &format!("{} {}", fhx(x), rng.pos));      // hand-written transcription
                    ctx.count(&format!("words_consumed={}", rng.pos.min(6)));
                    if !(x >= 0.0 && x < 1.0) {
                        ctx.oracle_failure(serde_json::json!({"kind":"impl_violates_property","what":"sample outside [0,1)","lambda":lam,"x":x,"words":ws}));
                    }
                }
                Err(msg) => {
                    ctx.line(&format!("rnd exp01s {} {}", fhx(*lam), ws.join(" ")), "PANIC");
                    ctx.oracle_failure(serde_json::json!({"kind":"impl_violates_property","what":"sample panicked / consumed more than 48 words","lambda":lam,"msg":msg}));
                }
            }
        }
        // constants
        ctx.begin_case("exp01 constants");
        let mut rng = rand_xoshiro::Xoshiro256PlusPlus::seed_from_u64(7);
        use rand::SeedableRng;
        let v: Vec<f64> = (0..16).map(|_| e.sample(&mut rng)).collect();
        ctx.line(&format!("rnd exp01 {} {} 16", fhx(*lam), hx(7)), &join_fhx(&v));
        ctx.line(&format!("rnd exp01h {} {} 16", fhx(*lam), hx(7)), &join_fhx(&v));
    }
    // distribution check (implementation only): Kolmogorov–Smirnov against the target CDF
    let n = ctx.n(200_000, 2_000_000) as usize;
    for lam in [1e-200f64, 1e-17, 1.5e-16, 3e-16, 1e-12, 1e-6, std::f64::consts::LN_2, 1.0, 5.0, 30.0, 100.0, (1e6f64 / (1e6 - 1.0)).ln()] {
        use rand::SeedableRng;
        let e = ExpRestricted01::new(lam);
        let mut rng = rand_xoshiro::Xoshiro256PlusPlus::seed_from_u64(ctx.rng.next());
        let mut xs: Vec<f64> = (0..n).map(|_| e.sample(&mut rng)).collect();
        xs.sort_by(|a, b| a.partial_cmp(b).unwrap());
        let cdf = |x: f64| (-(-lam * x).exp_m1()) / (-(-lam).exp_m1());
        let mut d: f64 = 0.0;
        for (i, x) in xs.iter().enumerate() {
            let f = cdf(*x);
            d = d.max((f - i as f64 / n as f64).abs()).max(((i + 1) as f64 / n as f64 - f).abs());
        }
        let stat = d * (n as f64).sqrt();
        ctx.note_case(&format!("KS lambda={:e} n={} sqrt(n)*D={:.3}", lam, n, stat), true);
        ctx.extra.insert(format!("ks_lambda_{:e}", lam), serde_json::json!(stat));
        // P(sqrt(n) D > 2.4) ~ 2e-5 ; > 3.0 ~ 3e-8
        if stat > 3.0 {
            ctx.oracle_failure(serde_json::json!({"kind":"impl_violates_property","what":"samples do not follow (1-exp(-lambda x))/(1-exp(-lambda)) (Kolmogorov-Smirnov)","lambda":lam,"n":n,"sqrt_n_D":stat}));
        }
    }
}

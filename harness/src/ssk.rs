//! SetSketch (C04 set semantics, C05 merge/union, C06 cardinality, C13 reinit): real sketcher vs model
use crate::c04::{gen_stream, hash_with, perturb};
use crate::util::*;
use fnv::FnvHasher;
use probminhash::setsketcher::*;
use std::hash::BuildHasherDefault;

pub type S16 = SetSketcher<u16, u64, FnvHasher>;
pub type S32 = SetSketcher<u32, u64, FnvHasher>;

pub fn params_pool(rng: &mut Sm64, i: u64) -> (f64, u64, f64, u64) {
    let b = [1.001, 1.2, 2.0, 1.05][(i % 4) as usize];
    let m = [1u64, 2, 3, 16, 64, 257, 8][((i / 4) % 7) as usize];
    let a = [20.0, 5.0, 0.5][((i / 2) % 3) as usize];
    let q = match (i / 3) % 4 {
        0 => (1u64 << 16) - 2,
        1 => 30,       // tiny: registers clip at q+1
        2 => 100_000,  // above u16::MAX: overflow branch for u16 registers
        _ => 1 + rng.below(2000),
    };
    if i % 11 == 7 {
        // base so close to 1 that u16 registers SATURATE at u16::MAX (q + 1 > 65535): the overflow counter runs, sketch() still returns Ok
        return (1.0001, m, a, 1 << 17);
    }
    (b, m, a, q)
}

fn dump16(s: &S16) -> String {
    let (lk, nbmin) = s.verif_state();
    let kv: Vec<u64> = s.get_signature().iter().map(|x| *x as u64).collect();
    format!("{} | {} {} {}", join(&kv), lk as u64, nbmin, s.get_nb_overflow())
}
fn dump32(s: &S32) -> String {
    let (lk, nbmin) = s.verif_state();
    let kv: Vec<u64> = s.get_signature().iter().map(|x| *x as u64).collect();
    format!("{} | {} {} {}", join(&kv), lk as u64, nbmin, s.get_nb_overflow())
}

pub fn new16(p: (f64, u64, f64, u64)) -> S16 {
    S16::new(SetSketchParams::new(p.0, p.1, p.2, p.3), BuildHasherDefault::<FnvHasher>::default())
}
pub fn new32(p: (f64, u64, f64, u64)) -> S32 {
    S32::new(SetSketchParams::new(p.0, p.1, p.2, p.3), BuildHasherDefault::<FnvHasher>::default())
}
fn newop(name: &str, p: (f64, u64, f64, u64), imax: u64) -> String {
    format!("ssk new {} {} {} {} {} {}", name, fhx(p.0), p.1, fhx(p.2), p.3, imax)
}

/// set semantics + chunking + internal state, u16 and u32 registers
/// the same sketcher constructed two ways: `SetSketcher::default()` and `SetSketcher::new(SetSketchParams::default(), ..)` (and
/// `SetSketchParams::new` with the default values): same registers for the same items, as many registers as `get_m()` says,
/// same cardinality statistics; compared with the model at the parameters the getters report
pub fn corr_default(ctx: &mut Ctx) {
    use probminhash::setsketcher::{SetSketchParams, SetSketcher};
    for n in if ctx.quick() { vec![0usize, 5, 400] } else { vec![0usize, 1, 5, 400, 20_000] } {
        let mut rng = ctx.rng.fork();
        let items = gen_stream(&mut rng, n);
        ctx.begin_case(&format!("ssk default() vs new(default params) n={}", n));
        ctx.mark_nontrivial();
        ctx.count("SetSketcher::default() vs new(SetSketchParams::default())");
        let p = SetSketchParams::default();
        let (b, m, a, q) = (p.get_b(), p.get_m(), p.get_a(), p.get_q());
        let p2 = SetSketchParams::new(b, m, a, q);
        let dump = |s: &SetSketcher<u16, u64, FnvHasher>| { let (lk, nbmin) = s.verif_state(); let cs = s.get_cardinal_stats();
            (format!("{} | {} {} {}", join(&s.get_signature().iter().map(|x| *x as u64).collect::<Vec<_>>()), lk as u64, nbmin, s.get_nb_overflow()), format!("{} {}", fhx(cs.0), fhx(cs.1)), s.get_signature().len()) };
        let r = catch(std::panic::AssertUnwindSafe(|| {
            let mut d = SetSketcher::<u16, u64, FnvHasher>::default();
            let mut e = SetSketcher::<u16, u64, FnvHasher>::new(p, BuildHasherDefault::<FnvHasher>::default());
            let mut f = SetSketcher::<u16, u64, FnvHasher>::new(p2, BuildHasherDefault::<FnvHasher>::default());
            // set_m: parameters whose m was set after construction must behave as parameters constructed with that m
            let mut pm = SetSketchParams::new(b, 7, a, q);
            pm.set_m(m as usize);
            if pm.get_m() != m { panic!("set_m not reflected by get_m"); }
            let mut g = SetSketcher::<u16, u64, FnvHasher>::new(pm, BuildHasherDefault::<FnvHasher>::default());
            for x in &items { g.sketch(x).unwrap(); }
            if dump(&g) != { let mut h = SetSketcher::<u16, u64, FnvHasher>::new(p2, BuildHasherDefault::<FnvHasher>::default()); for x in &items { h.sketch(x).unwrap(); } dump(&h) } { panic!("parameters built with set_m behave differently"); }
            for x in &items { d.sketch(x).unwrap(); e.sketch(x).unwrap(); f.sketch(x).unwrap(); }
            (dump(&d), dump(&e), dump(&f))
        }));
        ctx.op(&newop("d", (b, m, a, q), u16::MAX as u64));
        for x in &items { ctx.op(&format!("ssk sk d {}", fnv_tok(x))); }
        match &r {
            Ok((d, e, f)) => {
                ctx.line("ssk dump d", &d.0);
                ctx.line("ssk card d", &d.1);
                if d != e || e != f || d.2 as u64 != m {
                    ctx.oracle_failure(serde_json::json!({"kind":"impl_violates_property","what":"SetSketcher::default() differs from SetSketcher::new(SetSketchParams::default(), ..) (registers, statistics or number of registers vs get_m())",
                        "n":n,"registers_default":d.2,"registers_new":e.2,"get_m":m,"cardinal_default":d.1,"cardinal_new":e.1}));
                }
            }
            Err(msg) => { ctx.line("ssk dump d", "PANIC"); ctx.oracle_failure(serde_json::json!({"kind":"impl_violates_property","what":"default-constructed SetSketcher aborted","msg":msg})); }
        }
    }
}

pub fn corr_sets(ctx: &mut Ctx) {
    corr_default(ctx);
    let ncases = ctx.n(60, 800);
    let ns = [1usize, 2, 3, 5, 17, 64, 300, 2000];
    for c in 0..ncases {
        let mut rng = ctx.rng.fork();
        let p = params_pool(&mut rng, c);
        let n = ns[(c as usize) % if ctx.quick() { 7 } else { 8 }];
        let items = gen_stream(&mut rng, n);
        let stream = if c % 2 == 0 { items.clone() } else { perturb(&mut rng, &items) };
        let u32regs = c % 3 == 2;
        ctx.begin_case(&format!("ssk {} b={} m={} a={} q={} n={}", if u32regs { "u32" } else { "u16" }, p.0, p.1, p.2, p.3, n));
        ctx.count(&format!("b={}", p.0));
        ctx.count(&format!("m={}", p.1));
        ctx.count(&format!("q={}", if p.3 == 30 { "tiny" } else if p.3 == 100_000 { "above-u16" } else { "normal" }));
        if n > 1 { ctx.mark_nontrivial(); }
        ctx.op(&newop("a", p, if u32regs { u32::MAX as u64 } else { u16::MAX as u64 }));
        for x in &stream { ctx.op(&format!("ssk sk a {}", fnv_tok(x))); }
        let chunks = 1 + (c as usize % 3).min(stream.len() - 1);
        let bounds: Vec<usize> = (0..=chunks).map(|k| k * stream.len() / chunks).collect();
        let (d, card, base, other) = if u32regs {
            let r = catch(std::panic::AssertUnwindSafe(|| {
                let mut s = new32(p);
                for k in 0..chunks { let sl = &stream[bounds[k]..bounds[k + 1]]; if !sl.is_empty() { s.sketch_slice(sl).unwrap(); } let _ = s.get_cardinal_stats(); let _ = s.get_signature().len(); let _ = s.get_low_sketch(); }
                let cs = s.get_cardinal_stats();
                (dump32(&s), format!("{} {}", fhx(cs.0), fhx(cs.1)))
            }));
            let b = catch(std::panic::AssertUnwindSafe(|| { let mut s = new32(p); for x in &items { s.sketch(x).unwrap(); } s.get_signature().iter().map(|x| *x as u64).collect::<Vec<u64>>() }));
            let pert = perturb(&mut rng, &items);
            let o = catch(std::panic::AssertUnwindSafe(|| { let mut s = new32(p); for x in &pert { s.sketch(x).unwrap(); } s.get_signature().iter().map(|x| *x as u64).collect::<Vec<u64>>() }));
            match r { Ok((d, c)) => (d, c, b, o), Err(_) => ("PANIC".into(), "PANIC".into(), b, o) }
        } else {
            let r = catch(std::panic::AssertUnwindSafe(|| {
                let mut s = new16(p);
                for k in 0..chunks { let sl = &stream[bounds[k]..bounds[k + 1]]; if !sl.is_empty() { s.sketch_slice(sl).unwrap(); } let _ = s.get_cardinal_stats(); let _ = s.get_signature().len(); let _ = s.get_low_sketch(); }
                let cs = s.get_cardinal_stats();
                (dump16(&s), format!("{} {}", fhx(cs.0), fhx(cs.1)))
            }));
            let b = catch(std::panic::AssertUnwindSafe(|| { let mut s = new16(p); for x in &items { s.sketch(x).unwrap(); } s.get_signature().iter().map(|x| *x as u64).collect::<Vec<u64>>() }));
            let pert = perturb(&mut rng, &items);
            let o = catch(std::panic::AssertUnwindSafe(|| { let mut s = new16(p); for x in &pert { s.sketch(x).unwrap(); } s.get_signature().iter().map(|x| *x as u64).collect::<Vec<u64>>() }));
            match r { Ok((d, c)) => (d, c, b, o), Err(_) => ("PANIC".into(), "PANIC".into(), b, o) }
        };
        ctx.line("ssk dump a", &d);
        ctx.line("ssk card a", &card);
        if base != other || base.is_err() {
            ctx.oracle_failure(serde_json::json!({"kind":"impl_violates_property","what":"SetSketch registers change under reordering/repetition","params":format!("{:?}",p),"n":n,"items":items.iter().take(50).collect::<Vec<_>>()}));
        }
    }
}

/// pre-hashed items through the crate's `NoHashHasher` (a documented use): hashes are chosen, in particular 0, u64::MAX
/// and other extreme values, at the head or inside a slice; slice / chunked / item-wise must agree with each other
/// and with the model (which takes the hash itself)
pub fn corr_sets_nohash(ctx: &mut Ctx) {
    use probminhash::nohasher::NoHashHasher;
    type SN16 = SetSketcher<u16, u64, NoHashHasher>;
    let mk = |p: (f64, u64, f64, u64)| SN16::new(SetSketchParams::new(p.0, p.1, p.2, p.3), BuildHasherDefault::<NoHashHasher>::default());
    let ncases = ctx.n(40, 400);
    for c in 0..ncases {
        let mut rng = ctx.rng.fork();
        let p = params_pool(&mut rng, c);
        let n = [1usize, 2, 3, 5, 17, 64][c as usize % 6];
        // items: extremes first (c % 3 == 0), extremes inside (1), random (2)
        let mut items: Vec<u64> = Vec::new();
        let ext = crate::c04::EXTREME_ITEMS;
        let mut seen = std::collections::HashSet::new();
        let push = |x: u64, items: &mut Vec<u64>, seen: &mut std::collections::HashSet<u64>| { if seen.insert(x) { items.push(x); } };
        if c % 3 == 0 { push(ext[(c as usize / 3) % ext.len()], &mut items, &mut seen); }
        // one case in four: STRUCTURED ids - small consecutive integers (hashes that differ only in their high bytes after the hasher's
        // byte swap), sharded ids (shard << 48 | local), ids sharing their low 32 / low 44 bits
        let structured = c % 4 == 3;
        let base = rng.next();
        let mut tick = 0u64;
        while items.len() < n {
            tick += 1;
            if c % 3 == 1 && items.len() == n / 2 { push(ext[(c as usize / 3) % ext.len()], &mut items, &mut seen); continue; }
            let k = tick;       // (a counter of its own: the candidate must change even when the previous one was a duplicate)
            let x = if !structured { rng.next() } else { match (c / 4) % 4 {
                0 => k + 1,                                             // 1, 2, 3, ...
                1 => ((k % 0xffff) << 48) | (base & 0xffff_ffff),       // same low 32 bits, different shard
                2 => (k << 44) | (base & 0xfff_ffff_ffff),              // same low 44 bits
                _ => ((k + 1) << 56) | (base >> 8),                     // same low 56 bits
            } };
            push(x, &mut items, &mut seen);
            if structured { let y = x.swap_bytes(); if items.len() < n { push(y, &mut items, &mut seen); } }   // and the same pattern on the hash side
        }
        if structured { ctx.count("ssk nohash structured ids (shared low bits / shards / small integers)"); }
        ctx.begin_case(&format!("ssk nohash b={} m={} n={} extreme={}", p.0, p.1, n, ["head", "inside", "none"][c as usize % 3]));
        ctx.mark_nontrivial();
        ctx.count("ssk hasher=NoHashHasher (chosen hash values)");
        ctx.op(&newop("a", p, u16::MAX as u64));
        for x in &items { ctx.op(&format!("ssk sk a {}", hx(hash_with::<NoHashHasher, u64>(x)))); }
        let dump = |s: &SN16| { let (lk, nbmin) = s.verif_state(); let kv: Vec<u64> = s.get_signature().iter().map(|x| *x as u64).collect(); format!("{} | {} {} {}", join(&kv), lk as u64, nbmin, s.get_nb_overflow()) };
        let whole = catch(std::panic::AssertUnwindSafe(|| { let mut s = mk(p); s.sketch_slice(&items).unwrap(); dump(&s) }));
        let itemwise = catch(std::panic::AssertUnwindSafe(|| { let mut s = mk(p); for x in &items { s.sketch(x).unwrap(); } dump(&s) }));
        let singles = catch(std::panic::AssertUnwindSafe(|| { let mut s = mk(p); for x in &items { s.sketch_slice(std::slice::from_ref(x)).unwrap(); } dump(&s) }));
        let cut = items.len() / 2;
        let chunked = catch(std::panic::AssertUnwindSafe(|| { let mut s = mk(p); if cut > 0 { s.sketch_slice(&items[..cut]).unwrap(); } s.sketch_slice(&items[cut..]).unwrap(); dump(&s) }));
        ctx.line("ssk dump a", itemwise.as_deref().unwrap_or("PANIC"));
        for (name, r) in [("one slice", &whole), ("one-element slices", &singles), ("two chunks", &chunked)] {
            if r != &itemwise || r.is_err() {
                ctx.oracle_failure(serde_json::json!({"kind":"impl_violates_property","what":format!("SetSketcher<NoHashHasher>: {} differs from item-wise sketch", name),"params":format!("{:?}",p),
                    "items":items.iter().take(20).map(|x| hx(*x)).collect::<Vec<_>>(),"slice":r.clone().unwrap_or("PANIC".into()).chars().take(120).collect::<String>(),"itemwise":itemwise.clone().unwrap_or("PANIC".into()).chars().take(120).collect::<String>()}));
            }
        }
    }
}

/// merge histories: chains of sketchers merged in random bracketings, further streaming after a merge,
/// parameter mismatches (state must be unchanged), reinit
pub fn corr_merge(ctx: &mut Ctx) {
    let ncases = ctx.n(60, 800);
    for c in 0..ncases {
        let mut rng = ctx.rng.fork();
        let p = params_pool(&mut rng, c);
        let k = 2 + rng.below(4) as usize;
        ctx.begin_case(&format!("ssk merge-history b={} m={} a={} q={} sketchers={}", p.0, p.1, p.2, p.3, k));
        ctx.mark_nontrivial();
        let mut sk: Vec<S16> = (0..k).map(|_| new16(p)).collect();
        let names: Vec<String> = (0..k).map(|i| format!("s{}", i)).collect();
        for nm in &names { ctx.op(&newop(nm, p, u16::MAX as u64)); }
        let usz = 40 + rng.below(400) as usize;
        let universe = gen_stream(&mut rng, usz);
        let mut sets: Vec<std::collections::BTreeSet<u64>> = vec![Default::default(); k];
        let nops = 4 + rng.below(12);
        for _ in 0..nops {
            let i = rng.below(k as u64) as usize;
            match rng.below(10) {
                0..=4 => {
                    let cnt = rng.below(60) as usize; // may be 0: empty side
                    for _ in 0..cnt {
                        let x = *rng.pick(&universe);
                        sk[i].sketch(&x).unwrap();
                        sets[i].insert(x);
                        ctx.op(&format!("ssk sk {} {}", names[i], fnv_tok(&x)));
                    }
                    ctx.count("op=sketch-run");
                }
                5..=8 => {
                    let j = rng.below(k as u64) as usize;
                    if i == j { continue; }
                    let (a, b) = if i < j { let (l, r) = sk.split_at_mut(j); (&mut l[i], &r[0]) } else { let (l, r) = sk.split_at_mut(i); (&mut r[0], &l[j]) };
                    let r = a.merge(b);
                    ctx.line(&format!("ssk merge {} {}", names[i], names[j]), if r.is_ok() { "ok" } else { "ERR" });
                    let sj = sets[j].clone();
                    sets[i].extend(sj);
                    ctx.count("op=merge");
                }
                _ => {
                    sk[i].reinit();
                    sets[i].clear();
                    ctx.op(&format!("ssk reinit {}", names[i]));
                    ctx.count("op=reinit");
                }
            }
            ctx.line(&format!("ssk dump {}", names[i]), &dump16(&sk[i]));
            // oracle: merged/streamed sketch == sketch of the union streamed into a fresh sketcher
            let mut fresh = new16(p);
            for x in &sets[i] { fresh.sketch(x).unwrap(); }
            if fresh.get_signature() != sk[i].get_signature() {
                ctx.oracle_failure(serde_json::json!({"kind":"impl_violates_property","what":"SetSketch after merge/stream history differs from the sketch of the union","params":format!("{:?}",p),"set_size":sets[i].len()}));
            }
            let minreg = sk[i].get_signature().iter().map(|x| *x as i64).min().unwrap();
            if sk[i].get_low_sketch() > minreg {
                ctx.oracle_failure(serde_json::json!({"kind":"impl_violates_property","what":"get_low_sketch exceeds the minimum register","low":sk[i].get_low_sketch(),"min":minreg,"params":format!("{:?}",p)}));
            }
        }
    }
    // union accumulators: a sketcher that only ever receives merges (never sketches an item itself), 2..4 merges
    // from sources of very different sizes (the later source may be the smaller one), optional reinit in between
    for c in 0..ctx.n(40, 400) {
        let mut rng = ctx.rng.fork();
        let p = params_pool(&mut rng, c);
        let nsrc = 2 + rng.below(3) as usize;
        ctx.begin_case(&format!("ssk merge-only accumulator b={} m={} sources={}", p.0, p.1, nsrc));
        ctx.mark_nontrivial();
        ctx.count("history=merge-only accumulator");
        let mut acc = new16(p);
        ctx.op(&newop("acc", p, u16::MAX as u64));
        let mut union: std::collections::BTreeSet<u64> = Default::default();
        let mut last_est = 0.0f64;
        for si in 0..nsrc {
            let n = match (c as usize + si) % 3 { 0 => 1 + rng.below(5) as usize, 1 => 50 + rng.below(200) as usize, _ => 2000 };
            let items = gen_stream(&mut rng, n);
            let mut src = new16(p);
            ctx.op(&newop("src", p, u16::MAX as u64));
            for x in &items { src.sketch(x).unwrap(); ctx.op(&format!("ssk sk src {}", fnv_tok(x))); }
            let r = acc.merge(&src);
            ctx.line("ssk merge acc src", if r.is_ok() { "ok" } else { "ERR" });
            ctx.line("ssk dump acc", &dump16(&acc));
            union.extend(items.iter().cloned());
            let mut fresh = new16(p);
            for x in &union { fresh.sketch(x).unwrap(); }
            if fresh.get_signature() != acc.get_signature() {
                ctx.oracle_failure(serde_json::json!({"kind":"impl_violates_property","what":"merge-only accumulator differs from the sketch of the union of its sources","params":format!("{:?}",p),"merge_number":si+1,"union_size":union.len()}));
            }
            let est = acc.get_cardinal_stats().0;
            if est < last_est {
                ctx.oracle_failure(serde_json::json!({"kind":"impl_violates_property","what":"cardinality estimate decreased when another sketch was merged in","params":format!("{:?}",p),"before":last_est,"after":est,"merge_number":si+1}));
            }
            last_est = est;
            if si + 1 < nsrc && rng.below(4) == 0 {
                acc.reinit();
                ctx.op("ssk reinit acc");
                ctx.line("ssk dump acc", &dump16(&acc));
                union.clear();
                last_est = 0.0;
            }
        }
    }
    // parameter mismatches: refused, receiver unchanged
    let base = (1.2f64, 16u64, 20.0f64, 65534u64);
    let nextf = |x: f64, k: u64| f64::from_bits(x.to_bits() + k);
    let variants: Vec<(&str, (f64, u64, f64, u64), bool)> = vec![
        ("same", base, true),
        ("b+1ulp", (nextf(base.0, 1), base.1, base.2, base.3), false),
        ("b+2ulp", (nextf(base.0, 2), base.1, base.2, base.3), false),
        ("b+1e-9", (base.0 + 1e-9, base.1, base.2, base.3), false),
        ("a+1ulp", (base.0, base.1, nextf(base.2, 1), base.3), false),
        ("a-1ulp", (base.0, base.1, f64::from_bits(base.2.to_bits() - 1), base.3), false),
        ("a+1e-9", (base.0, base.1, base.2 + 1e-9, base.3), false),
        ("m+1", (base.0, base.1 + 1, base.2, base.3), false),
        ("m-1", (base.0, base.1 - 1, base.2, base.3), false),
        ("q+1", (base.0, base.1, base.2, base.3 + 1), false),
        ("q-1", (base.0, base.1, base.2, base.3 - 1), false),
    ];
    for (name, pv, _expect_ok) in variants {
        ctx.begin_case(&format!("ssk merge param mismatch {}", name));
        ctx.mark_nontrivial();
        let mut a = new16(base);
        let mut b = new16(pv);
        ctx.op(&newop("x", base, u16::MAX as u64));
        ctx.op(&newop("y", pv, u16::MAX as u64));
        for x in 0..50u64 { a.sketch(&x).unwrap(); ctx.op(&format!("ssk sk x {}", fnv_tok(&x))); }
        for x in 30..90u64 { b.sketch(&x).unwrap(); ctx.op(&format!("ssk sk y {}", fnv_tok(&x))); }
        let before = dump16(&a);
        let r = a.merge(&b);
        ctx.line("ssk merge x y", if r.is_ok() { "ok" } else { "ERR" });
        ctx.line("ssk dump x", &dump16(&a));
        let differ = pv.1 != base.1 || pv.3 != base.3 || ((base.0 - pv.0).abs() / base.0 >= f64::EPSILON) || ((base.2 - pv.2).abs() / base.2 >= f64::EPSILON);
        if r.is_err() && dump16(&a) != before {
            ctx.oracle_failure(serde_json::json!({"kind":"impl_violates_property","what":"refused merge changed the receiver","variant":name}));
        }
        if r.is_ok() == differ {
            ctx.oracle_failure(serde_json::json!({"kind":"impl_violates_property","what":"merge accepted/refused against the parameter rule","variant":name,"accepted":r.is_ok()}));
        }
    }
}

//! C14: similarity estimators — six counting entry points and the SetSketch MLE
use crate::util::*;
use fnv::FnvHasher;
use probminhash::jaccard;
use probminhash::setsketcher::*;
use probminhash::superminhasher;
use probminhash::superminhasher2;
use std::hash::BuildHasherDefault;

fn expect_err(ctx: &mut Ctx, name: &str, want_panic: bool, got: &Result<Result<String, String>, String>, a: &[u64], b: &[u64]) {
    // mismatch must be *reported*: Err for the Result-returning entry points, panic for the assert_eq! ones
    let ok = match got {
        Err(_) => want_panic,
        Ok(Err(_)) => !want_panic,
        Ok(Ok(_)) => false,
    };
    if !ok {
        ctx.oracle_failure(serde_json::json!({"kind":"impl_violates_property","what":format!("{}: length mismatch not reported as expected", name),"a_len":a.len(),"b_len":b.len(),"got":format!("{:?}",got)}));
    }
}

pub fn counting(ctx: &mut Ctx) {
    let ncases = ctx.n(300, 5000);
    for c in 0..ncases {
        let n = match c % 6 {
            0 => 1,
            1 => 2,
            2 => 7,
            3 => 64,
            _ => 1 + ctx.rng.below(300) as usize,
        };
        let mismatch = c % 5 == 4;
        let nb = if mismatch { (n + 1 + ctx.rng.below(3) as usize).saturating_sub(ctx.rng.below(2) as usize * 2).max(if n == 1 { 2 } else { 1 }) } else { n };
        let nb = if mismatch && nb == n { n + 1 } else { nb };
        // values from a small pool so that equal positions are frequent; pool entries are exactly representable floats
        let pool = 1 + ctx.rng.below(4);
        // (one case in three draws from a pool that contains 0: a value some code might take for "unset")
        let lo = if c % 3 == 2 { 0 } else { 1 };
        let a: Vec<u64> = (0..n).map(|_| lo + ctx.rng.below(pool)).collect();
        let mut b: Vec<u64> = (0..nb).map(|_| lo + ctx.rng.below(pool)).collect();
        if c % 7 == 0 && !mismatch {
            b = a.clone();
        }
        ctx.begin_case(&format!("jac count n={} nb={} pool={}", n, nb, pool));
        ctx.count(if mismatch { "length mismatch" } else { "equal length" });
        if n > 1 {
            ctx.mark_nontrivial();
        }
        let sa = join(&a);
        let sb = join(&b);
        let truth = if !mismatch { Some(a.iter().zip(b.iter()).filter(|(x, y)| x == y).count() as f64 / n as f64) } else { None };
        let af: Vec<f64> = a.iter().map(|x| *x as f64 + 0.25).collect();
        let bf: Vec<f64> = b.iter().map(|x| *x as f64 + 0.25).collect();
        let af32: Vec<f32> = a.iter().map(|x| *x as f32 + 0.5).collect();
        let bf32: Vec<f32> = b.iter().map(|x| *x as f32 + 0.5).collect();
        let au32: Vec<u32> = a.iter().map(|x| *x as u32).collect();
        let bu32: Vec<u32> = b.iter().map(|x| *x as u32).collect();
        // (name, wants panic on mismatch, result) ; every f64 result goes to the same model op
        let mut results: Vec<(&str, bool, Result<Result<String, String>, String>)> = Vec::new();
        results.push(("jaccard::compute_probminhash_jaccard<u64>", true, catch(|| Ok::<String, String>(fhx(jaccard::compute_probminhash_jaccard(&a, &b))))));
        results.push(("jaccard::get_jaccard_index_estimate<f64>", true, catch(|| jaccard::get_jaccard_index_estimate(&af, &bf).map(fhx).map_err(|e| e.to_string()))));
        results.push(("superminhasher::compute_superminhash_jaccard<f64>", false, catch(|| superminhasher::compute_superminhash_jaccard(&af, &bf).map(fhx).map_err(|e| e.to_string()))));
        results.push(("superminhasher::get_jaccard_index_estimate<f64>", false, catch(|| superminhasher::get_jaccard_index_estimate(&af, &bf).map(fhx).map_err(|e| e.to_string()))));
        for (name, wp, r) in results.iter() {
            let txt = match r {
                Ok(Ok(v)) => v.clone(),
                _ => "ERR".to_string(),
            };
            ctx.line(&format!("jac f64 {} | {}", sa, sb), &txt);
            if mismatch {
                expect_err(ctx, name, *wp, r, &a, &b);
            } else if let Some(t) = truth {
                if txt != fhx(t) {
                    ctx.oracle_failure(serde_json::json!({"kind":"impl_violates_property","what":format!("{}: not count/len", name),"a":a,"b":b,"got":txt,"want":fhx(t)}));
                }
            }
        }
        // f32-valued: superminhasher::compute_superminhash_jaccard::<f32> (F quotient) and superminhasher2 (f32 quotient)
        let r = catch(|| superminhasher::compute_superminhash_jaccard(&af32, &bf32).map(f32hx).map_err(|e| e.to_string()));
        let txt = match &r { Ok(Ok(v)) => v.clone(), _ => "ERR".to_string() };
        ctx.line(&format!("jac f32 {} | {}", sa, sb), &txt);
        if mismatch { expect_err(ctx, "superminhasher::compute_superminhash_jaccard<f32>", false, &r, &a, &b); }
        if let Some(_) = truth {
            let t = f32hx(a.iter().zip(b.iter()).filter(|(x, y)| x == y).count() as f32 / n as f32);
            if txt != t {
                ctx.oracle_failure(serde_json::json!({"kind":"impl_violates_property","what":"superminhasher::compute_superminhash_jaccard<f32>: not count/len (f32)","a":a,"b":b,"got":txt,"want":t}));
            }
        }
        let r = catch(|| superminhasher2::compute_superminhash_jaccard(&a, &b).map(f32hx).map_err(|_| "err".to_string()));
        let txt = match &r { Ok(Ok(v)) => v.clone(), _ => "ERR".to_string() };
        ctx.line(&format!("jac f32 {} | {}", sa, sb), &txt);
        if mismatch { expect_err(ctx, "superminhasher2::compute_superminhash_jaccard<u64>", false, &r, &a, &b); }
        // single precision entry points: exactly the correctly rounded quotient count / length
        let truth32 = truth.map(|_| f32hx(a.iter().zip(b.iter()).filter(|(x, y)| x == y).count() as f32 / n as f32));
        if let Some(t) = &truth32 {
            if &txt != t {
                ctx.oracle_failure(serde_json::json!({"kind":"impl_violates_property","what":"superminhasher2::compute_superminhash_jaccard<u64>: not count/len (f32)","a":a,"b":b,"got":txt,"want":t}));
            }
        }
        let r = catch(|| superminhasher2::get_jaccard_index_estimate(&au32, &bu32).map(f32hx).map_err(|_| "err".to_string()));
        let txt = match &r { Ok(Ok(v)) => v.clone(), _ => "ERR".to_string() };
        ctx.line(&format!("jac f32 {} | {}", sa, sb), &txt);
        if mismatch { expect_err(ctx, "superminhasher2::get_jaccard_index_estimate<u32>", false, &r, &a, &b); }
        if let Some(t) = &truth32 {
            if &txt != t {
                ctx.oracle_failure(serde_json::json!({"kind":"impl_violates_property","what":"superminhasher2::get_jaccard_index_estimate<u32>: not count/len (f32)","a":a,"b":b,"got":txt,"want":t}));
            }
        }
        // near ties and non-finite values: positions are equal only if the VALUES are equal (1 ulp apart is different,
        // inf equals inf); NaN and signed zeros are avoided because `==` and bit equality differ there
        if !mismatch {
            let near = [0.75f64, f64::from_bits(0.75f64.to_bits() + 1), f64::from_bits(0.75f64.to_bits() - 1), f64::INFINITY,
                        0.75 + 2.0 * f64::EPSILON, 1.0 - f64::EPSILON / 2.0, 1.0, 5e-324, 63.99999999999999, 64.0];
            let uf: Vec<f64> = a.iter().enumerate().map(|(i, x)| near[(*x as usize + i) % near.len()]).collect();
            let vf: Vec<f64> = b.iter().enumerate().map(|(i, x)| near[(*x as usize + i + (i % 3 == 0) as usize) % near.len()]).collect();
            let t = uf.iter().zip(vf.iter()).filter(|(x, y)| x == y).count() as f64 / n as f64;
            let ub: Vec<u64> = uf.iter().map(|x| x.to_bits()).collect();
            let vb: Vec<u64> = vf.iter().map(|x| x.to_bits()).collect();
            ctx.count("near-tie / inf vectors");
            for (name, r) in [
                ("jaccard::get_jaccard_index_estimate<f64> (near ties)", catch(|| jaccard::get_jaccard_index_estimate(&uf, &vf).map(fhx).map_err(|e| e.to_string()))),
                ("superminhasher::compute_superminhash_jaccard<f64> (near ties)", catch(|| superminhasher::compute_superminhash_jaccard(&uf, &vf).map(fhx).map_err(|e| e.to_string()))),
                ("superminhasher::get_jaccard_index_estimate<f64> (near ties)", catch(|| superminhasher::get_jaccard_index_estimate(&uf, &vf).map(fhx).map_err(|e| e.to_string()))),
            ] {
                let txt = match &r { Ok(Ok(v)) => v.clone(), _ => "ERR".to_string() };
                ctx.line(&format!("jac f64 {} | {}", join(&ub), join(&vb)), &txt);
                if txt != fhx(t) {
                    ctx.oracle_failure(serde_json::json!({"kind":"impl_violates_property","what":format!("{}: not count/len", name),"a_bits":ub,"b_bits":vb,"got":txt,"want":fhx(t)}));
                }
            }
            let near32 = [0.75f32, f32::from_bits(0.75f32.to_bits() + 1), f32::from_bits(0.75f32.to_bits() - 1), f32::INFINITY, 1.0 - f32::EPSILON / 2.0, 1.0, 1e-45];
            let uf32: Vec<f32> = a.iter().enumerate().map(|(i, x)| near32[(*x as usize + i) % near32.len()]).collect();
            let vf32: Vec<f32> = b.iter().enumerate().map(|(i, x)| near32[(*x as usize + i + (i % 3 == 0) as usize) % near32.len()]).collect();
            let t32 = uf32.iter().zip(vf32.iter()).filter(|(x, y)| x == y).count() as f32 / n as f32;
            let r = catch(|| superminhasher::compute_superminhash_jaccard(&uf32, &vf32).map(f32hx).map_err(|e| e.to_string()));
            let txt = match &r { Ok(Ok(v)) => v.clone(), _ => "ERR".to_string() };
            if txt != f32hx(t32) {
                ctx.oracle_failure(serde_json::json!({"kind":"impl_violates_property","what":"superminhasher::compute_superminhash_jaccard<f32> (near ties): not count/len","got":txt,"want":f32hx(t32),"n":n}));
            }
        }
        // ALIASED arguments: the two slices are views of ONE buffer - a prefix of it (unequal lengths: must be reported), the
        // buffer twice (1), two overlapping windows (count/len as usual). Identity or pointer shortcuts show only here.
        if c % 4 == 1 && n >= 2 {
            ctx.count("aliased arguments (views of one buffer)");
            let buf: Vec<u64> = a.iter().cloned().chain(std::iter::once(a[0])).collect();           // n + 1 values
            let buff: Vec<f64> = buf.iter().map(|x| *x as f64 + 0.25).collect();
            let k = 1 + (c as usize % (n - 1).max(1));
            // (1) prefix of the same buffer, both argument orders: unequal lengths
            for flip in [false, true] {
                let (x, y): (&[u64], &[u64]) = if flip { (&buf[..k], &buf[..n]) } else { (&buf[..n], &buf[..k]) };
                let (xf, yf): (&[f64], &[f64]) = if flip { (&buff[..k], &buff[..n]) } else { (&buff[..n], &buff[..k]) };
                if x.len() == y.len() { continue; }
                let rs: Vec<(&str, bool, Result<Result<String, String>, String>)> = vec![
                    ("jaccard::compute_probminhash_jaccard (prefix of the same buffer)", true, catch(|| Ok::<String, String>(fhx(jaccard::compute_probminhash_jaccard(x, y))))),
                    ("jaccard::get_jaccard_index_estimate (prefix of the same buffer)", true, catch(|| jaccard::get_jaccard_index_estimate(xf, yf).map(fhx).map_err(|e| e.to_string()))),
                    ("superminhasher::compute_superminhash_jaccard (prefix of the same buffer)", false, catch(|| superminhasher::compute_superminhash_jaccard(xf, yf).map(fhx).map_err(|e| e.to_string()))),
                    ("superminhasher::get_jaccard_index_estimate (prefix of the same buffer)", false, catch(|| superminhasher::get_jaccard_index_estimate(xf, yf).map(fhx).map_err(|e| e.to_string()))),
                ];
                for (name, wp, r) in rs.iter() { expect_err(ctx, name, *wp, r, &x.to_vec(), &y.to_vec()); }
            }
            // (2) the same slice twice -> exactly 1 ; (3) overlapping windows -> count/len
            let w1 = &buf[..n]; let w2 = &buf[1..n + 1];
            let (w1f, w2f) = (&buff[..n], &buff[1..n + 1]);
            let want_ov = fhx(w1.iter().zip(w2.iter()).filter(|(p, q)| p == q).count() as f64 / n as f64);
            for (name, got, want) in [
                ("compute_probminhash_jaccard(x, x)", catch(|| fhx(jaccard::compute_probminhash_jaccard(w1, w1))), fhx(1.0)),
                ("superminhasher::get_jaccard_index_estimate(x, x)", catch(|| superminhasher::get_jaccard_index_estimate(w1f, w1f).map(fhx).unwrap_or("ERR".into())), fhx(1.0)),
                ("compute_probminhash_jaccard(overlapping windows)", catch(|| fhx(jaccard::compute_probminhash_jaccard(w1, w2))), want_ov.clone()),
                ("jaccard::get_jaccard_index_estimate(overlapping windows)", catch(|| jaccard::get_jaccard_index_estimate(w1f, w2f).map(fhx).unwrap_or("ERR".into())), want_ov.clone()),
                ("superminhasher::compute_superminhash_jaccard(overlapping windows)", catch(|| superminhasher::compute_superminhash_jaccard(w1f, w2f).map(fhx).unwrap_or("ERR".into())), want_ov.clone()),
            ] {
                if got.as_ref().ok() != Some(&want) {
                    ctx.oracle_failure(serde_json::json!({"kind":"impl_violates_property","what":format!("{}: not count/len on aliased arguments", name),"n":n,"got":format!("{:?}",got),"want":want}));
                }
            }
        }
        // methods on sketchers: SuperMinHash::get_jaccard_index_estimate(&self, other) / SuperMinHash2
        if c % 3 == 0 {
            // sketch sizes for which count/len is (mostly) not representable in f32, besides 1 and the dyadic 64
            let n = [3usize, 7, 70, 300, 1, 64, 41, 1000][(c as usize / 3) % 8];
            let bh = BuildHasherDefault::<FnvHasher>::default();
            let mut s = superminhasher::SuperMinHash::<f64, u64, FnvHasher>::new(n, bh);
            for x in 0..5u64 {
                s.sketch(&x).unwrap();
            }
            let own: Vec<f64> = s.get_hsketch().clone();
            let mut other = own.clone();
            if mismatch {
                if c % 2 == 0 { other.push(0.5); } else if other.len() > 1 { other.pop(); } else { other.push(0.5); other.push(0.25); }
            } else if n > 1 {
                other[0] = -1.0;
                for i in (1..other.len()).step_by(2) { other[i] = f64::from_bits(other[i].to_bits() + 1); } // 1 ulp away: not equal
            }
            let r = catch(std::panic::AssertUnwindSafe(|| s.get_jaccard_index_estimate(&other).map(fhx).map_err(|e| e.to_string())));
            let own_bits: Vec<u64> = own.iter().map(|x| x.to_bits()).collect();
            let other_bits: Vec<u64> = other.iter().map(|x| x.to_bits()).collect();
            let txt = match &r { Ok(Ok(v)) => v.clone(), _ => "ERR".to_string() };
            ctx.line(&format!("jac f64 {} | {}", join(&own_bits), join(&other_bits)), &txt);
            if mismatch { expect_err(ctx, "SuperMinHash::get_jaccard_index_estimate", false, &r, &own_bits, &other_bits); }
            // the same method on the f32 instantiation: the result is an f64 and must be the f64 quotient count/len (not an f32 quotient widened)
            {
                let bh = BuildHasherDefault::<FnvHasher>::default();
                let mut s = superminhasher::SuperMinHash::<f32, u64, FnvHasher>::new(n, bh);
                for x in 0..5u64 { s.sketch(&x).unwrap(); }
                let own: Vec<f32> = s.get_hsketch().clone();
                let mut other = own.clone();
                if mismatch {
                    if c % 2 == 0 { other.push(0.5); } else if other.len() > 1 { other.pop(); } else { other.push(0.5); other.push(0.25); }
                } else if n > 1 {
                    other[0] = -1.0;
                    for i in (1..other.len()).step_by(3) { other[i] = f32::from_bits(other[i].to_bits() + 1); }
                }
                let r = catch(std::panic::AssertUnwindSafe(|| s.get_jaccard_index_estimate(&other).map(fhx).map_err(|e| e.to_string())));
                let own_bits: Vec<u64> = own.iter().map(|x| x.to_bits() as u64).collect();
                let other_bits: Vec<u64> = other.iter().map(|x| x.to_bits() as u64).collect();
                let txt = match &r { Ok(Ok(v)) => v.clone(), _ => "ERR".to_string() };
                ctx.line(&format!("jac f64 {} | {}", join(&own_bits), join(&other_bits)), &txt);
                if mismatch { expect_err(ctx, "SuperMinHash<f32>::get_jaccard_index_estimate", false, &r, &own_bits, &other_bits); }
                else {
                    let cnt = own.iter().zip(other.iter()).filter(|(a, b)| a == b).count();
                    let want = fhx(cnt as f64 / own.len() as f64);
                    if txt != want {
                        ctx.oracle_failure(serde_json::json!({"kind":"impl_violates_property","what":"SuperMinHash<f32>::get_jaccard_index_estimate is not (equal positions)/(length) as an f64 quotient","len":own.len(),"equal":cnt,"got":txt,"want":want}));
                    }
                }
            }
            let bh = BuildHasherDefault::<FnvHasher>::default();
            let mut s2 = superminhasher2::SuperMinHash2::<u64, u64, FnvHasher>::new(n, bh);
            for x in 0..5u64 {
                s2.sketch(&x).unwrap();
            }
            let own: Vec<u64> = s2.get_hsketch().clone();
            let mut other = own.clone();
            if mismatch {
                // both directions: `other` shorter and `other` longer than the sketcher's own sketch
                if c % 2 == 0 { other.pop(); if !other.is_empty() { other.pop(); } } else { other.push(17); other.push(own[0]); }
            } else {
                other[n - 1] ^= 1;
            }
            let r = catch(std::panic::AssertUnwindSafe(|| s2.get_jaccard_index_estimate(&other).map(fhx).map_err(|_| "err".to_string())));
            let txt = match &r { Ok(Ok(v)) => v.clone(), _ => "ERR".to_string() };
            ctx.line(&format!("jac f64 {} | {}", join(&own), join(&other)), &txt);
            if mismatch { expect_err(ctx, "SuperMinHash2::get_jaccard_index_estimate", false, &r, &own, &other); }
            // the other way round: a sketcher of the other length against this sketch
            if mismatch {
                let mut s3 = superminhasher2::SuperMinHash2::<u64, u64, FnvHasher>::new(other.len().max(1), BuildHasherDefault::<FnvHasher>::default());
                for x in 0..5u64 { s3.sketch(&x).unwrap(); }
                let own3: Vec<u64> = s3.get_hsketch().clone();
                let r = catch(std::panic::AssertUnwindSafe(|| s3.get_jaccard_index_estimate(&own).map(fhx).map_err(|_| "err".to_string())));
                let txt = match &r { Ok(Ok(v)) => v.clone(), _ => "ERR".to_string() };
                ctx.line(&format!("jac f64 {} | {}", join(&own3), join(&own)), &txt);
                if own3.len() != own.len() { expect_err(ctx, "SuperMinHash2::get_jaccard_index_estimate (reverse)", false, &r, &own3, &own); }
            }
        }
        // symmetry / identity / range on the implementation
        if !mismatch {
            let x = jaccard::compute_probminhash_jaccard(&a, &b);
            let y = jaccard::compute_probminhash_jaccard(&b, &a);
            let z = jaccard::compute_probminhash_jaccard(&a, &a);
            if x != y || z != 1.0 || !(0.0..=1.0).contains(&x) {
                ctx.oracle_failure(serde_json::json!({"kind":"impl_violates_property","what":"symmetry/identity/range","a":a,"b":b,"ab":x,"ba":y,"aa":z}));
            }
        }
    }
}

type Ssk = SetSketcher<u16, u64, FnvHasher>;

fn build(params: SetSketchParams, items: impl Iterator<Item = u64>) -> Ssk {
    let mut s = Ssk::new(params, BuildHasherDefault::<FnvHasher>::default());
    for x in items {
        s.sketch(&x).unwrap();
    }
    s
}

pub fn mle(ctx: &mut Ctx) {
    // deterministic reduction order inside get_cardinal_estimate
    let _ = rayon::ThreadPoolBuilder::new().num_threads(1).build_global();
    let bs = [1.001f64, 1.2, 1.5, 2.0];
    let ms: Vec<u64> = if ctx.quick() { vec![64, 256] } else { vec![64, 256, 1024, 4096] };
    // (|A only|, |B only|, |common|)
    let mut shapes: Vec<(u64, u64, u64, &str)> = vec![
        (0, 0, 1000, "identical"),
        (1000, 1000, 0, "disjoint"),
        (0, 1000, 1000, "nested 1:2"),
        (0, 9000, 1000, "nested 1:10"),
        (500, 500, 500, "overlap"),
        (0, 0, 1, "identical singletons"),
        (1, 1, 0, "disjoint singletons"),
        (0, 99_000, 1000, "nested 1:100"),
        (30, 3000, 300, "unequal overlap"),
        // sketches of empty sets (all registers 0: a fresh or reinitialised sketcher) and of sets too small to raise many registers
        (0, 0, 0, "both empty"),
        (0, 1000, 0, "one empty, one of 1000"),
        (0, 1, 0, "one empty, one singleton"),
        (2, 3, 0, "tiny disjoint"),
    ];
    if !ctx.quick() {
        shapes.push((0, 999_000, 1000, "nested 1:1000"));
        shapes.push((100_000, 100_000, 100_000, "large overlap"));
    }
    for b in bs {
        for &m in &ms {
            for (ao, bo, co, name) in shapes.iter() {
                let params = SetSketchParams::new(b, m, 20., (1u64 << 16) - 2);
                let base = ctx.rng.next() >> 8;
                let sa = build(params, (0..*co).chain(*co..*co + *ao).map(|x| base + x));
                let sb = build(params, (0..*co).chain(*co + *ao..*co + *ao + *bo).map(|x| base + x));
                let s1: Vec<u16> = sa.get_signature().clone();
                let s2: Vec<u16> = sb.get_signature().clone();
                let mlej = MleJaccard::from(params);
                let c1 = mlej.get_cardinal_estimate(&s1);
                let c2 = mlej.get_cardinal_estimate(&s2);
                ctx.begin_case(&format!("mle b={} m={} {}", b, m, name));
                ctx.mark_nontrivial();
                ctx.count(&format!("b={}", b));
                ctx.count(&format!("shape={}", name));
                let r = catch(std::panic::AssertUnwindSafe(|| mlej.get_mle(&s1, &s2)));
                let bsup = (c1 / c2).min(c2 / c1);
                let txt = match &r {
                    Ok(Some(v)) => fhx(*v),
                    Ok(None) => "NONE".to_string(),
                    Err(_) => "PANIC".to_string(),
                };
                let n1: Vec<u64> = s1.iter().map(|x| *x as u64).collect();
                let n2: Vec<u64> = s2.iter().map(|x| *x as u64).collect();
                ctx.line(&format!("jac mle {} {} {} {} | {} | {}", fhx(b), m, fhx(c1), fhx(c2), join(&n1), join(&n2)), &match &r { Err(_) => "ERR".to_string(), _ => txt.clone() });
                let good = match &r {
                    Ok(Some(v)) => v.is_finite() && *v >= 0.0 && *v <= 1.0 && *v <= bsup * (1.0 + 1e-9),
                    _ => false,
                };
                if !good {
                    let dequal = s1.iter().zip(s2.iter()).filter(|(x, y)| x == y).count();
                    ctx.oracle_failure(serde_json::json!({"kind":"impl_violates_property","key":format!("mle:b={}:m={}:{}",b,m,name),
                      "what":"get_mle aborted or returned no finite value in [0,1]","b":b,"m":m,"shape":name,"result":txt,
                      "start_dequal_over_m": dequal as f64 / m as f64, "bracket_top": bsup, "panic": format!("{:?}", r.as_ref().err())}));
                }
            }
        }
    }
}

pub fn corr(ctx: &mut Ctx) {
    counting(ctx);
    mle(ctx);
}

//! C15: max value tracker — real `MaxValueTracker<f64>` (through the guarded wrapper) vs model
use crate::util::*;
use probminhash::verif_hooks::VerifTracker;

fn dump(t: &VerifTracker) -> String {
    let v: Vec<f64> = (0..t.nb_nodes()).map(|i| t.get_value(i)).collect();
    join_fhx(&v)
}

pub fn corr(ctx: &mut Ctx) {
    let ms: Vec<usize> = vec![1, 2, 3, 4, 5, 6, 7, 8, 9, 16, 33];
    let ncases = ctx.n(150, 3000);
    let maxlen = ctx.n(200, 5000);
    for c in 0..ncases {
        let m = ms[(c as usize) % ms.len()];
        let style = ctx.rng.below(3); // 0: pool values, 1: random doubles, 2: decreasing sweeps
        let len = 1 + ctx.rng.below(maxlen);
        ctx.begin_case(&format!("mt m={} style={} len={}", m, style, len));
        ctx.count(&format!("m={}", m));
        ctx.count(&format!("style={}", style));
        let mut t = VerifTracker::new(m);
        ctx.op(&format!("mt new t {}", m));
        let pool = [0.5f64, 0.25, 1.0, 3.0, 7.5, 1e300];
        let mut naive = vec![f64::MAX; m];
        let mut improving = 0u64;
        let mut ties = 0u64;
        for step in 0..len {
            let r = ctx.rng.below(100);
            if r < 3 {
                t.reset();
                naive.iter_mut().for_each(|x| *x = f64::MAX);
                ctx.count("op=reset");
                ctx.line("mt reset t", &dump(&t));
                continue;
            }
            let k = ctx.rng.below(m as u64) as usize;
            let v = match style {
                0 => *ctx.rng.pick(&pool),
                1 => ctx.rng.unit() * 10.0,
                _ => 1000.0 / (1.0 + step as f64) + (ctx.rng.below(3) as f64),
            };
            if v < naive[k] {
                improving += 1;
            }
            if (k ^ 1) < m && naive[k ^ 1] == v {
                ties += 1;
            }
            let res = catch(std::panic::AssertUnwindSafe(|| t.update(k, v)));
            ctx.count("op=update");
            match res {
                Ok(()) => {
                    if v < naive[k] {
                        naive[k] = v;
                    }
                    // thorough tier: the whole tracker every 8th step, the maximum only in between (volume)
                    if ctx.quick() || step % 8 == 0 || step + 1 == len {
                        ctx.line(&format!("mt upd t {} {}", k, fhx(v)), &dump(&t));
                    } else {
                        ctx.line(&format!("mt updq t {} {}", k, fhx(v)), &fhx(t.get_max_value()));
                    }
                }
                Err(msg) => {
                    ctx.line(&format!("mt upd t {} {}", k, fhx(v)), "PANIC");
                    ctx.oracle_failure(serde_json::json!({"kind":"impl_violates_property","what":"update panicked","m":m,"k":k,"v":v,"msg":msg}));
                    break;
                }
            }
            // property oracle, independent of the model
            let true_max = naive.iter().cloned().fold(f64::MIN, f64::max);
            let leaves_ok = (0..m).all(|i| t.get_value(i) == naive[i]);
            if !leaves_ok || t.get_max_value() != true_max {
                ctx.oracle_failure(serde_json::json!({"kind":"impl_violates_property","what":"tracker disagrees with per-slot minima / their max","m":m,"step":step,"k":k,"v":v,
                    "tracker_max":t.get_max_value(),"true_max":true_max}));
            }
            if step % 7 == 0 {
                let probes = [v, true_max, f64::from_bits(true_max.to_bits().wrapping_sub(1))];
                for p in probes {
                    let got = t.is_update_possible(p);
                    if got != (p < true_max) {
                        ctx.oracle_failure(serde_json::json!({"kind":"impl_violates_property","what":"is_update_possible wrong","m":m,"p":p,"true_max":true_max}));
                    }
                    ctx.line(&format!("mt possible t {}", fhx(p)), if got { "true" } else { "false" });
                }
                ctx.line("mt max t", &fhx(t.get_max_value()));
            }
        }
        if improving > 0 && m > 1 {
            ctx.mark_nontrivial();
        }
        ctx.count_n("improving_updates", improving);
        ctx.count_n("sibling_ties", ties);
    }
    // out-of-range slot: the code asserts
    ctx.begin_case("mt slot out of range");
    let mut t = VerifTracker::new(4);
    ctx.op("mt new t 4");
    let res = catch(std::panic::AssertUnwindSafe(|| t.update(4, 1.0)));
    ctx.line("mt upd t 4 3ff0000000000000", if res.is_err() { "PANIC" } else { "no-panic" });
}

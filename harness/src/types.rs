//! Item / key TYPE instantiations: every sketcher is generic in the item type (`T: Hash`, `D: Copy + Eq + Hash + Debug`), and the
//! properties hold for each of them. The other modules stream `u64` items; here the same sketchers run over u32, usize, i64,
//! String, (u64, u32) tuples and [u8; 4] arrays (items) and over u32, usize, i32, char, (u32, u32) (ProbMinHash keys):
//! the model receives the hash the real hasher gives the typed item (FNV through the type's own `Hash` impl) and must reproduce the
//! sketch bit for bit; reordering with repetitions and chunking must not change it.
use crate::c02::INIT;
use crate::c04::{gen_stream, hash_with, perturb};
use crate::util::*;
use fnv::FnvHasher;
use indexmap::IndexMap;
use probminhash::densminhash::{OptDensMinHash, RevOptDensMinHash};
use probminhash::probminhasher::*;
use probminhash::setsketcher::{SetSketchParams, SetSketcher};
use probminhash::superminhasher::SuperMinHash;
use probminhash::superminhasher2::SuperMinHash2;
use std::hash::{BuildHasherDefault, Hash};

fn bh() -> BuildHasherDefault<FnvHasher> {
    BuildHasherDefault::<FnvHasher>::default()
}

type DensOut = Result<(Vec<u64>, Vec<u64>), String>;
/// both densified sketchers (f64) over a `Copy` item type: (stored hashes, float bits)
fn dens_run<T: Hash + Copy>(v: &[T], m: usize) -> (DensOut, DensOut) {
    let o = catch(std::panic::AssertUnwindSafe(|| { let mut s = OptDensMinHash::<f64, T, FnvHasher>::new(m, bh()); let _ = s.sketch_slice(v); let st = s.verif_state(); (st.1, st.0.iter().map(|x| x.to_bits()).collect::<Vec<u64>>()) }));
    let r = catch(std::panic::AssertUnwindSafe(|| { let mut s = RevOptDensMinHash::<f64, T, FnvHasher>::new(m, bh()); let _ = s.sketch_slice(v); let st = s.verif_state(); (st.1, st.0.iter().map(|x| x.to_bits()).collect::<Vec<u64>>()) }));
    (o, r)
}
fn no_dens<T>(_: &[T], _: usize) -> (DensOut, DensOut) {
    (Ok((vec![], vec![])), Ok((vec![], vec![])))
}

fn items_case<T: Hash + Clone + std::fmt::Debug>(ctx: &mut Ctx, tname: &str, conv: &dyn Fn(u64) -> T, dens: &dyn Fn(&[T], usize) -> (DensOut, DensOut), c: u64) {
    let mut rng = ctx.rng.fork();
    // (drawn from the generator: index arithmetic on the case number correlates the sizes with the item type)
    let _ = c;
    let m = *rng.pick(&[1usize, 3, 8, 16, 64]);
    let n = *rng.pick(&[1usize, 2, 5, 17, 70, 70]);
    let ids = gen_stream(&mut rng, n);
    // distinct typed items (the conversion may merge ids: keep the first of each image)
    let mut seen = std::collections::HashSet::new();
    let base: Vec<T> = ids.iter().map(|x| conv(*x)).filter(|t| seen.insert(hash_with::<FnvHasher, T>(t))).collect();
    let idx: Vec<u64> = (0..base.len() as u64).collect();
    let pidx = perturb(&mut rng, &idx);
    let pert: Vec<T> = pidx.iter().map(|i| base[*i as usize].clone()).collect();
    let htok = |t: &T| hx(hash_with::<FnvHasher, T>(t));
    ctx.begin_case(&format!("item type {} m={} n={}", tname, m, base.len()));
    ctx.mark_nontrivial();
    ctx.count(&format!("item type {}", tname));
    // SuperMinHash<f64>: model + set semantics
    let run = |v: &[T], chunk: bool| catch(std::panic::AssertUnwindSafe(|| {
        let mut s = SuperMinHash::<f64, T, FnvHasher>::new(m, bh());
        if chunk && v.len() > 1 { s.sketch_slice(&v[..v.len() / 2]).unwrap(); s.sketch_slice(&v[v.len() / 2..]).unwrap(); } else { for x in v { s.sketch(x).unwrap(); } }
        let (q, p, b, ir, au) = s.verif_state();
        (s.get_hsketch().clone(), format!("{} | {} | {} | {} | {} {}", join_fhx(s.get_hsketch()), join(&q), join(&p), join(&b), ir, au))
    }));
    let a = run(&base, false);
    ctx.op(&format!("smh new64 a {}", m));
    for x in &base { ctx.op(&format!("smh sk64 a {}", htok(x))); }
    ctx.line("smh dump64 a", &a.as_ref().map(|x| x.1.clone()).unwrap_or("PANIC".into()));
    let same = |x: &Result<(Vec<f64>, String), String>, y: &Result<(Vec<f64>, String), String>| match (x, y) { (Ok(p), Ok(q)) => p.0 == q.0, _ => false };
    if !same(&a, &run(&pert, false)) || !same(&a, &run(&base, true)) {
        ctx.oracle_failure(serde_json::json!({"kind":"impl_violates_property","what":"SuperMinHash<f64> over a non-u64 item type: sketch changes under reordering/repetition/chunking","item_type":tname,"m":m,"items":format!("{:?}", base.iter().take(12).collect::<Vec<_>>())}));
    }
    // SuperMinHash<f32>, SuperMinHash2, SetSketcher<u16>, both densified (f64): set semantics + model where a dump op exists
    let r32 = |v: &[T]| catch(std::panic::AssertUnwindSafe(|| { let mut s = SuperMinHash::<f32, T, FnvHasher>::new(m, bh()); for x in v { s.sketch(x).unwrap(); } s.get_hsketch().iter().map(|x| x.to_bits()).collect::<Vec<u32>>() }));
    let r2 = |v: &[T]| catch(std::panic::AssertUnwindSafe(|| { let mut s = SuperMinHash2::<u64, T, FnvHasher>::new(m, bh()); for x in v { s.sketch(x).unwrap(); } let (values, l, b, au) = s.verif_state();
        (s.get_hsketch().clone(), format!("{} | {} | {} | {} | {}", join(s.get_hsketch()), join(&values), join(&l), join(&b), au)) }));
    let rs = |v: &[T]| catch(std::panic::AssertUnwindSafe(|| { let mut s = SetSketcher::<u16, T, FnvHasher>::new(SetSketchParams::new(1.2, m as u64, 20.0, 65534), bh()); for x in v { s.sketch(x).unwrap(); }
        let (lk, nbmin) = s.verif_state(); let kv: Vec<u64> = s.get_signature().iter().map(|x| *x as u64).collect();
        (kv.clone(), format!("{} | {} {} {}", join(&kv), lk as u64, nbmin, s.get_nb_overflow())) }));
    let ro = |v: &[T]| dens(v, m).0;
    let rr = |v: &[T]| dens(v, m).1;
    let b2 = r2(&base);
    ctx.op(&format!("smh2 new a {} {}", u64::MAX, m));
    for x in &base { ctx.op(&format!("smh2 sk a {}", htok(x))); }
    ctx.line("smh2 dump a", &b2.as_ref().map(|x| x.1.clone()).unwrap_or("PANIC".into()));
    let bs = rs(&base);
    ctx.op(&format!("ssk new a {} {} {} {} {}", fhx(1.2), m, fhx(20.0), 65534, u16::MAX));
    for x in &base { ctx.op(&format!("ssk sk a {}", htok(x))); }
    ctx.line("ssk dump a", &bs.as_ref().map(|x| x.1.clone()).unwrap_or("PANIC".into()));
    let ok = r32(&base).ok() == r32(&pert).ok() && r32(&base).is_ok()
        && b2.as_ref().ok().map(|x| &x.0) == r2(&pert).as_ref().ok().map(|x| &x.0) && b2.is_ok()
        && bs.as_ref().ok().map(|x| &x.0) == rs(&pert).as_ref().ok().map(|x| &x.0) && bs.is_ok()
        && ro(&base).ok() == ro(&pert).ok() && ro(&base).is_ok()
        && rr(&base).ok() == rr(&pert).ok() && rr(&base).is_ok();
    if !ok {
        ctx.oracle_failure(serde_json::json!({"kind":"impl_violates_property","what":"an unweighted sketcher over a non-u64 item type: sketch changes under reordering/repetition (or the sketcher aborts)","item_type":tname,"m":m,
            "smh_f32": r32(&base).ok() == r32(&pert).ok(), "smh2": b2.as_ref().ok().map(|x| &x.0) == r2(&pert).as_ref().ok().map(|x| &x.0), "ssk": bs.as_ref().ok().map(|x| &x.0) == rs(&pert).as_ref().ok().map(|x| &x.0),
            "optdens": ro(&base).ok() == ro(&pert).ok(), "revoptdens": rr(&base).ok() == rr(&pert).ok(), "items":format!("{:?}", base.iter().take(12).collect::<Vec<_>>())}));
    }
    // every densified position holds the hash of a streamed item
    if let Ok((vals, _)) = ro(&base) {
        let hs: std::collections::HashSet<u64> = base.iter().map(|t| hash_with::<FnvHasher, T>(t)).collect();
        if vals.iter().any(|h| !hs.contains(h)) {
            ctx.oracle_failure(serde_json::json!({"kind":"impl_violates_property","what":"densified sketch over a non-u64 item type holds something that is not the hash of a streamed item","item_type":tname,"m":m}));
        }
    }
}

fn keys_case<D: Copy + Eq + Hash + std::fmt::Debug>(ctx: &mut Ctx, tname: &str, conv: &dyn Fn(u64) -> D, init: D, c: u64) {
    let mut rng = ctx.rng.fork();
    let _ = c;
    let m = *rng.pick(&[2usize, 4, 16, 64]);
    let n = *rng.pick(&[1usize, 3, 9, 40, 40]);
    let ids = gen_stream(&mut rng, n);
    let mut keys: Vec<D> = Vec::new();
    for x in &ids { let k = conv(*x); if k != init && !keys.contains(&k) { keys.push(k); } }
    let ws: Vec<f64> = (0..keys.len()).map(|i| 0.25 + ((i * 7) % 11) as f64 * 0.5).collect();
    let pos = |d: &D| keys.iter().position(|k| k == d).map(|p| p as u64).unwrap_or(INIT);
    let tok = |i: usize| format!("{}:{}:{}", i, fhx(ws[i]), hx(hash_with::<FnvHasher, D>(&keys[i])));
    ctx.begin_case(&format!("key type {} m={} n={}", tname, m, keys.len()));
    ctx.mark_nontrivial();
    ctx.count(&format!("ProbMinHash key type {}", tname));
    let order: Vec<usize> = { let mut o: Vec<u64> = (0..keys.len() as u64).collect(); rng.shuffle(&mut o); o.iter().map(|x| *x as usize).collect() };
    let r3 = |ord: &[usize]| catch(std::panic::AssertUnwindSafe(|| { let mut h = ProbMinHash3::<D, FnvHasher>::new(m, init); for i in ord { h.hash_item(keys[*i], &ws[*i]); }
        (h.get_signature().iter().map(pos).collect::<Vec<u64>>(), h.verif_registers()) }));
    let r3a = catch(std::panic::AssertUnwindSafe(|| { let mut map: IndexMap<D, f64> = IndexMap::new(); for i in 0..keys.len() { map.insert(keys[i], ws[i]); }
        let mut h = ProbMinHash3a::<D, FnvHasher>::new(m, init); h.hash_weigthed_idxmap(&map); (h.get_signature().iter().map(pos).collect::<Vec<u64>>(), h.verif_registers()) }));
    let r2 = |ord: &[usize]| catch(std::panic::AssertUnwindSafe(|| { let mut h = ProbMinHash2::<D, FnvHasher>::new(m, init); for i in ord { h.hash_item(keys[*i], ws[*i]); }
        (h.get_signature().iter().map(pos).collect::<Vec<u64>>(), h.verif_registers()) }));
    let ident: Vec<usize> = (0..keys.len()).collect();
    let a = r3(&ident);
    ctx.op(&format!("pmh3 new a {} {}", m, INIT));
    for i in 0..keys.len() { ctx.op(&format!("pmh3 item a {}", tok(i))); }
    match &a { Ok((sig, regs)) => { ctx.line("pmh3 sig a", &join(sig)); ctx.line("pmh3 regs a", &join_fhx(regs)); } Err(_) => ctx.line("pmh3 sig a", "PANIC") }
    let b = r2(&ident);
    ctx.op(&format!("pmh2 new a {} {}", m, INIT));
    for i in 0..keys.len() { ctx.op(&format!("pmh2 item a {}", tok(i))); }
    match &b { Ok((sig, regs)) => { ctx.line("pmh2 sig a", &join(sig)); ctx.line("pmh2 regs a", &join_fhx(regs)); } Err(_) => ctx.line("pmh2 sig a", "PANIC") }
    let eq = |x: &Result<(Vec<u64>, Vec<f64>), String>, y: &Result<(Vec<u64>, Vec<f64>), String>| match (x, y) { (Ok(p), Ok(q)) => p.0 == q.0 && p.1.iter().map(|v| v.to_bits()).eq(q.1.iter().map(|v| v.to_bits())), _ => false };
    if !eq(&a, &r3(&order)) || !eq(&a, &r3a) || !eq(&b, &r2(&order)) {
        ctx.oracle_failure(serde_json::json!({"kind":"impl_violates_property","what":"ProbMinHash over a non-u64 key type: signature depends on insertion order / entry point","key_type":tname,"m":m,
            "pmh3_order": eq(&a, &r3(&order)), "pmh3_vs_3a": eq(&a, &r3a), "pmh2_order": eq(&b, &r2(&order)), "keys":format!("{:?}", keys.iter().take(12).collect::<Vec<_>>())}));
    }
}

pub fn corr_items(ctx: &mut Ctx) {
    for c in 0..ctx.n(25, 250) {
        match c % 6 {
            0 => items_case::<u32>(ctx, "u32", &|x| x as u32, &dens_run::<u32>, c / 6),
            1 => items_case::<usize>(ctx, "usize", &|x| x as usize, &dens_run::<usize>, c / 6),
            2 => items_case::<i64>(ctx, "i64", &|x| (x as i64).wrapping_neg(), &dens_run::<i64>, c / 6),
            3 => items_case::<String>(ctx, "String", &|x| format!("item-{:x}", x), &no_dens::<String>, c / 6),      // (the densified sketchers need Copy items)
            4 => items_case::<(u64, u32)>(ctx, "(u64,u32)", &|x| (x, (x >> 7) as u32), &dens_run::<(u64, u32)>, c / 6),
            _ => items_case::<[u8; 4]>(ctx, "[u8;4]", &|x| (x as u32).to_le_bytes(), &dens_run::<[u8; 4]>, c / 6),
        }
    }
}

pub fn corr_keys(ctx: &mut Ctx) {
    for c in 0..ctx.n(20, 200) {
        match c % 5 {
            0 => keys_case::<u32>(ctx, "u32", &|x| x as u32, u32::MAX, c / 5),
            1 => keys_case::<usize>(ctx, "usize", &|x| x as usize, usize::MAX, c / 5),
            2 => keys_case::<i32>(ctx, "i32", &|x| (x as i32).wrapping_neg(), i32::MIN, c / 5),
            3 => keys_case::<char>(ctx, "char", &|x| char::from_u32(0x100 + (x % 0x8000) as u32).unwrap_or('x'), '\u{0}', c / 5),
            _ => keys_case::<(u32, u32)>(ctx, "(u32,u32)", &|x| (x as u32, (x >> 32) as u32), (u32::MAX, u32::MAX), c / 5),
        }
    }
}

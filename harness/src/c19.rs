//! C19: invertible integer hashes — real functions vs the Lean definitions generated from the source
use crate::util::*;
use probminhash::invhash::*;

fn structured64() -> Vec<u64> {
    let mut v = vec![0u64, 1, u64::MAX, u64::MAX - 1, 0x8000_0000_0000_0000, 0x7fff_ffff_ffff_ffff];
    for k in 0..64 {
        v.push(1u64 << k);
        v.push((1u64 << k).wrapping_sub(1));
        v.push((1u64 << k).wrapping_add(1));
        v.push(!(1u64 << k));
    }
    // carries across each shifted add of the code: 21, 3, 8, 2, 4, 31 and the xor-shifts 24, 14, 28
    for s in [21u32, 3, 8, 2, 4, 31, 24, 14, 28] {
        v.push(u64::MAX >> s);
        v.push(u64::MAX << s);
        v.push((u64::MAX >> s).wrapping_add(1));
    }
    v
}
fn structured32() -> Vec<u32> {
    let mut v = vec![0u32, 1, u32::MAX, u32::MAX - 1, 0x8000_0000, 0x7fff_ffff, 0xdeadbeef];
    for k in 0..32 {
        v.push(1u32 << k);
        v.push((1u32 << k).wrapping_sub(1));
        v.push((1u32 << k).wrapping_add(1));
        v.push(!(1u32 << k));
    }
    for s in [15u32, 10, 3, 6, 11, 16] {
        v.push(u32::MAX >> s);
        v.push(u32::MAX << s);
    }
    v
}

pub fn corr(ctx: &mut Ctx) {
    let n = ctx.n(1 << 14, 1 << 18);
    let mut v64 = structured64();
    let mut v32 = structured32();
    let ns = v64.len();
    for _ in 0..n {
        v64.push(ctx.rng.next());
        v32.push(ctx.rng.next() as u32);
    }
    for (i, x) in v64.iter().enumerate() {
        ctx.begin_case("ih64");
        if i >= ns || *x > 1 {
            ctx.mark_nontrivial();
        }
        let h = int64_hash(*x);
        let g = int64_hash_inverse(*x);
        ctx.line(&format!("ih h64 {}", hx(*x)), &hx(h));
        ctx.line(&format!("ih i64 {}", hx(*x)), &hx(g));
        if int64_hash_inverse(h) != *x || int64_hash(g) != *x {
            ctx.oracle_failure(serde_json::json!({"kind":"impl_violates_property","what":"64-bit pair is not inverse","x":hx(*x),
               "hash":hx(h),"inverse_of_hash":hx(int64_hash_inverse(h)),"inverse":hx(g),"hash_of_inverse":hx(int64_hash(g))}));
        }
    }
    ctx.count_n("64-bit values", v64.len() as u64);
    for x in v32.iter() {
        ctx.begin_case("ih32");
        ctx.mark_nontrivial();
        let h = int32_hash(*x);
        let g = int32_hash_inverse(*x);
        ctx.line(&format!("ih h32 {:08x}", x), &format!("{:08x}", h));
        ctx.line(&format!("ih i32 {:08x}", x), &format!("{:08x}", g));
        if int32_hash_inverse(h) != *x || int32_hash(g) != *x {
            ctx.oracle_failure(serde_json::json!({"kind":"impl_violates_property","what":"32-bit pair is not inverse","x":format!("{:08x}",x),
               "hash":format!("{:08x}",h),"inverse_of_hash":format!("{:08x}",int32_hash_inverse(h)),"inverse":format!("{:08x}",g),"hash_of_inverse":format!("{:08x}",int32_hash(g))}));
        }
    }
    ctx.count_n("32-bit values", v32.len() as u64);
    // call histories on ONE thread: the four functions interleaved on numerically equal / neighbouring arguments, repeated
    // calls, both widths (a function that remembers earlier calls - a memo table, a shared scratch - shows only here)
    ctx.begin_case("ih interleaved widths and repeated calls on one thread");
    ctx.mark_nontrivial();
    let mut hist: Vec<u32> = structured32();
    for _ in 0..ctx.n(2000, 40000) { hist.push(ctx.rng.next() as u32); }
    for (i, v) in hist.iter().enumerate() {
        let v = *v;
        let w = v as u64;
        let order = i % 4;
        // expected values from closed compositions evaluated first on a DIFFERENT thread (no shared thread-local history)
        // (each expected value in a thread of its own, so that no call precedes it there)
        let e32 = std::thread::spawn(move || int32_hash_inverse(v)).join().unwrap();
        let e64 = std::thread::spawn(move || int64_hash_inverse(w)).join().unwrap();
        let f32_ = std::thread::spawn(move || int32_hash(v)).join().unwrap();
        let f64_ = std::thread::spawn(move || int64_hash(w)).join().unwrap();
        let got = match order {
            0 => { let a = int32_hash_inverse(v); let b = int64_hash_inverse(w); (a, b, int32_hash(v), int64_hash(w)) }
            1 => { let b = int64_hash_inverse(w); let a = int32_hash_inverse(v); (a, b, int32_hash(v), int64_hash(w)) }
            2 => { let c = int32_hash(v); let d = int64_hash(w); let b = int64_hash_inverse(w); let a = int32_hash_inverse(v); (a, b, c, d) }
            _ => { let _ = int64_hash_inverse(w); let _ = int32_hash_inverse(v); let a = int32_hash_inverse(v); let b = int64_hash_inverse(w); (a, b, int32_hash(v), int64_hash(w)) }
        };
        let ok = got == (e32, e64, f32_, f64_) && int32_hash(got.0) == v && int64_hash(got.1) == w && int32_hash_inverse(got.2) == v && int64_hash_inverse(got.3) == w;
        if !ok {
            ctx.oracle_failure(serde_json::json!({"kind":"impl_violates_property","what":"result of a hash / inverse depends on earlier calls on the same thread (interleaved 32- and 64-bit calls on the same numeric value)",
                "value":format!("{:08x}", v),"call_order":order,"inverse32":format!("{:08x}",got.0),"inverse64":hx(got.1),"expected_inverse32":format!("{:08x}",e32),"expected_inverse64":hx(e64)}));
            break;
        }
    }
    ctx.count_n("interleaved call histories", hist.len() as u64);
    if !ctx.quick() {
        sweep(ctx);
    }
}

/// exhaustive 2^32 sweep of the 32-bit pair (both directions) + 2^28 random 64-bit values; implementation only
pub fn sweep(ctx: &mut Ctx) {
    use rayon::prelude::*;
    let bad32: Vec<u32> = (0u64..(1u64 << 32))
        .into_par_iter()
        .filter(|x| {
            let x = *x as u32;
            int32_hash_inverse(int32_hash(x)) != x || int32_hash(int32_hash_inverse(x)) != x
        })
        .map(|x| x as u32)
        .take_any(5)
        .collect();
    for x in &bad32 {
        ctx.oracle_failure(serde_json::json!({"kind":"impl_violates_property","what":"32-bit pair is not inverse (exhaustive sweep)","x":format!("{:08x}",x)}));
    }
    ctx.extra.insert("sweep32_exhaustive".into(), serde_json::json!(true));
    let seed = ctx.rng.next();
    let bad64: Vec<u64> = (0u64..(1u64 << 28))
        .into_par_iter()
        .map(|i| {
            let mut s = Sm64(seed ^ i.wrapping_mul(0x9E3779B97F4A7C15));
            s.next()
        })
        .filter(|x| int64_hash_inverse(int64_hash(*x)) != *x || int64_hash(int64_hash_inverse(*x)) != *x)
        .take_any(5)
        .collect();
    for x in &bad64 {
        ctx.oracle_failure(serde_json::json!({"kind":"impl_violates_property","what":"64-bit pair is not inverse (random sweep)","x":hx(*x)}));
    }
    ctx.extra.insert("sweep64_random".into(), serde_json::json!(1u64 << 28));
}

//! Statistical SEARCH AIDS for the "expectation over hash randomness" properties (C01, C03, C08): the exact target
//! value (J_P, w_d/Σw, J) is computed from the input; the observed mean over fresh random item identifiers must lie
//! within 6 σ + 0.01 (σ conservative: one sample per trial).  Not proofs — they look for failing inputs on the
//! implementation and support the ideal-hashing assumption of the theorems; every label derives from the run's seed.
use crate::c02::INIT;
use crate::dens::D;
use crate::util::*;
use fnv::FnvHasher;
use indexmap::IndexMap;
use probminhash::probminhasher::*;
use probminhash::superminhasher::SuperMinHash;
use probminhash::superminhasher2::SuperMinHash2;
use std::collections::HashMap;
use std::hash::BuildHasherDefault;

fn fresh(rng: &mut Sm64, n: usize) -> Vec<u64> {
    let mut v: Vec<u64> = Vec::new();
    while v.len() < n { let x = rng.next() >> 1; if !v.contains(&x) { v.push(x); } }
    v
}

fn judge(ctx: &mut Ctx, key: String, what: &str, p: f64, obs: f64, trials: u64, detail: serde_json::Value) {
    let sigma = (p * (1.0 - p) / trials as f64).sqrt();
    if (obs - p).abs() > 6.0 * sigma + 0.01 {
        ctx.oracle_failure(serde_json::json!({"kind":"impl_violates_property","key":key,"what":what,"exact":p,"observed":obs,"trials":trials,"sigma":sigma,"case":detail}));
    }
}

/// probability Jaccard index of two weight vectors over the same symbols (0 = absent)
fn jp(wa: &[f64], wb: &[f64]) -> f64 {
    let mut s = 0.0;
    for d in 0..wa.len() {
        if wa[d] > 0.0 && wb[d] > 0.0 {
            let den: f64 = (0..wa.len()).map(|e| (wa[e] / wa[d]).max(wb[e] / wb[d])).sum();
            s += 1.0 / den;
        }
    }
    s
}

fn pmh_sig(variant: usize, m: usize, ids: &[u64], w: &[f64]) -> Vec<u64> {
    match variant {
        0 => {
            let mut s = ProbMinHash3::<u64, FnvHasher>::new(m, INIT);
            for (i, x) in ids.iter().enumerate() { if w[i] > 0.0 { s.hash_item(*x, &w[i]); } }
            s.get_signature().clone()
        }
        1 => {
            let mut map: IndexMap<u64, f64> = IndexMap::new();
            for (i, x) in ids.iter().enumerate() { if w[i] > 0.0 { map.insert(*x, w[i]); } }
            let mut s = ProbMinHash3a::<u64, FnvHasher>::new(m, INIT);
            s.hash_weigthed_idxmap(&map);
            s.get_signature().clone()
        }
        2 => {
            let mut map: HashMap<u64, f64> = HashMap::new();
            for (i, x) in ids.iter().enumerate() { if w[i] > 0.0 { map.insert(*x, w[i]); } }
            let mut s = ProbMinHash2::<u64, FnvHasher>::new(m, INIT);
            s.hash_weigthed_hashmap::<std::collections::hash_map::RandomState>(&map);
            s.get_signature().clone()
        }
        _ => {
            let mut map: HashMap<u64, f64> = HashMap::new();
            for (i, x) in ids.iter().enumerate() { if w[i] > 0.0 { map.insert(*x, w[i]); } }
            let mut s = ProbMinHash3aSha::<u64>::new(m, INIT);
            s.hash_weigthed_hashmap(&map);
            s.get_signature().clone()
        }
    }
}

/// C01: expected fraction of equal positions = J_P; a position holds item d with probability w_d / Σw
pub fn pmh_statistics(ctx: &mut Ctx) {
    let cases: Vec<(Vec<f64>, Vec<f64>)> = vec![
        (vec![1.0, 2.0, 0.5, 3.0, 0.0], vec![0.0, 2.0, 4.0, 0.1, 1.0]),
        (vec![1.0, 1.0, 1.0, 0.0, 0.0], vec![0.0, 1.0, 1.0, 1.0, 1.0]),
        (vec![1e-3, 1e3, 1.0], vec![1e3, 1e-3, 1.0]),
        (vec![2.0, 5.0], vec![2.0, 5.0]),
        (vec![1.0, 0.0], vec![0.0, 1.0]),
        (vec![0.25; 12], { let mut v = vec![0.25; 12]; for i in 0..6 { v[i] = 0.0; } v[11] = 7.0; v }),
    ];
    let names = ["ProbMinHash3", "ProbMinHash3a", "ProbMinHash2", "ProbMinHash3aSha"];
    let trials = ctx.n(1200, 20000);
    for (ci, (wa, wb)) in cases.iter().enumerate() {
        let p = jp(wa, wb);
        let tot_a: f64 = wa.iter().sum();
        for variant in 0..4 {
            for m in [2usize, 3, 16, 64] {
                let mut rng = ctx.rng.fork();
                ctx.begin_case(&format!("pmh law case#{} {} m={} J_P={:.4}", ci, names[variant], m, p));
                ctx.mark_nontrivial();
                ctx.count(&format!("pmh law variant={}", names[variant]));
                let (mut eq, mut first) = (0u64, 0u64);
                let d0 = wa.iter().position(|w| *w > 0.0).unwrap();
                for _ in 0..trials {
                    let ids = fresh(&mut rng, wa.len());
                    let (sa, sb) = (pmh_sig(variant, m, &ids, wa), pmh_sig(variant, m, &ids, wb));
                    eq += (0..m).filter(|k| sa[*k] == sb[*k]).count() as u64;
                    first += (0..m).filter(|k| sa[*k] == ids[d0]).count() as u64;
                }
                let n = trials as f64 * m as f64;
                let detail = serde_json::json!({"variant":names[variant],"m":m,"wA":wa,"wB":wb});
                judge(ctx, format!("pmh-law:case{}:v{}:m={}", ci, variant, m), "expected fraction of equal signature positions differs from J_P (fresh random identifiers)", p, eq as f64 / n, trials, detail.clone());
                judge(ctx, format!("pmh-single:case{}:v{}:m={}", ci, variant, m), "a position holds item d with a frequency different from w_d / sum w", wa[d0] / tot_a, first as f64 / n, trials, detail);
            }
        }
    }
}

fn bh() -> BuildHasherDefault<FnvHasher> { BuildHasherDefault::<FnvHasher>::default() }

/// C03: SuperMinHash / SuperMinHash2: expected fraction of equal positions = J, every m >= 1
pub fn smh_statistics(ctx: &mut Ctx) {
    // (|A \ B|, |B \ A|, |A ∩ B|)
    let shapes = [(1usize, 1usize, 1usize), (0, 3, 1), (2, 2, 0), (5, 1, 6), (0, 0, 3), (40, 10, 25), (1, 200, 3)];
    let trials = ctx.n(1200, 20000);
    for (da, db, c) in shapes {
        let p = c as f64 / (da + db + c) as f64;
        for kind in 0..3 {
            for m in [1usize, 2, 8, 64] {
                let mut rng = ctx.rng.fork();
                let name = ["SuperMinHash<f64>", "SuperMinHash<f32>", "SuperMinHash2<u64>"][kind];
                ctx.begin_case(&format!("smh law {} |A-B|={} |B-A|={} |AnB|={} m={}", name, da, db, c, m));
                ctx.mark_nontrivial();
                ctx.count(&format!("smh law sketcher={}", name));
                let mut eq = 0u64;
                for _ in 0..trials {
                    let ids = fresh(&mut rng, da + db + c);
                    let a: Vec<u64> = ids[..da].iter().chain(ids[da + db..].iter()).cloned().collect();
                    let b: Vec<u64> = ids[da..].to_vec();
                    eq += match kind {
                        0 => {
                            let mut sa = SuperMinHash::<f64, u64, FnvHasher>::new(m, bh());
                            let mut sb = SuperMinHash::<f64, u64, FnvHasher>::new(m, bh());
                            sa.sketch_slice(&a).unwrap(); sb.sketch_slice(&b).unwrap();
                            (0..m).filter(|k| sa.get_hsketch()[*k] == sb.get_hsketch()[*k]).count() as u64
                        }
                        1 => {
                            let mut sa = SuperMinHash::<f32, u64, FnvHasher>::new(m, bh());
                            let mut sb = SuperMinHash::<f32, u64, FnvHasher>::new(m, bh());
                            sa.sketch_slice(&a).unwrap(); sb.sketch_slice(&b).unwrap();
                            (0..m).filter(|k| sa.get_hsketch()[*k] == sb.get_hsketch()[*k]).count() as u64
                        }
                        _ => {
                            let mut sa = SuperMinHash2::<u64, u64, FnvHasher>::new(m, bh());
                            let mut sb = SuperMinHash2::<u64, u64, FnvHasher>::new(m, bh());
                            sa.sketch_slice(&a).unwrap(); sb.sketch_slice(&b).unwrap();
                            (0..m).filter(|k| sa.get_hsketch()[*k] == sb.get_hsketch()[*k]).count() as u64
                        }
                    };
                }
                judge(ctx, format!("smh-law:{}:{}-{}-{}:m={}", kind, da, db, c, m), "expected fraction of equal sketch positions differs from the Jaccard index (fresh random items)",
                    p, eq as f64 / (trials as f64 * m as f64), trials, serde_json::json!({"sketcher":name,"m":m,"a_only":da,"b_only":db,"common":c}));
            }
        }
    }
}

/// C08: densified sketchers, sparse to dense: expected fraction of equal positions = J (u64 view; float/u32 agree by C09)
pub fn dens_statistics(ctx: &mut Ctx) {
    let shapes = [(1usize, 1usize, 1usize), (0, 3, 1), (2, 2, 0), (5, 1, 6), (0, 0, 3), (33, 33, 67)];
    let trials = ctx.n(800, 10000);
    for (da, db, c) in shapes {
        let p = c as f64 / (da + db + c) as f64;
        for kind in 0..4 {
            for m in [1usize, 2, 16, 200, 2000] {
                if m == 2000 && (kind % 2 == 1) && ctx.quick() { continue; } // reverse algorithm, very sparse: slow; thorough only
                let mut rng = ctx.rng.fork();
                let tr = if m >= 200 { trials / 8 + 50 } else { trials };
                let mut eq = 0u64;
                let mut label = String::new();
                for _ in 0..tr {
                    let ids = fresh(&mut rng, da + db + c);
                    let a: Vec<u64> = ids[..da].iter().chain(ids[da + db..].iter()).cloned().collect();
                    let b: Vec<u64> = ids[da..].to_vec();
                    let (mut sa, mut sb) = (D::new(kind, m), D::new(kind, m));
                    if label.is_empty() { label = format!("{}{}", sa.alg(), sa.sfx()); }
                    sa.sketch_slice(&a); sb.sketch_slice(&b);
                    let (va, vb) = (sa.u64view(), sb.u64view());
                    eq += (0..m).filter(|k| va[*k] == vb[*k]).count() as u64;
                }
                ctx.begin_case(&format!("dens law {} |A-B|={} |B-A|={} |AnB|={} m={}", label, da, db, c, m));
                ctx.mark_nontrivial();
                ctx.count(&format!("dens law fill={}", if (da + db + c) * 10 <= m { "sparse" } else if da + db + c >= m { "dense" } else { "partial" }));
                judge(ctx, format!("dens-law:{}:{}-{}-{}:m={}", label, da, db, c, m), "expected fraction of equal densified positions differs from the Jaccard index (fresh random items)",
                    p, eq as f64 / (tr as f64 * m as f64), tr, serde_json::json!({"sketcher":label,"m":m,"a_only":da,"b_only":db,"common":c}));
            }
        }
    }
}

//! Statistical SEARCH AIDS for the "expectation over hash randomness" properties (C01, C03, C08): the exact target
//! value (J_P, w_d/Σw, J) is computed from the input; the observed mean over fresh random item identifiers must lie
//! within 6 standard errors + 0.002 (standard error from the sample variance of the per-trial fractions).  Not proofs — they look for failing inputs on the
//! implementation and support the ideal-hashing assumption of the theorems; every label derives from the run's seed.
use crate::c02::INIT;
use crate::dens::D;
use crate::util::*;
use fnv::FnvHasher;
use indexmap::IndexMap;
use probminhash::probminhasher::*;
use probminhash::superminhasher::SuperMinHash;
use probminhash::superminhasher2::SuperMinHash2;
use std::collections::HashMap;
use std::hash::BuildHasherDefault;

fn fresh(rng: &mut Sm64, n: usize) -> Vec<u64> {
    let mut v: Vec<u64> = Vec::new();
    while v.len() < n { let x = rng.next() >> 1; if !v.contains(&x) { v.push(x); } }
    v
}

/// running mean / variance of the per-trial fractions
#[derive(Default, Clone, Copy)]
pub struct Acc { n: f64, s1: f64, s2: f64, m: f64 }
impl Acc {
    pub fn new(m: usize) -> Acc { Acc { n: 0.0, s1: 0.0, s2: 0.0, m: m as f64 } }
    pub fn add(&mut self, f: f64) { self.n += 1.0; self.s1 += f; self.s2 += f * f; }
    pub fn mean(&self) -> f64 { self.s1 / self.n }
    /// standard error of the mean, from the sample variance of the per-trial fractions (so that the dependence
    /// between the positions of one trial is accounted for); never below the binomial floor of one sample per 64 trials
    pub fn sem(&self) -> f64 { ((self.s2 / self.n - self.mean() * self.mean()).max(0.0) / self.n).sqrt() }
}

/// flag when |observed mean - exact| > 6 standard errors + 0.002
fn judge(ctx: &mut Ctx, key: String, what: &str, p: f64, acc: &Acc, detail: serde_json::Value) {
    // the sample variance under-estimates when the event is rare (no hit observed => 0): never below the binomial
    // value for independent positions, which is the smallest variance the exact probability allows
    let floor = (p * (1.0 - p) / (acc.n * acc.m.max(1.0))).sqrt();
    let (obs, sem) = (acc.mean(), acc.sem().max(floor));
    if (obs - p).abs() > 6.0 * sem + 0.002 {
        ctx.oracle_failure(serde_json::json!({"kind":"impl_violates_property","key":key,"what":what,"exact":p,"observed":obs,"trials":acc.n,"standard_error":sem,"case":detail}));
    }
}

/// probability Jaccard index of two weight vectors over the same symbols (0 = absent)
fn jp(wa: &[f64], wb: &[f64]) -> f64 {
    let mut s = 0.0;
    for d in 0..wa.len() {
        if wa[d] > 0.0 && wb[d] > 0.0 {
            let den: f64 = (0..wa.len()).map(|e| (wa[e] / wa[d]).max(wb[e] / wb[d])).sum();
            s += 1.0 / den;
        }
    }
    s
}

fn pmh_sig(variant: usize, m: usize, ids: &[u64], w: &[f64]) -> Vec<u64> {
    match variant {
        0 => {
            let mut s = ProbMinHash3::<u64, FnvHasher>::new(m, INIT);
            for (i, x) in ids.iter().enumerate() { if w[i] > 0.0 { s.hash_item(*x, &w[i]); } }
            s.get_signature().clone()
        }
        1 => {
            let mut map: IndexMap<u64, f64> = IndexMap::new();
            for (i, x) in ids.iter().enumerate() { if w[i] > 0.0 { map.insert(*x, w[i]); } }
            let mut s = ProbMinHash3a::<u64, FnvHasher>::new(m, INIT);
            s.hash_weigthed_idxmap(&map);
            s.get_signature().clone()
        }
        2 => {
            let mut map: HashMap<u64, f64> = HashMap::new();
            for (i, x) in ids.iter().enumerate() { if w[i] > 0.0 { map.insert(*x, w[i]); } }
            let mut s = ProbMinHash2::<u64, FnvHasher>::new(m, INIT);
            s.hash_weigthed_hashmap::<std::collections::hash_map::RandomState>(&map);
            s.get_signature().clone()
        }
        _ => {
            let mut map: HashMap<u64, f64> = HashMap::new();
            for (i, x) in ids.iter().enumerate() { if w[i] > 0.0 { map.insert(*x, w[i]); } }
            let mut s = ProbMinHash3aSha::<u64>::new(m, INIT);
            s.hash_weigthed_hashmap(&map);
            s.get_signature().clone()
        }
    }
}

/// C01: expected fraction of equal positions = J_P; a position holds item d with probability w_d / Σw
pub fn pmh_statistics(ctx: &mut Ctx) {
    let cases: Vec<(Vec<f64>, Vec<f64>)> = vec![
        (vec![1.0, 2.0, 0.5, 3.0, 0.0], vec![0.0, 2.0, 4.0, 0.1, 1.0]),
        (vec![1.0, 1.0, 1.0, 0.0, 0.0], vec![0.0, 1.0, 1.0, 1.0, 1.0]),
        (vec![1e-3, 1e3, 1.0], vec![1e3, 1e-3, 1.0]),
        (vec![2.0, 5.0], vec![2.0, 5.0]),
        (vec![1.0, 0.0], vec![0.0, 1.0]),
        (vec![0.25; 12], { let mut v = vec![0.25; 12]; for i in 0..6 { v[i] = 0.0; } v[11] = 7.0; v }),
    ];
    let names = ["ProbMinHash3", "ProbMinHash3a", "ProbMinHash2", "ProbMinHash3aSha"];
    let trials = ctx.n(1200, 20000);
    for (ci, (wa, wb)) in cases.iter().enumerate() {
        let p = jp(wa, wb);
        let tot_a: f64 = wa.iter().sum();
        for variant in 0..4 {
            for m in [2usize, 3, 16, 64] {
                let mut rng = ctx.rng.fork();
                ctx.begin_case(&format!("pmh law case#{} {} m={} J_P={:.4}", ci, names[variant], m, p));
                ctx.mark_nontrivial();
                ctx.count(&format!("pmh law variant={}", names[variant]));
                let (mut eq, mut first) = (Acc::new(m), Acc::new(m));
                let d0 = wa.iter().position(|w| *w > 0.0).unwrap();
                for _ in 0..trials {
                    let ids = fresh(&mut rng, wa.len());
                    let (sa, sb) = (pmh_sig(variant, m, &ids, wa), pmh_sig(variant, m, &ids, wb));
                    eq.add((0..m).filter(|k| sa[*k] == sb[*k]).count() as f64 / m as f64);
                    first.add((0..m).filter(|k| sa[*k] == ids[d0]).count() as f64 / m as f64);
                }
                let detail = serde_json::json!({"variant":names[variant],"m":m,"wA":wa,"wB":wb});
                judge(ctx, format!("pmh-law:case{}:v{}:m={}", ci, variant, m), "expected fraction of equal signature positions differs from J_P (fresh random identifiers)", p, &eq, detail.clone());
                judge(ctx, format!("pmh-single:case{}:v{}:m={}", ci, variant, m), "a position holds item d with a frequency different from w_d / sum w", wa[d0] / tot_a, &first, detail);
            }
        }
    }
}

fn bh() -> BuildHasherDefault<FnvHasher> { BuildHasherDefault::<FnvHasher>::default() }

/// C03: SuperMinHash / SuperMinHash2: expected fraction of equal positions = J, every m >= 1
pub fn smh_statistics(ctx: &mut Ctx) {
    // (|A \ B|, |B \ A|, |A ∩ B|)
    let shapes = [(1usize, 1usize, 1usize), (0, 3, 1), (2, 2, 0), (5, 1, 6), (0, 0, 3), (40, 10, 25), (1, 200, 3)];
    let trials = ctx.n(1200, 20000);
    for (da, db, c) in shapes {
        let p = c as f64 / (da + db + c) as f64;
        for kind in 0..3 {
            for m in [1usize, 2, 8, 64] {
                let mut rng = ctx.rng.fork();
                let name = ["SuperMinHash<f64>", "SuperMinHash<f32>", "SuperMinHash2<u64>"][kind];
                ctx.begin_case(&format!("smh law {} |A-B|={} |B-A|={} |AnB|={} m={}", name, da, db, c, m));
                ctx.mark_nontrivial();
                ctx.count(&format!("smh law sketcher={}", name));
                let mut eq = Acc::new(m as usize);
                for _ in 0..trials {
                    let ids = fresh(&mut rng, da + db + c);
                    let a: Vec<u64> = ids[..da].iter().chain(ids[da + db..].iter()).cloned().collect();
                    let b: Vec<u64> = ids[da..].to_vec();
                    let cnt: u64 = match kind {
                        0 => {
                            let mut sa = SuperMinHash::<f64, u64, FnvHasher>::new(m, bh());
                            let mut sb = SuperMinHash::<f64, u64, FnvHasher>::new(m, bh());
                            sa.sketch_slice(&a).unwrap(); sb.sketch_slice(&b).unwrap();
                            (0..m).filter(|k| sa.get_hsketch()[*k] == sb.get_hsketch()[*k]).count() as u64
                        }
                        1 => {
                            let mut sa = SuperMinHash::<f32, u64, FnvHasher>::new(m, bh());
                            let mut sb = SuperMinHash::<f32, u64, FnvHasher>::new(m, bh());
                            sa.sketch_slice(&a).unwrap(); sb.sketch_slice(&b).unwrap();
                            (0..m).filter(|k| sa.get_hsketch()[*k] == sb.get_hsketch()[*k]).count() as u64
                        }
                        _ => {
                            let mut sa = SuperMinHash2::<u64, u64, FnvHasher>::new(m, bh());
                            let mut sb = SuperMinHash2::<u64, u64, FnvHasher>::new(m, bh());
                            sa.sketch_slice(&a).unwrap(); sb.sketch_slice(&b).unwrap();
                            (0..m).filter(|k| sa.get_hsketch()[*k] == sb.get_hsketch()[*k]).count() as u64
                        }
                    };
                    eq.add(cnt as f64 / m as f64);
                }
                judge(ctx, format!("smh-law:{}:{}-{}-{}:m={}", kind, da, db, c, m), "expected fraction of equal sketch positions differs from the Jaccard index (fresh random items)",
                    p, &eq, serde_json::json!({"sketcher":name,"m":m,"a_only":da,"b_only":db,"common":c}));
            }
        }
    }
}

/// C08: densified sketchers, sparse to dense: expected fraction of equal positions = J (u64 view; float/u32 agree by C09)
pub fn dens_statistics(ctx: &mut Ctx) {
    let shapes = [(1usize, 1usize, 1usize), (0, 3, 1), (2, 2, 0), (5, 1, 6), (0, 0, 3), (33, 33, 67)];
    let trials = ctx.n(800, 10000);
    for (da, db, c) in shapes {
        let p = c as f64 / (da + db + c) as f64;
        for kind in 0..4 {
            for m in [1usize, 2, 16, 200, 2000] {
                if m == 2000 && (kind % 2 == 1) && ctx.quick() { continue; } // reverse algorithm, very sparse: slow; thorough only
                let mut rng = ctx.rng.fork();
                let tr = if m >= 200 { trials / 8 + 50 } else { trials };
                let mut eq = Acc::new(m as usize);
                let mut label = String::new();
                for _ in 0..tr {
                    let ids = fresh(&mut rng, da + db + c);
                    let a: Vec<u64> = ids[..da].iter().chain(ids[da + db..].iter()).cloned().collect();
                    let b: Vec<u64> = ids[da..].to_vec();
                    let (mut sa, mut sb) = (D::new(kind, m), D::new(kind, m));
                    if label.is_empty() { label = format!("{}{}", sa.alg(), sa.sfx()); }
                    sa.sketch_slice(&a); sb.sketch_slice(&b);
                    let (va, vb) = (sa.u64view(), sb.u64view());
                    eq.add((0..m).filter(|k| va[*k] == vb[*k]).count() as f64 / m as f64);
                }
                ctx.begin_case(&format!("dens law {} |A-B|={} |B-A|={} |AnB|={} m={}", label, da, db, c, m));
                ctx.mark_nontrivial();
                ctx.count(&format!("dens law fill={}", if (da + db + c) * 10 <= m { "sparse" } else if da + db + c >= m { "dense" } else { "partial" }));
                judge(ctx, format!("dens-law:{}:{}-{}-{}:m={}", label, da, db, c, m), "expected fraction of equal densified positions differs from the Jaccard index (fresh random items)",
                    p, &eq, serde_json::json!({"sketcher":label,"m":m,"a_only":da,"b_only":db,"common":c}));
            }
        }
    }
}

/// exact SetSketch collision probability of one register for cardinalities (|A\B|, |B\A|, |A∩B|):
/// registers are maxima of levels; P(level of n items <= k) = exp(-a n b^-k) for 0 <= k <= q, 1 for k >= q+1
pub fn ssk_pcoll(b: f64, a: f64, q: u64, n1: u64, n2: u64, n3: u64) -> f64 {
    let g = |n: u64, k: i64| -> f64 {
        if k < 0 { 0.0 } else if k as u64 >= q + 1 || n == 0 { 1.0 } else { (-a * n as f64 * b.powf(-(k as f64))).exp() }
    };
    let mut p = 0.0;
    for k in 0..=(q as i64 + 1) {
        let (g1, g2, g3) = (g(n1, k), g(n2, k), g(n3, k));
        let (h1, h2, h3) = (g(n1, k - 1), g(n2, k - 1), g(n3, k - 1));
        p += (g3 - h3) * g1 * g2 + h3 * (g1 - h1) * (g2 - h2);
    }
    p
}

/// C07: expected fraction of equal SetSketch registers = exact collision probability; the Jaccard-bounds interval at
/// that probability contains J (up to 1e-4)
pub fn ssk_collision_statistics(ctx: &mut Ctx) {
    use crate::ssk::new16;
    let shapes = [(20u64, 20u64, 20u64), (100, 100, 100), (0, 300, 100), (50, 50, 0), (0, 0, 40), (1, 1000, 5)];
    let trials = ctx.n(400, 6000);
    // small rates a (a * |S| of order 1): many registers are clipped at 0, the lower end of the register range matters
    let small_shapes = [(1u64, 1u64, 0u64), (0, 0, 1), (2, 3, 1), (1, 0, 4)];
    for (b, a, q) in [(2.0f64, 20.0f64, 62u64), (1.5, 20.0, 110), (1.2, 20.0, 250), (1.001, 20.0, 65534), (2.0, 0.5, 62), (1.5, 0.05, 110)] {
        for (n1, n2, n3) in (if a < 1.0 { small_shapes.to_vec() } else { shapes.to_vec() }) {
            let p = ssk_pcoll(b, a, q, n1, n2, n3);
            let jtrue = n3 as f64 / (n1 + n2 + n3) as f64;
            for m in [1u64, 4, 16, 256] {
                if b < 1.01 && m == 256 && ctx.quick() { continue; }
                let mut rng = ctx.rng.fork();
                ctx.begin_case(&format!("ssk collision law b={} m={} ({},{},{}) P={:.4}", b, m, n1, n2, n3, p));
                ctx.mark_nontrivial();
                ctx.count(&format!("ssk collision law b={}", b));
                let tr = if m >= 256 { trials / 4 + 20 } else { trials };
                let mut eq = Acc::new(m as usize);
                for _ in 0..tr {
                    let ids = fresh(&mut rng, (n1 + n2 + n3) as usize);
                    let (i1, i2) = (n1 as usize, (n1 + n2) as usize);
                    let av: Vec<u64> = ids[..i1].iter().chain(ids[i2..].iter()).cloned().collect();
                    let bv: Vec<u64> = ids[i1..].to_vec();
                    let (mut sa, mut sb) = (new16((b, m, a, q)), new16((b, m, a, q)));
                    sa.sketch_slice(&av).unwrap(); sb.sketch_slice(&bv).unwrap();
                    eq.add(sa.get_signature().iter().zip(sb.get_signature().iter()).filter(|(x, y)| x == y).count() as f64 / m as f64);
                }
                let detail = serde_json::json!({"b":b,"a":a,"q":q,"m":m,"a_only":n1,"b_only":n2,"common":n3});
                judge(ctx, format!("ssk-coll:b={}:{}-{}-{}:m={}", b, n1, n2, n3, m), "expected fraction of equal SetSketch registers differs from the exact collision probability (fresh random items)", p, &eq, detail.clone());
                // bounds at the exact collision probability contain J (1e-4)
                let pp = p.min(1.0);
                let (lo, hi) = match catch(move || probminhash::setsketcher::SetSketchParams::new(b, m, a, q).get_jaccard_bounds(pp)) {
                    Ok(r) => r,
                    Err(msg) => {
                        ctx.oracle_failure(serde_json::json!({"kind":"impl_violates_property","key":format!("ssk-bounds-abort:b={}:P={}",b,pp),
                            "what":"get_jaccard_bounds aborts at the exact collision probability of a sketch pair","b":b,"collision_probability":pp,"msg":msg,"case":detail}));
                        continue;
                    }
                };
                if !(lo - 1e-4 <= jtrue && jtrue <= hi + 1e-4) && n1 + n2 + n3 >= 40 {
                    ctx.oracle_failure(serde_json::json!({"kind":"impl_violates_property","key":format!("ssk-bounds:b={}:{}-{}-{}",b,n1,n2,n3),
                        "what":"Jaccard bounds at the exact collision probability do not contain the true Jaccard index (1e-4)","J":jtrue,"lo":lo,"hi":hi,"P":p,"case":detail}));
                }
            }
        }
    }
}

/// C06: cardinality estimate over fresh item sets: |mean relative error| <= 2 RSD^2 (+ noise) and, for m >= 64,
/// observed spread within 15% of the advertised RSD
pub fn ssk_cardinality_statistics(ctx: &mut Ctx) {
    use crate::ssk::new16;
    let trials = ctx.n(300, 1500);
    for (b, m) in [(1.001f64, 64u64), (1.001, 256), (1.001, 1024), (1.2, 64), (2.0, 256)] {
        let q = if b < 1.01 { 65534 } else if b < 1.5 { 250 } else { 62 };
        for n in [1u64, 7, 100, 3000] {
            if ctx.quick() && n >= 3000 && m >= 1024 { continue; }
            let mut rng = ctx.rng.fork();
            ctx.begin_case(&format!("ssk cardinality law b={} m={} n={}", b, m, n));
            ctx.mark_nontrivial();
            let (mut s1, mut s2, mut rsd) = (0.0f64, 0.0f64, 0.0f64);
            for _ in 0..trials {
                let ids: Vec<u64> = (0..n).map(|_| rng.next() >> 1).collect();
                let mut s = new16((b, m, 20.0, q));
                s.sketch_slice(&ids).unwrap();
                let (card, r) = s.get_cardinal_stats();
                let e = card / n as f64 - 1.0;
                s1 += e; s2 += e * e; rsd = r;
            }
            let t = trials as f64;
            let mean = s1 / t;
            let sd = (s2 / t - mean * mean).max(0.0).sqrt();
            let detail = serde_json::json!({"b":b,"m":m,"n":n,"mean_rel_err":mean,"spread":sd,"advertised_rsd":rsd,"trials":trials});
            // mean: bias bound 2 RSD^2 plus 5 standard errors of the mean
            if mean.abs() > 2.0 * rsd * rsd + 5.0 * rsd / t.sqrt() {
                ctx.oracle_failure(serde_json::json!({"kind":"impl_violates_property","key":format!("ssk-card-bias:b={}:m={}:n={}",b,m,n),"what":"mean relative error of the cardinality estimate exceeds 2 RSD^2 (beyond noise)","case":detail}));
            }
            // spread within 15% of the advertised RSD (m >= 64); the spread estimate itself has s.e. ~ rsd / sqrt(2 t)
            if (sd / rsd - 1.0).abs() > 0.15 + 4.0 / (2.0 * t).sqrt() {
                ctx.oracle_failure(serde_json::json!({"kind":"impl_violates_property","key":format!("ssk-card-spread:b={}:m={}:n={}",b,m,n),"what":"observed relative spread of the cardinality estimate is not within 15% of the advertised RSD","case":detail}));
            }
        }
    }
}

//! C04 / C05 / C13 (unweighted sketchers): SuperMinHash, SuperMinHash2 — real sketchers vs model (full internal
//! state through the guarded hook), plus the implementation-only set-semantics oracles.
use crate::util::*;
use fnv::FnvHasher;
use probminhash::superminhasher::{NoHashHasher as NoHash1, SuperMinHash};
use probminhash::superminhasher2::{NoHashHasher as NoHash2, SuperMinHash2};
use std::hash::{BuildHasher, BuildHasherDefault, Hasher};

pub fn hash_with<H: Hasher + Default, T: std::hash::Hash>(x: &T) -> u64 {
    BuildHasherDefault::<H>::default().hash_one(x)
}

/// extreme item values: through `NoHashHasher` their hashes are 0, u64::MAX, one-bit patterns, 2^32 boundaries —
/// sentinels, wrap-arounds and narrowed casts live there
pub const EXTREME_ITEMS: [u64; 12] = [0, u64::MAX, u64::MAX - 1, 1, 1 << 63, (1 << 32) - 1, 1 << 32, (1 << 31) - 1, 0xffff_ffff_0000_0000,
    0x0100_0000_0000_0000, 0xff00_0000_0000_0000, 0x00ff_ffff_ffff_ffff];

pub fn gen_stream(rng: &mut Sm64, n: usize) -> Vec<u64> {
    // distinct items; half the time small dense integers; one stream in five STARTS with a few extreme values
    let dense = rng.below(2) == 0;
    let mut v = Vec::new();
    let mut seen = std::collections::HashSet::new();
    if rng.below(5) == 0 {
        let k = 1 + rng.below(4) as usize;
        let start = rng.below(EXTREME_ITEMS.len() as u64) as usize;
        for i in 0..k.min(n) {
            let x = EXTREME_ITEMS[(start + i * 5) % EXTREME_ITEMS.len()];
            if seen.insert(x) { v.push(x); }
        }
    }
    while v.len() < n {
        let x = if dense { rng.below(4 * n as u64 + 4) } else { rng.next() >> 1 };
        if seen.insert(x) {
            v.push(x);
        }
    }
    v
}

/// a reordering with duplicates of `items`
pub fn perturb(rng: &mut Sm64, items: &[u64]) -> Vec<u64> {
    let mut v = items.to_vec();
    rng.shuffle(&mut v);
    let extra = 1 + items.len() / 3;
    for _ in 0..extra {
        let x = *rng.pick(items);
        let at = rng.below(v.len() as u64 + 1) as usize;
        v.insert(at, x);
    }
    v
}

fn dump_smh<F: num::Float + std::fmt::Debug + rand_distr::uniform::SampleUniform, H: Hasher + Default>(
    s: &SuperMinHash<F, u64, H>,
    hex: impl Fn(F) -> String,
) -> String {
    let (q, p, b, ir, au) = s.verif_state();
    format!(
        "{} | {} | {} | {} | {} {}",
        join(&s.get_hsketch().iter().map(|x| hex(*x)).collect::<Vec<_>>()),
        join(&q),
        join(&p),
        join(&b),
        ir,
        au
    )
}

fn smh_case<H: Hasher + Default>(ctx: &mut Ctx, m: usize, items: &[u64], chunks: usize, f32v: bool, hname: &str) {
    ctx.begin_case(&format!("smh {} m={} n={} chunks={} {}", if f32v { "f32" } else { "f64" }, m, items.len(), chunks, hname));
    if items.len() > 1 {
        ctx.mark_nontrivial();
    }
    let sfx = if f32v { "32" } else { "64" };
    ctx.op(&format!("smh new{} a {}", sfx, m));
    for x in items {
        ctx.op(&format!("smh sk{} a {}", sfx, hash_tok::<H>(x)));
    }
    let bounds: Vec<usize> = (0..=chunks).map(|c| c * items.len() / chunks).collect();
    if f32v {
        let r = catch(std::panic::AssertUnwindSafe(|| {
            let mut s = SuperMinHash::<f32, u64, H>::new(m, BuildHasherDefault::<H>::default());
            for c in 0..chunks {
                let sl = &items[bounds[c]..bounds[c + 1]];
                if chunks == 1 && c == 0 {
                    for x in sl {
                        s.sketch(x).unwrap();
                    }
                } else if !sl.is_empty() {
                    s.sketch_slice(sl).unwrap();
                }
                let _ = s.get_hsketch().len(); // observers between chunks
                let _ = s.get_jaccard_index_estimate(&s.get_hsketch().clone());
            }
            dump_smh(&s, f32hx)
        }));
        ctx.line(&format!("smh dump{} a", sfx), &r.unwrap_or("PANIC".into()));
    } else {
        let r = catch(std::panic::AssertUnwindSafe(|| {
            let mut s = SuperMinHash::<f64, u64, H>::new(m, BuildHasherDefault::<H>::default());
            for c in 0..chunks {
                let sl = &items[bounds[c]..bounds[c + 1]];
                if chunks == 1 && c == 0 {
                    for x in sl {
                        s.sketch(x).unwrap();
                    }
                } else if !sl.is_empty() {
                    s.sketch_slice(sl).unwrap();
                }
                let _ = s.get_hsketch().len(); // observers between chunks
                let _ = s.get_jaccard_index_estimate(&s.get_hsketch().clone());
            }
            dump_smh(&s, fhx)
        }));
        ctx.line(&format!("smh dump{} a", sfx), &r.unwrap_or("PANIC".into()));
    }
}

pub fn smh_sketch_f64(m: usize, items: &[u64]) -> Result<Vec<f64>, String> {
    catch(std::panic::AssertUnwindSafe(|| {
        let mut s = SuperMinHash::<f64, u64, FnvHasher>::new(m, BuildHasherDefault::<FnvHasher>::default());
        for x in items {
            s.sketch(x).unwrap();
        }
        s.get_hsketch().clone()
    }))
}
pub fn smh_sketch_f32(m: usize, items: &[u64]) -> Result<Vec<f32>, String> {
    catch(std::panic::AssertUnwindSafe(|| {
        let mut s = SuperMinHash::<f32, u64, FnvHasher>::new(m, BuildHasherDefault::<FnvHasher>::default());
        for x in items {
            s.sketch(x).unwrap();
        }
        s.get_hsketch().clone()
    }))
}
pub fn smh2_sketch(m: usize, items: &[u64]) -> Result<Vec<u64>, String> {
    catch(std::panic::AssertUnwindSafe(|| {
        let mut s = SuperMinHash2::<u64, u64, FnvHasher>::new(m, BuildHasherDefault::<FnvHasher>::default());
        for x in items {
            s.sketch(x).unwrap();
        }
        s.get_hsketch().clone()
    }))
}

fn smh2_case(ctx: &mut Ctx, m: usize, items: &[u64], chunks: usize, kind: usize) {
    // kind 0: <u64,u64,Fnv>  1: <u64,u64,NoHash>  2: <u32,u32,NoHash> (hash fits u32)
    let kname = ["u64-fnv", "u64-nohash", "u32-nohash"][kind];
    ctx.begin_case(&format!("smh2 {} m={} n={} chunks={}", kname, m, items.len(), chunks));
    if items.len() > 1 {
        ctx.mark_nontrivial();
    }
    let imax: u64 = if kind == 2 { u32::MAX as u64 } else { u64::MAX };
    ctx.op(&format!("smh2 new a {} {}", imax, m));
    let bounds: Vec<usize> = (0..=chunks).map(|c| c * items.len() / chunks).collect();
    macro_rules! run {
        ($I:ty, $T:ty, $H:ty, $conv:expr) => {{
            for x in items {
                let it: $T = $conv(*x);
                ctx.op(&format!("smh2 sk a {}", hx(hash_with::<$H, $T>(&it))));
            }
            catch(std::panic::AssertUnwindSafe(|| {
                let mut s = SuperMinHash2::<$I, $T, $H>::new(m, BuildHasherDefault::<$H>::default());
                for c in 0..chunks {
                    let sl: Vec<$T> = items[bounds[c]..bounds[c + 1]].iter().map(|x| $conv(*x)).collect();
                    if chunks == 1 {
                        for x in &sl {
                            s.sketch(x).unwrap();
                        }
                    } else if !sl.is_empty() {
                        s.sketch_slice(&sl).unwrap();
                    }
                    let _ = s.get_hsketch().len(); // observer between chunks
                }
                let (values, l, b, au) = s.verif_state();
                let hs: Vec<u64> = s.get_hsketch().iter().map(|x| *x as u64).collect();
                // every position of a non-empty stream's sketch shows the hash of a streamed item (whatever the hasher)
                let hashes: std::collections::HashSet<u64> = items.iter().map(|x| { let it: $T = $conv(*x); hash_with::<$H, $T>(&it) }).collect();
                let foreign: Vec<u64> = hs.iter().cloned().filter(|h| !hashes.contains(h)).collect();
                (format!("{} | {} | {} | {} | {}", join(&hs), join(&values), join(&l), join(&b), au), foreign)
            }))
        }};
    }
    let r = match kind {
        0 => run!(u64, u64, FnvHasher, |x: u64| x),
        1 => run!(u64, u64, NoHash2, |x: u64| x),
        _ => run!(u32, u32, NoHash2, |x: u64| x as u32),
    };
    match r {
        Ok((txt, foreign)) => {
            ctx.line("smh2 dump a", &txt);
            if !foreign.is_empty() && !items.is_empty() {
                ctx.oracle_failure(serde_json::json!({"kind":"impl_violates_property","what":"SuperMinHash2 position shows a value that is not the hash of a streamed item","sketcher":kname,"m":m,
                    "items":items.iter().take(20).map(|x| hx(*x)).collect::<Vec<_>>(),"foreign_values":foreign.iter().take(5).map(|x| hx(*x)).collect::<Vec<_>>()}));
            }
        }
        Err(_) => ctx.line("smh2 dump a", "PANIC"),
    }
}

pub fn corr_smh(ctx: &mut Ctx) {
    let ms: Vec<usize> = if ctx.quick() { vec![1, 2, 3, 4, 7, 16, 64, 257] } else { vec![1, 2, 3, 4, 7, 16, 64, 257, 1024] };
    let ns: Vec<usize> = if ctx.quick() { vec![1, 2, 3, 5, 17, 64, 300] } else { vec![1, 2, 3, 5, 17, 64, 300, 3000] };
    let ncases = ctx.n(70, 900);
    for c in 0..ncases {
        let m = ms[c as usize % ms.len()];
        let n = ns[(c as usize / 3) % ns.len()];
        let mut rng = ctx.rng.fork();
        let items = gen_stream(&mut rng, n);
        let chunks = 1 + (c as usize % 4).min(n.saturating_sub(1));
        ctx.count(&format!("m={}", m));
        ctx.count(&format!("n={}", n));
        // correspondence on the stream with duplicates and a random order (the model sees the same stream)
        let stream = if c % 2 == 0 { items.clone() } else { perturb(&mut rng, &items) };
        match c % 4 {
            0 => smh_case::<FnvHasher>(ctx, m, &stream, chunks, false, "fnv"),
            1 => smh_case::<FnvHasher>(ctx, m, &stream, chunks, true, "fnv"),
            2 => smh_case::<NoHash1>(ctx, m, &stream, chunks, false, "nohash"),
            _ => smh_case::<NoHash1>(ctx, m, &stream, chunks, true, "nohash"),
        }
        smh2_case(ctx, m, &stream, chunks, c as usize % 3);

        // ---- implementation-only oracles: set semantics (C04) and union = min of singletons (C05)
        ctx.note_case(&format!("smh oracles m={} n={} first={}", m, n, items[0]), n > 1);
        let base64 = smh_sketch_f64(m, &items);
        let base32 = smh_sketch_f32(m, &items);
        let base2 = smh2_sketch(m, &items);
        let pert = perturb(&mut rng, &items);
        if smh_sketch_f64(m, &pert) != base64 || base64.is_err() {
            ctx.oracle_failure(serde_json::json!({"kind":"impl_violates_property","what":"SuperMinHash<f64> sketch changes under reordering/repetition","m":m,"n":n,"items":items.iter().take(50).collect::<Vec<_>>()}));
        }
        if smh_sketch_f32(m, &pert) != base32 || base32.is_err() {
            ctx.oracle_failure(serde_json::json!({"kind":"impl_violates_property","what":"SuperMinHash<f32> sketch changes under reordering/repetition","m":m,"n":n,"items":items.iter().take(50).collect::<Vec<_>>()}));
        }
        if smh2_sketch(m, &pert) != base2 || base2.is_err() {
            ctx.oracle_failure(serde_json::json!({"kind":"impl_violates_property","what":"SuperMinHash2 sketch changes under reordering/repetition","m":m,"n":n,"items":items.iter().take(50).collect::<Vec<_>>()}));
        }
        if let Ok(b2) = &base2 {
            let hashes: std::collections::HashSet<u64> = items.iter().map(|x| hash_with::<FnvHasher, u64>(x)).collect();
            if b2.iter().any(|h| !hashes.contains(h)) {
                ctx.oracle_failure(serde_json::json!({"kind":"impl_violates_property","what":"SuperMinHash2 position holds something that is not the hash of a streamed item","m":m,"n":n}));
            }
        }
        if n <= 64 {
            if let Ok(b) = &base64 {
                let mut mn = vec![f64::INFINITY; m];
                for x in &items {
                    if let Ok(s1) = smh_sketch_f64(m, &[*x]) {
                        for p in 0..m {
                            mn[p] = mn[p].min(s1[p]);
                        }
                    }
                }
                if &mn != b {
                    ctx.oracle_failure(serde_json::json!({"kind":"impl_violates_property","what":"SuperMinHash sketch is not the position-wise min of the singleton sketches","m":m,"n":n,"items":items.iter().take(50).collect::<Vec<_>>()}));
                }
            }
        }
    }
    // RECYCLED sketchers: a sketcher that served another (small or large) set and was reinit-ed must give the sketch a fresh
    // one gives - users estimating many similarities reuse one object. Implementation only, SuperMinHash f64/f32 and SuperMinHash2.
    for c in 0..ctx.n(40, 400) {
        let mut rng = ctx.rng.fork();
        let m = [1usize, 2, 3, 8, 16, 64, 257][c as usize % 7];
        let nh = [0usize, 1, 2, 3, 5 * m + 3][(c as usize / 7) % 5];
        let hist = gen_stream(&mut rng, nh);
        let nx = 1 + rng.below(if c % 2 == 0 { 3 } else { 2 * m as u64 + 5 }) as usize;
        let mut xs = gen_stream(&mut rng, nx);
        if nh > 0 && c % 3 == 0 { xs[0] = hist[nh - 1]; }
        ctx.begin_case(&format!("recycled smh m={} hist={} x={}", m, nh, nx));
        ctx.mark_nontrivial();
        ctx.count("recycled sketcher (history, reinit, stream) vs fresh");
        let r64 = catch(std::panic::AssertUnwindSafe(|| { let mut s = SuperMinHash::<f64, u64, FnvHasher>::new(m, BuildHasherDefault::<FnvHasher>::default());
            for x in &hist { s.sketch(x).unwrap(); } s.reinit(); s.sketch_slice(&xs).unwrap(); s.get_hsketch().clone() }));
        let r32 = catch(std::panic::AssertUnwindSafe(|| { let mut s = SuperMinHash::<f32, u64, FnvHasher>::new(m, BuildHasherDefault::<FnvHasher>::default());
            for x in &hist { s.sketch(x).unwrap(); } s.reinit(); s.sketch_slice(&xs).unwrap(); s.get_hsketch().clone() }));
        let r2 = catch(std::panic::AssertUnwindSafe(|| { let mut s = SuperMinHash2::<u64, u64, FnvHasher>::new(m, BuildHasherDefault::<FnvHasher>::default());
            for x in &hist { s.sketch(x).unwrap(); } s.reinit(); s.sketch_slice(&xs).unwrap(); s.get_hsketch().clone() }));
        if r64 != smh_sketch_f64(m, &xs) || r32 != smh_sketch_f32(m, &xs) || r2 != smh2_sketch(m, &xs) {
            ctx.oracle_failure(serde_json::json!({"kind":"impl_violates_property","what":"a recycled sketcher (history, reinit, stream) gives another sketch than a fresh one",
                "m":m,"history":hist,"stream":xs,"smh_f64_ok": r64 == smh_sketch_f64(m, &xs),"smh_f32_ok": r32 == smh_sketch_f32(m, &xs),"smh2_ok": r2 == smh2_sketch(m, &xs)}));
        }
    }
    // MIXED entry points at small n (where one item's wrong treatment is visible): slice+slice, slice+items, items+slice, three slices
    // against one slice. Implementation only.
    for c in 0..ctx.n(60, 600) {
        let mut rng = ctx.rng.fork();
        let m = [1usize, 2, 3, 8, 16, 64, 257][c as usize % 7];
        let n = 2 + rng.below(if c % 2 == 0 { 4 } else { 2 * m as u64 + 6 }) as usize;
        let xs = gen_stream(&mut rng, n);
        let cut1 = 1 + rng.below(n as u64 - 1) as usize;
        let cut2 = cut1 + rng.below((n - cut1) as u64 + 1) as usize;
        ctx.begin_case(&format!("mixed entry points smh m={} n={} cuts={},{}", m, n, cut1, cut2));
        ctx.mark_nontrivial();
        ctx.count("mixed entry points (slice/slice, slice/items, items/slice) vs one slice");
        // plan: list of (is_slice, range)
        let plans: Vec<(&str, Vec<(bool, std::ops::Range<usize>)>)> = vec![
            ("slice+slice", vec![(true, 0..cut1), (true, cut1..n)]),
            ("slice+items", vec![(true, 0..cut1), (false, cut1..n)]),
            ("items+slice", vec![(false, 0..cut1), (true, cut1..n)]),
            ("slice+slice+slice", vec![(true, 0..cut1), (true, cut1..cut2), (true, cut2..n)]),
            ("slice+item+slice", vec![(true, 0..cut1), (false, cut1..cut2), (true, cut2..n)]),
        ];
        for (pname, plan) in plans {
            let r64 = catch(std::panic::AssertUnwindSafe(|| { let mut s = SuperMinHash::<f64, u64, FnvHasher>::new(m, BuildHasherDefault::<FnvHasher>::default());
                for (sl, r) in &plan { if *sl { let part = &xs[r.clone()]; let res = s.sketch_slice(part); if !part.is_empty() { res.unwrap(); } /* an empty slice is refused with Err and changes nothing */ } else { for x in &xs[r.clone()] { s.sketch(x).unwrap(); } } } s.get_hsketch().clone() }));
            let r32 = catch(std::panic::AssertUnwindSafe(|| { let mut s = SuperMinHash::<f32, u64, FnvHasher>::new(m, BuildHasherDefault::<FnvHasher>::default());
                for (sl, r) in &plan { if *sl { let part = &xs[r.clone()]; let res = s.sketch_slice(part); if !part.is_empty() { res.unwrap(); } /* an empty slice is refused with Err and changes nothing */ } else { for x in &xs[r.clone()] { s.sketch(x).unwrap(); } } } s.get_hsketch().clone() }));
            let r2 = catch(std::panic::AssertUnwindSafe(|| { let mut s = SuperMinHash2::<u64, u64, FnvHasher>::new(m, BuildHasherDefault::<FnvHasher>::default());
                for (sl, r) in &plan { if *sl { let part = &xs[r.clone()]; let res = s.sketch_slice(part); if !part.is_empty() { res.unwrap(); } /* an empty slice is refused with Err and changes nothing */ } else { for x in &xs[r.clone()] { s.sketch(x).unwrap(); } } } s.get_hsketch().clone() }));
            if r64 != smh_sketch_f64(m, &xs) || r32 != smh_sketch_f32(m, &xs) || r2 != smh2_sketch(m, &xs) {
                ctx.oracle_failure(serde_json::json!({"kind":"impl_violates_property","what":"chunking the stream over several calls (mixed entry points) gives another sketch than one slice",
                    "plan":pname,"m":m,"stream":xs,"cuts":[cut1,cut2],"smh_f64_ok": r64 == smh_sketch_f64(m, &xs),"smh_f32_ok": r32 == smh_sketch_f32(m, &xs),"smh2_ok": r2 == smh2_sketch(m, &xs)}));
                break;
            }
        }
    }
    // long streams on ONE instance (> 2^16 + 2^8 items): counters, ranks or generation stamps kept in a narrow
    // integer show only then. Implementation only: three orders of the same items on fresh instances.
    for (m, n) in if ctx.quick() { vec![(8usize, 65_536usize + 300)] } else { vec![(8, 65_536 + 300), (64, 140_000), (3, 70_000)] } {
        ctx.begin_case(&format!("long stream m={} n={}", m, n));
        ctx.mark_nontrivial();
        ctx.count("long stream (> 2^16 items on one instance)");
        let mut rng = ctx.rng.fork();
        let items = gen_stream(&mut rng, n);
        let mut rev = items.clone(); rev.reverse();
        let mut rot = items.clone(); rot.rotate_left(65_536);
        let mut dup = items.clone(); dup.extend_from_slice(&items[..300]);
        for (name, o) in [("reversed", &rev), ("rotated by 2^16", &rot), ("first 300 items repeated at the end", &dup)] {
            if smh_sketch_f64(m, o) != smh_sketch_f64(m, &items) {
                ctx.oracle_failure(serde_json::json!({"kind":"impl_violates_property","what":"SuperMinHash<f64> sketch of a long stream changes under reordering/repetition","m":m,"n":n,"order":name}));
            }
            if smh_sketch_f32(m, o) != smh_sketch_f32(m, &items) {
                ctx.oracle_failure(serde_json::json!({"kind":"impl_violates_property","what":"SuperMinHash<f32> sketch of a long stream changes under reordering/repetition","m":m,"n":n,"order":name}));
            }
            if smh2_sketch(m, o) != smh2_sketch(m, &items) {
                ctx.oracle_failure(serde_json::json!({"kind":"impl_violates_property","what":"SuperMinHash2 sketch of a long stream changes under reordering/repetition","m":m,"n":n,"order":name}));
            }
            let ssk = |v: &[u64]| { let mut s = crate::ssk::new16((1.2, m as u64, 20.0, 65534)); for x in v { s.sketch(x).unwrap(); } s.get_signature().clone() };
            if ssk(o) != ssk(&items) {
                ctx.oracle_failure(serde_json::json!({"kind":"impl_violates_property","what":"SetSketch of a long stream changes under reordering/repetition","m":m,"n":n,"order":name}));
            }
            for kind in 0..4 {
                let dn = |v: &[u64]| { let mut d = crate::dens::D::new(kind, m); for x in v { d.sketch(x); } d.end_sketch(); d.dump() };
                if dn(o) != dn(&items) {
                    ctx.oracle_failure(serde_json::json!({"kind":"impl_violates_property","what":"densified sketch of a long stream changes under reordering/repetition","m":m,"n":n,"order":name,"kind":kind}));
                }
            }
        }
    }
    // constructor edge
    ctx.begin_case("smh/smh2 size 0");
    let r = catch(|| { let _ = SuperMinHash::<f64, u64, FnvHasher>::new(0, BuildHasherDefault::<FnvHasher>::default()); });
    ctx.line("smh new64 z 0", if r.is_err() { "PANIC" } else { "ok" });
    let r = catch(|| { let _ = SuperMinHash2::<u64, u64, FnvHasher>::new(0, BuildHasherDefault::<FnvHasher>::default()); });
    ctx.line("smh2 new z 18446744073709551615 0", if r.is_err() { "PANIC" } else { "ok" });
    // SuperMinHash2<u32> with a 64-bit hash: from_u64 unwrap
    ctx.begin_case("smh2 u32 sketch with a hash above u32::MAX");
    let r = catch(|| {
        let mut s = SuperMinHash2::<u32, u64, FnvHasher>::new(4, BuildHasherDefault::<FnvHasher>::default());
        let _ = s.sketch(&12345u64);
    });
    ctx.op("smh2 new w 4294967295 4");
    ctx.line(&format!("smh2 sk w {}", fnv_tok(&12345u64)), if r.is_err() { "PANIC" } else { "ok" });
}

pub fn corr(ctx: &mut Ctx) {
    corr_smh(ctx);
}

//! shared plumbing: deterministic generator, case recorder, canonical encodings
use std::hash::BuildHasher;
use std::collections::{BTreeMap, HashSet};
use std::fs::File;
use std::hash::{Hash, Hasher};
use std::io::{BufWriter, Write};

/// SplitMix64: the one PRNG every generator choice derives from
#[derive(Clone)]
pub struct Sm64(pub u64);
impl Sm64 {
    pub fn next(&mut self) -> u64 {
        self.0 = self.0.wrapping_add(0x9E3779B97F4A7C15);
        let mut z = self.0;
        z = (z ^ (z >> 30)).wrapping_mul(0xBF58476D1CE4E5B9);
        z = (z ^ (z >> 27)).wrapping_mul(0x94D049BB133111EB);
        z ^ (z >> 31)
    }
    pub fn below(&mut self, n: u64) -> u64 {
        if n == 0 {
            0
        } else {
            self.next() % n
        }
    }
    pub fn range(&mut self, lo: u64, hi: u64) -> u64 {
        lo + self.below(hi - lo + 1)
    }
    pub fn unit(&mut self) -> f64 {
        (self.next() >> 11) as f64 / (1u64 << 53) as f64
    }
    pub fn pick<'a, T>(&mut self, v: &'a [T]) -> &'a T {
        &v[self.below(v.len() as u64) as usize]
    }
    pub fn shuffle<T>(&mut self, v: &mut [T]) {
        for i in (1..v.len()).rev() {
            let j = self.below(i as u64 + 1) as usize;
            v.swap(i, j);
        }
    }
    pub fn fork(&mut self) -> Sm64 {
        Sm64(self.next())
    }
}

pub fn hx(x: u64) -> String {
    format!("{:016x}", x)
}
pub fn fhx(x: f64) -> String {
    format!("{:016x}", x.to_bits())
}
pub fn f32hx(x: f32) -> String {
    format!("{:08x}", x.to_bits())
}
pub fn join<T: std::fmt::Display>(v: &[T]) -> String {
    let mut s = String::new();
    for (i, x) in v.iter().enumerate() {
        if i > 0 {
            s.push(' ');
        }
        s.push_str(&x.to_string());
    }
    s
}
pub fn join_fhx(v: &[f64]) -> String {
    join(&v.iter().map(|x| fhx(*x)).collect::<Vec<_>>())
}
pub fn join_hx(v: &[u64]) -> String {
    join(&v.iter().map(|x| hx(*x)).collect::<Vec<_>>())
}

#[derive(Clone, Copy, PartialEq, Eq)]
pub enum Tier {
    Quick,
    Thorough,
}

pub struct Ctx {
    ops: BufWriter<File>,
    imp: BufWriter<File>,
    pub seed: u64,
    pub tier: Tier,
    pub rng: Sm64,
    pub evals: u64,
    nontrivial: HashSet<u64>,
    cur_hash: std::collections::hash_map::DefaultHasher,
    cur_nontrivial: bool,
    cur_open: bool,
    pub hist: BTreeMap<String, u64>,
    pub samples: Vec<String>,
    cur_sample: String,
    pub oracle_failures: Vec<serde_json::Value>,
    pub known_hits: Vec<String>,
    pub lines: u64,
    pub outdir: String,
    pub extra: BTreeMap<String, serde_json::Value>,
}

/// the case being executed and when it started: read by the watchdog thread
static WATCH: std::sync::Mutex<Option<(String, std::time::Instant)>> = std::sync::Mutex::new(None);

/// a call into the code under test that never returns must not stall the check: after `limit` seconds in one case the
/// watchdog writes `<outdir>/hang.json` (the case description) and ends the process with status 4
fn start_watchdog(outdir: String, limit: u64) {
    std::thread::spawn(move || loop {
        std::thread::sleep(std::time::Duration::from_millis(500));
        let hung = match WATCH.lock() {
            Ok(g) => match &*g { Some((d, t)) if t.elapsed().as_secs() >= limit => Some(d.clone()), _ => None },
            Err(_) => None,
        };
        if let Some(desc) = hung {
            let v = serde_json::json!({"kind":"impl_violates_property","what":"a call into the code under test did not return (watchdog)","case":desc,"limit_s":limit});
            let _ = std::fs::write(format!("{}/hang.json", outdir), serde_json::to_string(&v).unwrap());
            std::process::exit(4);
        }
    });
}

impl Ctx {
    pub fn new(outdir: &str, seed: u64, tier: Tier) -> Ctx {
        std::fs::create_dir_all(outdir).unwrap();
        let _ = std::fs::remove_file(format!("{}/hang.json", outdir));
        start_watchdog(outdir.to_string(), if tier == Tier::Quick { 60 } else { 1200 });
        Ctx {
            ops: BufWriter::new(File::create(format!("{}/ops.txt", outdir)).unwrap()),
            imp: BufWriter::new(File::create(format!("{}/impl.txt", outdir)).unwrap()),
            seed,
            tier,
            rng: Sm64(seed ^ 0x5151_7ea1_0000_0001),
            evals: 0,
            nontrivial: HashSet::new(),
            cur_hash: std::collections::hash_map::DefaultHasher::new(),
            cur_nontrivial: false,
            cur_open: false,
            hist: BTreeMap::new(),
            samples: Vec::new(),
            cur_sample: String::new(),
            oracle_failures: Vec::new(),
            known_hits: Vec::new(),
            lines: 0,
            outdir: outdir.to_string(),
            extra: BTreeMap::new(),
        }
    }
    pub fn quick(&self) -> bool {
        self.tier == Tier::Quick
    }
    pub fn n(&self, quick: u64, thorough: u64) -> u64 {
        if self.quick() {
            quick
        } else {
            thorough
        }
    }
    /// one model operation and what the implementation answered
    pub fn line(&mut self, op: &str, expected: &str) {
        debug_assert!(!op.contains('\n') && !expected.contains('\n'));
        writeln!(self.ops, "{}", op).unwrap();
        writeln!(self.imp, "{}", expected).unwrap();
        op.hash(&mut self.cur_hash);
        self.lines += 1;
        if self.cur_sample.len() < 600 {
            self.cur_sample.push_str(op);
            self.cur_sample.push_str(" => ");
            self.cur_sample.push_str(expected);
            self.cur_sample.push_str(" ; ");
        }
    }
    /// an operation whose model answer is not compared (set-up)
    pub fn op(&mut self, op: &str) {
        self.line(op, "ok");
    }
    pub fn current_case(&self) -> String {
        self.cur_sample.clone()
    }
    pub fn begin_case(&mut self, desc: &str) {
        self.end_case();
        self.cur_open = true;
        self.cur_hash = std::collections::hash_map::DefaultHasher::new();
        self.cur_nontrivial = false;
        self.cur_sample.clear();
        self.evals += 1;
        let l = format!("case {} {}", self.evals, desc);
        writeln!(self.ops, "{}", l).unwrap();
        writeln!(self.imp, "case {}", self.evals).unwrap();
        self.lines += 1;
        self.cur_sample = format!("[{}] ", desc);
        if let Ok(mut g) = WATCH.lock() { *g = Some((desc.to_string(), std::time::Instant::now())); }
    }
    pub fn mark_nontrivial(&mut self) {
        self.cur_nontrivial = true;
    }
    pub fn count(&mut self, key: &str) {
        *self.hist.entry(key.to_string()).or_insert(0) += 1;
    }
    pub fn count_n(&mut self, key: &str, n: u64) {
        *self.hist.entry(key.to_string()).or_insert(0) += n;
    }
    /// a case that never reaches the model (implementation-only oracle): still counted
    pub fn note_case(&mut self, canon: &str, nontrivial: bool) {
        self.end_case();
        self.evals += 1;
        if nontrivial {
            let mut h = std::collections::hash_map::DefaultHasher::new();
            canon.hash(&mut h);
            self.nontrivial.insert(h.finish());
        }
        if self.samples.len() < 4 {
            let mut s = canon.to_string();
            s.truncate(400);
            self.samples.push(s);
        }
    }
    pub fn end_case(&mut self) {
        if let Ok(mut g) = WATCH.lock() { *g = None; }
        if !self.cur_open {
            return;
        }
        self.cur_open = false;
        if self.cur_nontrivial {
            self.nontrivial.insert(self.cur_hash.clone().finish());
        }
        if self.samples.len() < 4 || (self.evals % 97 == 0 && self.samples.len() < 8) {
            self.samples.push(self.cur_sample.clone());
        }
    }
    pub fn oracle_failure(&mut self, v: serde_json::Value) {
        if self.oracle_failures.len() < 20 {
            self.oracle_failures.push(v);
        }
    }
    pub fn finish(mut self) {
        self.end_case();
        self.ops.flush().unwrap();
        self.imp.flush().unwrap();
        let v = serde_json::json!({
            "seed": self.seed,
            "tier": if self.quick() {"quick"} else {"thorough"},
            "evaluations": self.evals,
            "distinct_nontrivial": self.nontrivial.len(),
            "lines": self.lines,
            "histogram": self.hist,
            "samples": self.samples,
            "oracle_failures": self.oracle_failures,
            "known_hits": self.known_hits,
            "extra": self.extra,
        });
        std::fs::write(
            format!("{}/summary.json", self.outdir),
            serde_json::to_string_pretty(&v).unwrap(),
        )
        .unwrap();
    }
}

/// run `f` catching panics; the panic message (first line) is returned on failure
pub fn catch<T>(f: impl FnOnce() -> T + std::panic::UnwindSafe) -> Result<T, String> {
    match std::panic::catch_unwind(f) {
        Ok(v) => Ok(v),
        Err(e) => {
            let msg = if let Some(s) = e.downcast_ref::<&str>() {
                s.to_string()
            } else if let Some(s) = e.downcast_ref::<String>() {
                s.clone()
            } else {
                "panic".to_string()
            };
            Err(msg.lines().next().unwrap_or("").to_string())
        }
    }
}

/// the token that makes the MODEL hash the u64 item `x` with its own FNV-1a (`fnv:<id>`): the item -> hash step is then
/// inside the model; the real sketcher hashes with the `fnv` crate
pub fn fnv_tok(x: &u64) -> String {
    format!("fnv:{}", x)
}

/// token for the hash of item `x` under hasher `H`: `fnv:<id>` (model-side FNV-1a) for `FnvHasher`, the hash in hex otherwise
pub fn hash_tok<H: std::hash::Hasher + Default>(x: &u64) -> String {
    if std::any::type_name::<H>().contains("FnvHasher") { fnv_tok(x) } else { hx(std::hash::BuildHasherDefault::<H>::default().hash_one(x)) }
}

//! the Lean models of the external hash functions (Model/Hashers.lean: FNV-1a, murmur3_32, Sha512_256 -> xoshiro seed
//! words, the WyHash combiner of ProbOrdMinHash2) against the crates the sketchers call
use crate::util::*;
use sha2::{Digest, Sha512_256};
use std::hash::{BuildHasher, BuildHasherDefault, Hasher};
use std::io::Cursor;

fn hexbytes(b: &[u8]) -> String {
    if b.is_empty() { "-".to_string() } else { b.iter().map(|x| format!("{:02x}", x)).collect() }
}

pub fn corr(ctx: &mut Ctx, which: &str) {
    let n = ctx.n(60, 600);
    for c in 0..n {
        let x = match c { 0 => 0u64, 1 => u64::MAX, 2 => 1, 3 => 1 << 63, 4 => 0xff, _ => if c % 3 == 0 { ctx.rng.below(1000) } else { ctx.rng.next() } };
        let len = [0usize, 1, 3, 4, 5, 7, 8, 9, 15, 16, 17, 31, 32, 33, 63, 64, 65, 111, 112, 113, 127, 128, 129, 200, 255, 256, 257][c as usize % 27];
        let bytes: Vec<u8> = (0..len).map(|_| ctx.rng.next() as u8).collect();
        ctx.begin_case(&format!("hashers {}", which));
        ctx.mark_nontrivial();
        if which == "fnv" || which == "all" {
            ctx.line(&format!("hash fnv64 {}", x), &hx(BuildHasherDefault::<fnv::FnvHasher>::default().hash_one(&x)));
            ctx.line(&format!("hash fnv32 {}", x as u32), &hx(BuildHasherDefault::<fnv::FnvHasher>::default().hash_one(&(x as u32))));
            let mut h = fnv::FnvHasher::default();
            h.write(&bytes);
            ctx.line(&format!("hash fnvbytes {}", hexbytes(&bytes)), &hx(h.finish()));
        }
        if which == "murmur" || which == "all" {
            ctx.line(&format!("hash murmur {}", hx(x)), &format!("{:08x}", murmur3::murmur3_32(&mut Cursor::new(x.to_ne_bytes()), 127).unwrap()));
            let sd = (ctx.rng.next() >> 32) as u32;
            ctx.line(&format!("hash murmurbytes {} {}", sd, hexbytes(&bytes)), &format!("{:08x}", murmur3::murmur3_32(&mut Cursor::new(&bytes), sd).unwrap()));
        }
        if which == "sha" || which == "all" {
            let mut h = Sha512_256::new();
            h.update(&bytes);
            let d = h.finalize();
            let w: Vec<u64> = (0..4).map(|i| u64::from_le_bytes(d[8 * i..8 * i + 8].try_into().unwrap())).collect();
            ctx.line(&format!("hash sha {}", hexbytes(&bytes)), &join_hx(&w));
        }
        if which == "wy" || which == "all" {
            let seed = if c % 2 == 0 { 0xcf7355744a6e8145u64 } else { ctx.rng.next() };
            let l = (c % 9) as usize;
            let vals: Vec<u64> = (0..l).map(|_| ctx.rng.next()).collect();
            let mut h = wyhash::WyHash::with_seed(seed);
            for v in &vals { h.write_u64(*v); }
            ctx.line(&format!("hash wy {} {}", hx(seed), join_hx(&vals)), &hx(h.finish()));
        }
    }
}

//! C17: lazy Fisher–Yates — the real `FYshuffle` driven by a scripted `RngCore`, vs the model
use crate::util::*;
use probminhash::fyshuffle::FYshuffle;
use rand::RngCore;
use rand::SeedableRng;
use rand_xoshiro::Xoshiro256PlusPlus;

/// generator returning scripted 64-bit words (then panics: a consumer that draws more than scripted is a finding)
pub struct Scripted {
    pub words: Vec<u64>,
    pub pos: usize,
}
impl RngCore for Scripted {
    fn next_u32(&mut self) -> u32 {
        (self.next_u64() >> 32) as u32
    }
    fn next_u64(&mut self) -> u64 {
        let w = self.words[self.pos];
        self.pos += 1;
        w
    }
    fn fill_bytes(&mut self, dest: &mut [u8]) {
        for b in dest.iter_mut() {
            *b = self.next_u64() as u8;
        }
    }
}

fn word(ctx: &mut Ctx) -> u64 {
    match ctx.rng.below(10) {
        0 => 0,
        1 => u64::MAX, // xsi = 1 - 2^-52 : top of the unit interval
        2 => u64::MAX << 12,
        3 => 1u64 << 63,
        4 => (1u64 << 12) - 1, // xsi = 0 with all discarded bits set
        _ => ctx.rng.next(),
    }
}

pub fn prng_corr(ctx: &mut Ctx) {
    // the Lean Xoshiro256++ / SplitMix64 / Uniform re-implementations against the crates
    use rand::distr::{Distribution, Uniform};
    for c in 0..ctx.n(40, 400) {
        let seed = if c < 3 { [0u64, 1, u64::MAX][c as usize] } else { ctx.rng.next() };
        ctx.begin_case("prng");
        ctx.mark_nontrivial();
        let mut r = Xoshiro256PlusPlus::seed_from_u64(seed);
        let v: Vec<u64> = (0..8).map(|_| r.next_u64()).collect();
        ctx.line(&format!("xo seed {} 8", hx(seed)), &join_hx(&v));
        let mut r = Xoshiro256PlusPlus::seed_from_u64(seed);
        let u = Uniform::<f64>::new(0., 1.).unwrap();
        let v: Vec<f64> = (0..4).map(|_| u.sample(&mut r)).collect();
        ctx.line(&format!("xo unif01 {} 4", hx(seed)), &join_fhx(&v));
        let mut r = Xoshiro256PlusPlus::seed_from_u64(seed);
        let u = Uniform::<f32>::new(0., 1.).unwrap();
        let v: Vec<String> = (0..4).map(|_| f32hx(u.sample(&mut r))).collect();
        ctx.line(&format!("xo unif01f32 {} 4", hx(seed)), &join(&v));
        let (lo, hi) = match c % 5 {
            0 => (0usize, 1usize),
            1 => (0, 3),
            2 => (ctx.rng.below(50) as usize, 50 + ctx.rng.below(1000) as usize),
            3 => (0, (1usize << 32) - ctx.rng.below(3) as usize), // rejection prone 32-bit range
            _ => (5, (1usize << 33) + 7),                          // 64-bit mode
        };
        let mut r = Xoshiro256PlusPlus::seed_from_u64(seed);
        let u = Uniform::<usize>::new(lo, hi).unwrap();
        let v: Vec<usize> = (0..6).map(|_| u.sample(&mut r)).collect();
        ctx.line(&format!("xo unifusize {} {} {} 6", hx(seed), lo, hi), &join(&v));
        let mut r = Xoshiro256PlusPlus::seed_from_u64(seed);
        let u = Uniform::new(0u64, usize::MAX as u64).unwrap();
        let v: Vec<u64> = (0..4).map(|_| u.sample(&mut r)).collect();
        ctx.line(&format!("xo unifu64 {} 0 {} 4", hx(seed), usize::MAX as u64), &join(&v));
        // from_seed of 32 bytes
        let words = [ctx.rng.next(), ctx.rng.next(), if c % 7 == 0 { 0 } else { ctx.rng.next() }, 0u64];
        let mut sd = [0u8; 32];
        for i in 0..4 {
            sd[8 * i..8 * i + 8].copy_from_slice(&words[i].to_le_bytes());
        }
        let mut r = Xoshiro256PlusPlus::from_seed(sd);
        let v: Vec<u64> = (0..4).map(|_| r.next_u64()).collect();
        ctx.line(&format!("xo words {} {} {} {} 4", hx(words[0]), hx(words[1]), hx(words[2]), hx(words[3])), &join_hx(&v));
    }
    ctx.begin_case("prng zero seed");
    let mut r = Xoshiro256PlusPlus::from_seed([0u8; 32]);
    let v: Vec<u64> = (0..4).map(|_| r.next_u64()).collect();
    ctx.line(&format!("xo words {} {} {} {} 4", hx(0), hx(0), hx(0), hx(0)), &join_hx(&v));
}

pub fn corr(ctx: &mut Ctx) {
    prng_corr(ctx);
    let ms: Vec<usize> = if ctx.quick() {
        vec![1, 2, 3, 4, 5, 7, 8, 16, 33, 64]
    } else {
        vec![1, 2, 3, 4, 5, 7, 8, 16, 33, 64, 257, 1024, 4096]
    };
    let ncases = ctx.n(120, 1500);
    for c in 0..ncases {
        let m = ms[c as usize % ms.len()];
        let ndraw_before = ctx.rng.below(3 * m as u64 + 1) as usize;
        ctx.begin_case(&format!("fy m={} before_reset={}", m, ndraw_before));
        ctx.count(&format!("m={}", m));
        let mut fy = FYshuffle::new(m);
        ctx.op(&format!("fy new f {}", m));
        if c % 3 == 1 {
            // reset right after construction (a new instance has lastidx = m; its first draw otherwise takes the wrap-around branch)
            fy.reset();
            ctx.line("fy reset f", &join(fy.get_values()));
            ctx.count("op=reset right after new");
        }
        let mut script = Vec::new();
        let total = ndraw_before + 2 * m + ctx.rng.below(m as u64 + 1) as usize;
        for _ in 0..total {
            script.push(word(ctx));
        }
        let mut rng = Scripted { words: script.clone(), pos: 0 };
        let mut failed = false;
        // phase 1: draws before the reset (block structure without reset is checked here too)
        let mut block: Vec<usize> = Vec::new();
        for d in 0..ndraw_before {
            let w = script[d];
            match catch(std::panic::AssertUnwindSafe(|| fy.next(&mut rng))) {
                Ok(k) => {
                    if m <= 64 { ctx.line(&format!("fy next f {}", hx(w)), &format!("{} | {}", k, join(fy.get_values()))); }
                    else { ctx.line(&format!("fy nextk f {}", hx(w)), &format!("{}", k)); if (d + 1) % m == 0 { ctx.line("fy values f", &join(fy.get_values())); } }
                    block.push(k);
                    if block.len() == m {
                        let mut b = block.clone();
                        b.sort();
                        if b != (0..m).collect::<Vec<_>>() {
                            ctx.oracle_failure(serde_json::json!({"kind":"impl_violates_property","what":"block of m draws (no reset) is not a permutation","m":m,"block":block, "script":script.iter().map(|x| hx(*x)).collect::<Vec<_>>()}));
                        }
                        block.clear();
                    }
                }
                Err(msg) => {
                    ctx.line(&format!("fy {} f {}", if m <= 64 { "next" } else { "nextk" }, hx(w)), "PANIC");
                    ctx.oracle_failure(serde_json::json!({"kind":"impl_violates_property","what":"next panicked","m":m,"msg":msg,"draw":d}));
                    failed = true;
                    break;
                }
            }
        }
        if failed {
            continue;
        }
        fy.reset();
        ctx.line("fy reset f", &join(fy.get_values()));
        ctx.count("op=reset");
        // phase 2: after reset, a fresh instance fed the same words must behave identically ("forgets history")
        let mut fresh = FYshuffle::new(m);
        let mut rng2 = Scripted { words: script[ndraw_before..].to_vec(), pos: 0 };
        let mut drawn = Vec::new();
        for d in ndraw_before..total {
            let w = script[d];
            let r = catch(std::panic::AssertUnwindSafe(|| fy.next(&mut rng)));
            let r2 = catch(std::panic::AssertUnwindSafe(|| fresh.next(&mut rng2)));
            match (r, r2) {
                (Ok(k), Ok(k2)) => {
                    if m <= 64 { ctx.line(&format!("fy next f {}", hx(w)), &format!("{} | {}", k, join(fy.get_values()))); }
                    else { ctx.line(&format!("fy nextk f {}", hx(w)), &format!("{}", k)); if (d + 1 - ndraw_before) % m == 0 || d + 1 == total { ctx.line("fy values f", &join(fy.get_values())); } }
                    if k != k2 {
                        ctx.oracle_failure(serde_json::json!({"kind":"impl_violates_property","what":"draws after reset depend on history","m":m,"before":ndraw_before,"draw":d-ndraw_before,"after_reset":k,"fresh":k2,
                         "script":script.iter().map(|x| hx(*x)).collect::<Vec<_>>()}));
                    }
                    drawn.push(k);
                    if drawn.len() % m == 0 {
                        let mut b = drawn[drawn.len() - m..].to_vec();
                        let vals = fy.get_values().clone();
                        if drawn.len() == m && vals != b {
                            ctx.oracle_failure(serde_json::json!({"kind":"impl_violates_property","what":"get_values differs from the m draws after reset","m":m}));
                        }
                        b.sort();
                        if b != (0..m).collect::<Vec<_>>() {
                            ctx.oracle_failure(serde_json::json!({"kind":"impl_violates_property","what":"m draws after reset are not a permutation","m":m,"draws":drawn,
                              "script":script.iter().map(|x| hx(*x)).collect::<Vec<_>>()}));
                        }
                    }
                }
                (a, _) => {
                    ctx.line(&format!("fy {} f {}", if m <= 64 { "next" } else { "nextk" }, hx(w)), "PANIC");
                    ctx.oracle_failure(serde_json::json!({"kind":"impl_violates_property","what":"next panicked after reset","m":m,"msg":format!("{:?}",a.err())}));
                    break;
                }
            }
        }
        ctx.count("op=next_blocks");
        if m > 1 {
            ctx.mark_nontrivial();
        }
    }
    // LARGE sizes (a threshold above which another code path is taken shows only here): few draws hitting the same positions,
    // reset, then the same words as a fresh instance; and one full block. Implementation only.
    for m in if ctx.quick() { vec![65_536usize, 65_537, 1 << 20, (1 << 20) + 1] } else { vec![65_535usize, 65_536, 65_537, 1 << 20, (1 << 20) + 1, 1 << 22, (1 << 24) + 3] } {
      for initial_reset in [false, true] {
        ctx.begin_case(&format!("fy large m={} reset_right_after_new={}", m, initial_reset));
        ctx.mark_nontrivial();
        ctx.count("op=large m");
        let mut fy = FYshuffle::new(m);
        if initial_reset { fy.reset(); }      // (a new instance has lastidx = m: its first draw otherwise goes through the wrap-around branch)
        // words giving offsets 2, 1 (=> position 2 twice), 0, m-1-k ... : small k / 2^52 fractions scaled to the remaining length
        let off_word = |off: usize, n: usize| -> u64 { let k = ((off as f64 + 0.5) / n as f64 * 4503599627370496.0) as u64; k << 12 };
        let pre: Vec<u64> = vec![off_word(2, m), off_word(1, m - 1), off_word(0, m - 2), off_word(m - 4, m - 3), off_word(5, m - 4), off_word(3, m - 5)];
        let mut r0 = Scripted { words: pre.clone(), pos: 0 };
        for _ in 0..pre.len() { fy.next(&mut r0); }
        fy.reset();
        let words: Vec<u64> = (0..64).map(|i| if i < 6 { pre[(i + 1) % 6] } else { word(ctx) }).collect();
        let mut r1 = Scripted { words: words.clone(), pos: 0 };
        let mut r2 = Scripted { words: words.clone(), pos: 0 };
        let mut fresh = FYshuffle::new(m);
        let a: Vec<usize> = (0..words.len()).map(|_| fy.next(&mut r1)).collect();
        let b: Vec<usize> = (0..words.len()).map(|_| fresh.next(&mut r2)).collect();
        if a != b {
            ctx.oracle_failure(serde_json::json!({"kind":"impl_violates_property","what":"draws after reset depend on history (large m)","m":m,"after_reset":a,"fresh":b}));
        }
        // a full block after another reset is a permutation and equals get_values
        fy.reset();
        let mut g = Xoshiro256PlusPlus::seed_from_u64(ctx.rng.next());
        let mut seen = vec![false; m];
        let mut ok = true;
        let mut blockv: Vec<usize> = Vec::with_capacity(m);
        for _ in 0..m { let k = fy.next(&mut g); if k >= m || seen[k] { ok = false; break; } seen[k] = true; blockv.push(k); }
        if !ok || &blockv != fy.get_values() {
            ctx.oracle_failure(serde_json::json!({"kind":"impl_violates_property","what":"m draws after reset are not a permutation / differ from get_values (large m)","m":m}));
        }
      }
    }
    // many resets between the draws that wrote the array and the block under test: a lazy reset that keeps a
    // generation or reset counter in a narrow integer fails exactly at 2^8 / 2^16 resets (implementation only)
    let reset_counts: Vec<usize> = if ctx.quick() { vec![255, 256, 257, 65_535, 65_536, 65_537] } else { vec![255, 256, 257, 511, 512, 65_535, 65_536, 65_537, 65_536 + 256, 131_072, 1 << 20] };
    for (ci, nreset) in reset_counts.iter().enumerate() {
        for m in [2usize, 5, 16] {
            for sparse_draws in [false, true] {
                ctx.begin_case(&format!("fy m={} resets={} draws_between={}", m, nreset, sparse_draws));
                ctx.count("op=many resets");
                ctx.mark_nontrivial();
                let mut fy = FYshuffle::new(m);
                let mut g = Xoshiro256PlusPlus::seed_from_u64(ctx.rng.next());
                for _ in 0..m { fy.next(&mut g); }              // writes every slot
                for i in 0..*nreset {
                    fy.reset();
                    if sparse_draws && i + 1 < *nreset && (i % 1000 == 7 || i + 3 == *nreset) { fy.next(&mut g); }
                }
                let words: Vec<u64> = (0..2 * m + ci).map(|_| word(ctx)).collect();
                let mut r1 = Scripted { words: words.clone(), pos: 0 };
                let mut r2 = Scripted { words: words.clone(), pos: 0 };
                let mut fresh = FYshuffle::new(m);
                let a = catch(std::panic::AssertUnwindSafe(|| (0..words.len()).map(|_| fy.next(&mut r1)).collect::<Vec<usize>>()));
                let b: Vec<usize> = (0..words.len()).map(|_| fresh.next(&mut r2)).collect();
                if a.as_ref().ok() != Some(&b) || fy.get_values() != fresh.get_values() {
                    ctx.oracle_failure(serde_json::json!({"kind":"impl_violates_property","what":"draws after reset depend on history (many resets before)","m":m,"resets":nreset,
                        "draws_between_resets":sparse_draws,"after_resets":format!("{:?}",a),"fresh":b}));
                }
            }
        }
    }
    // the float product at the only critical point: xsi = 1 - 2^-52 for every remaining length
    let nmax = ctx.n(1 << 12, 1 << 20);
    ctx.begin_case("fy top-of-unit-interval offsets");
    let xsi = 1.0f64 - f64::EPSILON;
    let mut bad = 0u64;
    for n in 1..=nmax {
        let off = (xsi * n as f64) as usize;
        if off >= n as usize {
            bad += 1;
            ctx.oracle_failure(serde_json::json!({"kind":"impl_violates_property","what":"offset out of range at top of unit interval","n":n}));
        }
    }
    ctx.line(&format!("fy topoffsets {}", nmax), &format!("{}", bad));
}

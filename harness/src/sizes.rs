//! Threshold sizes (implementation only): code paths selected by a size (blocked / chunked / parallel / narrow-counter
//! variants) show only at particular stream lengths n or sketch sizes m. For every sketcher with more than one entry
//! point the entry points must agree at n in {255, 256, 257, 1023..1025, 4095..4097, 8191..8193, 16384, 65535..65537}
//! and m in {5, 8, 64, 100, 256, 1001}: one slice = item-wise = two slices (cut at an odd place) = slices of 256.
use crate::c02::INIT;
use crate::c04::gen_stream;
use crate::dens::D;
use crate::util::*;
use fnv::FnvHasher;
use indexmap::IndexMap;
use probminhash::probminhasher::*;
use probminhash::superminhasher::SuperMinHash;
use probminhash::superminhasher2::SuperMinHash2;
use std::hash::BuildHasherDefault;

fn bh() -> BuildHasherDefault<FnvHasher> {
    BuildHasherDefault::<FnvHasher>::default()
}

fn chunkings(n: usize) -> Vec<(&'static str, Vec<usize>)> {
    // cut positions
    let mut v = vec![("one slice", vec![]), ("two slices", vec![n / 3 + 1]), ("slices of 256", (1..=(n / 256)).map(|i| i * 256).filter(|c| *c < n).collect::<Vec<_>>())];
    v.push(("item-wise", (1..n).collect()));
    v
}

fn split<'a>(items: &'a [u64], cuts: &[usize]) -> Vec<&'a [u64]> {
    let mut out = Vec::new();
    let mut a = 0;
    for c in cuts { out.push(&items[a..*c]); a = *c; }
    out.push(&items[a..]);
    out
}

pub fn corr(ctx: &mut Ctx, family: &str) {
    let ns: Vec<usize> = if ctx.quick() { vec![255, 256, 257, 1024, 4097, 8192, 8193, 65_536, 65_537] } else { vec![255, 256, 257, 1023, 1024, 1025, 4095, 4096, 4097, 8191, 8192, 8193, 16_384, 65_535, 65_536, 65_537, 131_073] };
    let ms: Vec<usize> = vec![5, 8, 64, 100, 256, 1001];
    for (i, n) in ns.iter().enumerate() {
        let mut rng = ctx.rng.fork();
        let m = { let _ = i; *rng.pick(&ms) };
        let items = gen_stream(&mut rng, *n);
        ctx.begin_case(&format!("threshold sizes {} n={} m={}", family, n, m));
        ctx.mark_nontrivial();
        ctx.count(&format!("threshold sizes ({})", family));
        let mut results: Vec<(String, String, String)> = Vec::new();   // (sketcher, entry, text)
        for (cname, cuts) in chunkings(*n) {
            let parts = split(&items, &cuts);
            if family == "smh" {
                let t = catch(std::panic::AssertUnwindSafe(|| { let mut s = SuperMinHash::<f64, u64, FnvHasher>::new(m, bh()); for p in &parts { if p.len() == 1 { s.sketch(&p[0]).unwrap(); } else { s.sketch_slice(p).unwrap(); } } join_fhx(s.get_hsketch()) }));
                results.push(("SuperMinHash<f64>".into(), cname.into(), t.unwrap_or_else(|e| format!("PANIC {}", e))));
                let t = catch(std::panic::AssertUnwindSafe(|| { let mut s = SuperMinHash::<f32, u64, FnvHasher>::new(m, bh()); for p in &parts { if p.len() == 1 { s.sketch(&p[0]).unwrap(); } else { s.sketch_slice(p).unwrap(); } } join(&s.get_hsketch().iter().map(|x| x.to_bits()).collect::<Vec<_>>()) }));
                results.push(("SuperMinHash<f32>".into(), cname.into(), t.unwrap_or_else(|e| format!("PANIC {}", e))));
                let t = catch(std::panic::AssertUnwindSafe(|| { let mut s = SuperMinHash2::<u64, u64, FnvHasher>::new(m, bh()); for p in &parts { if p.len() == 1 { s.sketch(&p[0]).unwrap(); } else { s.sketch_slice(p).unwrap(); } } join(s.get_hsketch()) }));
                results.push(("SuperMinHash2".into(), cname.into(), t.unwrap_or_else(|e| format!("PANIC {}", e))));
            }
            if family == "ssk" {
                for (b, wide, q16) in [(1.2f64, false, 65534u64), (1.001, true, 0), (1.0001, false, 1 << 17)] {
                    let t = catch(std::panic::AssertUnwindSafe(|| {
                        if wide { let mut s = crate::ssk::new32((b, m as u64, 20.0, 1 << 20)); for p in &parts { if p.len() == 1 { s.sketch(&p[0]).unwrap(); } else { s.sketch_slice(p).unwrap(); } }
                                  format!("{} | {:?}", join(&s.get_signature().iter().map(|x| *x as u64).collect::<Vec<_>>()), s.get_cardinal_stats().0.to_bits()) }
                        else { let mut s = crate::ssk::new16((b, m as u64, 20.0, q16)); for p in &parts { if p.len() == 1 { s.sketch(&p[0]).unwrap(); } else { s.sketch_slice(p).unwrap(); } }
                                  format!("{} | {:?}", join(&s.get_signature().iter().map(|x| *x as u64).collect::<Vec<_>>()), s.get_cardinal_stats().0.to_bits()) }
                    }));
                    results.push((format!("SetSketcher b={} q={}", b, q16), cname.into(), t.unwrap_or_else(|e| format!("PANIC {}", e))));
                }
            }
            if family == "dens" {
                // the densified sketchers are finished once: the last part goes through sketch_slice (or end_sketch when item-wise)
                for kind in 0..4 {
                    let t = catch(std::panic::AssertUnwindSafe(|| { let mut d = D::new(kind, m);
                        let np = parts.len();
                        for (pi, p) in parts.iter().enumerate() {
                            if pi + 1 == np && p.len() > 1 { d.sketch_slice(p); } else { for x in p.iter() { d.sketch(x); } if pi + 1 == np { d.end_sketch(); } }
                        }
                        d.dump() }));
                    results.push((format!("densified kind {}", kind), cname.into(), t.unwrap_or_else(|e| format!("PANIC {}", e))));
                }
            }
            if family == "pmh" && (cname != "item-wise") {
                let w = |x: u64| 0.25 + (x % 11) as f64 * 0.5;
                let t = catch(std::panic::AssertUnwindSafe(|| { let mut h = ProbMinHash3a::<u64, FnvHasher>::new(m, INIT);
                    for p in &parts { let mut map: IndexMap<u64, f64> = IndexMap::new(); for x in p.iter() { map.insert(*x, w(*x)); } h.hash_weigthed_idxmap(&map); }
                    format!("{} | {}", join(h.get_signature()), join_fhx(&h.verif_registers())) }));
                results.push(("ProbMinHash3a/3".into(), cname.into(), t.unwrap_or_else(|e| format!("PANIC {}", e))));
                let t = catch(std::panic::AssertUnwindSafe(|| { let mut h = ProbMinHash3aSha::<u64>::new(m, INIT);
                    for p in &parts { let mut map: IndexMap<u64, f64> = IndexMap::new(); for x in p.iter() { map.insert(*x, w(*x)); } h.hash_weigthed_idxmap(&map); }
                    format!("{} | {}", join(h.get_signature()), join_fhx(&h.verif_registers())) }));
                results.push(("ProbMinHash3aSha".into(), cname.into(), t.unwrap_or_else(|e| format!("PANIC {}", e))));
            }
            if family == "pmh" && cname == "item-wise" {
                let w = |x: u64| 0.25 + (x % 11) as f64 * 0.5;
                let t = catch(std::panic::AssertUnwindSafe(|| { let mut h = ProbMinHash3::<u64, FnvHasher>::new(m, INIT); for x in &items { h.hash_item(*x, &w(*x)); }
                    format!("{} | {}", join(h.get_signature()), join_fhx(&h.verif_registers())) }));
                results.push(("ProbMinHash3a/3".into(), cname.into(), t.unwrap_or_else(|e| format!("PANIC {}", e))));
            }
        }
        let mut first: std::collections::HashMap<String, (String, String)> = std::collections::HashMap::new();
        for (sk, entry, txt) in results {
            match first.get(&sk) {
                None => { first.insert(sk, (entry, txt)); }
                Some((e0, t0)) => if *t0 != txt {
                    ctx.oracle_failure(serde_json::json!({"kind":"impl_violates_property","what":"entry points / chunkings of one stream disagree at a threshold size","sketcher":sk,"n":n,"m":m,
                        "entry_a":e0,"entry_b":entry,"panic": if txt.starts_with("PANIC") { txt.clone() } else { String::new() }}));
                }
            }
        }
    }
}

//! ProbOrdMinHash2 (C11, C10 deterministic part, C12/C13): real sketcher vs model (store indices and values)
use crate::c04::hash_with;
use crate::util::*;
use fnv::FnvHasher;
use probminhash::probminhasher::probordminhash2::ProbOrdMinHash2;

type P = ProbOrdMinHash2<FnvHasher>;

fn gen_seq(rng: &mut Sm64, n: usize, alphabet: u64) -> Vec<u64> {
    (0..n).map(|_| 1 + rng.below(alphabet)).collect()
}

/// all permutations of a short vector
fn permutations(v: &[u64]) -> Vec<Vec<u64>> {
    if v.len() <= 1 {
        return vec![v.to_vec()];
    }
    let mut out = Vec::new();
    for i in 0..v.len() {
        let mut rest = v.to_vec();
        let x = rest.remove(i);
        for mut p in permutations(&rest) {
            p.insert(0, x);
            out.push(p);
        }
    }
    out
}

/// multiset of (element, occurrence) pairs selected at each position: (hash, occurrence number) sorted
fn selected_pairs(seq: &[u64], indices: &[u64], m: usize, l: usize) -> Vec<Vec<(u64, u64)>> {
    let mut occ = vec![0u64; seq.len()];
    let mut cnt = std::collections::HashMap::new();
    for (i, x) in seq.iter().enumerate() {
        let c = cnt.entry(*x).or_insert(0u64);
        *c += 1;
        occ[i] = *c;
    }
    (0..m)
        .map(|b| {
            let mut v: Vec<(u64, u64)> = (0..l).map(|j| { let ix = indices[b * l + j] as usize; (seq[ix], occ[ix]) }).collect();
            v.sort();
            v
        })
        .collect()
}

/// structured 64-bit hashes: families whose members agree in the low / high 32 bits, in the xor-fold of the two
/// halves, in the low 16 bits, or are byte/half swaps of each other — what a narrowed key or a weakened
/// combiner would confuse.  Items are fed through `NoHashHasher` (hash = item.swap_bytes()).
fn gen_structured(rng: &mut Sm64, n: usize) -> Vec<u64> {
    let base: Vec<u64> = (0..3).map(|_| rng.next()).collect();
    let mut pool: Vec<u64> = Vec::new();
    for b in &base {
        let (hi, lo) = (b >> 32, b & 0xffff_ffff);
        pool.push(*b);
        pool.push((rng.next() << 32) | lo); // same low 32
        pool.push((hi << 32) | (rng.next() & 0xffff_ffff)); // same high 32
        pool.push((lo << 32) | hi); // halves swapped: same fold32
        let d = rng.next() & 0xffff_ffff;
        pool.push(((hi ^ d) << 32) | (lo ^ d)); // same fold32
        pool.push((rng.next() << 16) | (b & 0xffff)); // same low 16
        pool.push(b.swap_bytes());
        pool.push(b ^ (1u64 << rng.below(64))); // one bit apart
        pool.push(b.wrapping_add(1));
    }
    pool.sort(); pool.dedup();
    // items whose NoHashHasher hash is the pool value
    (0..n).map(|_| rng.pick(&pool).swap_bytes()).collect()
}

pub fn corr(ctx: &mut Ctx) {
    cases::<FnvHasher>(ctx, false);
    cases::<probminhash::nohasher::NoHashHasher>(ctx, true);
    typed_cases(ctx);
    tail(ctx);
}

/// data types other than u64 (one-byte symbols, chars, strings, pairs) and hashers other than FNV / identity (SipHash with the
/// fixed keys of `DefaultHasher::new`, WyHash): small alphabets so that every symbol repeats and appears in different orders.
/// The model receives the hash the real hasher gives each typed element; permutations must select the same pairs (l = 1: same
/// signature); the signature must be the model's.
fn typed_case<D: std::hash::Hash + Eq + Clone + std::fmt::Debug, H: std::hash::Hasher + Default>(ctx: &mut Ctx, tname: &str, hname: &str, conv: &dyn Fn(u64) -> D, c: u64) {
    const SEED: u64 = 0x1234_5678_9abc_def0;
    let mut rng = ctx.rng.fork();
    // (all three drawn from the generator: index arithmetic on the case number had correlated them with the data type)
    let _ = c;
    let m = *rng.pick(&[1u32, 2, 8, 16]);
    let l = *rng.pick(&[1usize, 1, 2, 3]);
    let alphabet = *rng.pick(&[3u64, 7, 40, 200, 200]);
    let n = l + 3 + rng.below(30) as usize + if alphabet >= 40 { 40 } else { 0 };
    let ids = gen_seq(&mut rng, n, alphabet);
    let seq: Vec<D> = ids.iter().map(|x| conv(*x)).collect();
    let htok = |d: &D| hx(hash_with::<H, D>(d));
    ctx.begin_case(&format!("ord typed D={} H={} m={} l={} n={}", tname, hname, m, l, n));
    ctx.mark_nontrivial();
    ctx.count(&format!("ord data type {} hasher {}", tname, hname));
    let mut p = ProbOrdMinHash2::<H>::new(m, l);
    p.verif_set_seed(SEED);
    ctx.op(&format!("ord new a {} {} {}", m, l, hx(SEED)));
    let hashes: Vec<String> = seq.iter().map(|d| htok(d)).collect();
    match catch(std::panic::AssertUnwindSafe(|| p.hash_set(&seq))) {
        Ok(sig) => {
            let (ix, vals) = p.verif_store();
            ctx.line(&format!("ord set a {}", hashes.join(" ")), &format!("{} | {}", join(&ix), join_fhx(&vals)));
            ctx.line(&format!("ord sig a {} {}", hx(p.verif_wyhash_seed()), hashes.join(" ")), &join(&sig));
            // permutations: same selected (hash, occurrence) pairs per position; l = 1: same signature
            let hs: Vec<u64> = seq.iter().map(|d| hash_with::<H, D>(d)).collect();
            let sel = selected_pairs(&hs, &ix, m as usize, l);
            for _ in 0..4 {
                let mut order: Vec<u64> = (0..seq.len() as u64).collect();
                rng.shuffle(&mut order);
                let pm: Vec<D> = order.iter().map(|i| seq[*i as usize].clone()).collect();
                let hs2: Vec<u64> = pm.iter().map(|d| hash_with::<H, D>(d)).collect();
                let sig2 = p.hash_set(&pm);
                let (ix2, _) = p.verif_store();
                let sel2 = selected_pairs(&hs2, &ix2, m as usize, l);
                if sel2 != sel || (l == 1 && sig2 != sig) {
                    ctx.oracle_failure(serde_json::json!({"kind":"impl_violates_property","what":"selection at a position depends on where elements sit in the sequence (typed data)","data_type":tname,"hasher":hname,
                        "m":m,"l":l,"seq":format!("{:?}", seq),"perm":format!("{:?}", pm)}));
                    break;
                }
            }
        }
        Err(msg) => {
            ctx.line(&format!("ord set a {}", hashes.join(" ")), "PANIC");
            ctx.oracle_failure(serde_json::json!({"kind":"impl_violates_property","what":"hash_set panicked on typed data","data_type":tname,"hasher":hname,"msg":msg}));
        }
    }
}

fn typed_cases(ctx: &mut Ctx) {
    use std::collections::hash_map::DefaultHasher;
    use wyhash::WyHash;
    for c in 0..ctx.n(48, 480) {
        let k = c / 12;
        match c % 12 {
            0 => typed_case::<u8, FnvHasher>(ctx, "u8", "Fnv", &|x| x as u8, k),
            1 => typed_case::<u8, DefaultHasher>(ctx, "u8", "SipHash", &|x| x as u8, k),
            2 => typed_case::<u8, WyHash>(ctx, "u8", "WyHash", &|x| x as u8, k),
            3 => typed_case::<i8, WyHash>(ctx, "i8", "WyHash", &|x| (x as i8).wrapping_neg(), k),
            4 => typed_case::<bool, DefaultHasher>(ctx, "bool", "SipHash", &|x| x % 2 == 0, k),
            5 => typed_case::<char, DefaultHasher>(ctx, "char", "SipHash", &|x| char::from_u32(0x3b1 + x as u32).unwrap_or('?'), k),
            6 => typed_case::<String, WyHash>(ctx, "String", "WyHash", &|x| format!("s{}", x), k),
            7 => typed_case::<(u8, u8), FnvHasher>(ctx, "(u8,u8)", "Fnv", &|x| (x as u8, (x >> 3) as u8), k),
            8 => typed_case::<u16, WyHash>(ctx, "u16", "WyHash", &|x| x as u16, k),
            9 => typed_case::<u32, DefaultHasher>(ctx, "u32", "SipHash", &|x| x as u32, k),
            10 => typed_case::<usize, WyHash>(ctx, "usize", "WyHash", &|x| x as usize, k),
            _ => typed_case::<[u8; 2], DefaultHasher>(ctx, "[u8;2]", "SipHash", &|x| [x as u8, 7], k),
        }
    }
}

fn cases<H: std::hash::Hasher + Default>(ctx: &mut Ctx, structured: bool) {
    const SEED: u64 = 0x1234_5678_9abc_def0;
    let ncases = if structured { ctx.n(60, 600) } else { ctx.n(120, 1500) };
    for c in 0..ncases {
        let mut rng = ctx.rng.fork();
        let m = [1u32, 2, 3, 8, 16, 33][c as usize % 6];
        let l = [1usize, 1, 2, 3, 5][(c as usize / 6) % 5];
        let n = l + rng.below(40) as usize + if c % 7 == 0 { 200 } else { 0 };
        let alphabet = if c % 3 == 0 { 4 } else { 1000 }; // many repeats / mostly distinct
        let seq = if structured { gen_structured(&mut rng, n) } else { gen_seq(&mut rng, n, alphabet) };
        ctx.count(if structured { "hashes=structured (NoHashHasher)" } else { "hashes=FNV" });
        ctx.begin_case(&format!("ord m={} l={} n={} alphabet={}", m, l, n, alphabet));
        ctx.count(&format!("m={}", m));
        ctx.count(&format!("l={}", l));
        ctx.mark_nontrivial();
        let mut p = ProbOrdMinHash2::<H>::new(m, l);
        p.verif_set_seed(SEED);
        // one case in five: the documented way of randomising an instance (change_rng_seed) - the model then runs with the seeds the
        // instance reports; everything that holds for the default seeds must hold for these too
        let seed_used = if c % 5 == 4 { p.change_rng_seed(); ctx.count("ord after change_rng_seed"); p.verif_seed() } else { SEED };
        ctx.op(&format!("ord new a {} {} {}", m, l, hx(seed_used)));
        let hashes: Vec<String> = seq.iter().map(|x| hash_tok::<H>(x)).collect();
        // earlier calls on the same instance must not matter
        if c % 2 == 1 {
            let other = if structured { gen_structured(&mut rng, l + 7) } else { gen_seq(&mut rng, l + 7, 50) };
            let _ = catch(std::panic::AssertUnwindSafe(|| p.hash_set(&other)));
            let oh: Vec<String> = other.iter().map(|x| hash_tok::<H>(x)).collect();
            ctx.line(&format!("ord set a {}", oh.join(" ")), &{
                let (ix, vals) = p.verif_store();
                format!("{} | {}", join(&ix), join_fhx(&vals))
            });
        }
        let r = catch(std::panic::AssertUnwindSafe(|| p.hash_set(&seq)));
        match &r {
            Ok(sig) => {
                let (ix, vals) = p.verif_store();
                ctx.line(&format!("ord set a {}", hashes.join(" ")), &format!("{} | {}", join(&ix), join_fhx(&vals)));
                // the signature itself: WyHash combination of the selected elements' hashes (model of the combiner in Model/Hashers.lean)
                ctx.line(&format!("ord sig a {} {}", hx(p.verif_wyhash_seed()), hashes.join(" ")), &join(sig));
                // oracles on the implementation
                let sel = selected_pairs(&seq, &ix, m as usize, l);
                // (a) same instance, same input again: identical signature (self-clearing)
                let again = p.hash_set(&seq);
                if &again != sig {
                    ctx.oracle_failure(serde_json::json!({"kind":"impl_violates_property","what":"hash_set twice on one instance gives different signatures","m":m,"l":l,"seq":seq}));
                }
                // (b) permutations: selected (element, occurrence) pairs per position are order-free; l=1: signature invariant
                let perms: Vec<Vec<u64>> = if seq.len() <= 5 { permutations(&seq) } else { (0..3).map(|_| { let mut v = seq.clone(); rng.shuffle(&mut v); v }).collect() };
                for pm in perms.iter().take(120) {
                    let sig2 = p.hash_set(pm);
                    let (ix2, _) = p.verif_store();
                    let sel2 = selected_pairs(pm, &ix2, m as usize, l);
                    if sel2 != sel || (l == 1 && &sig2 != sig) {
                        ctx.oracle_failure(serde_json::json!({"kind":"impl_violates_property","key":format!("ord-perm:m={}:l={}",m,l),
                          "what":"selection at a position depends on where elements sit in the sequence","m":m,"l":l,"seq":seq,"perm":pm,
                          "positions_differing": (0..m as usize).filter(|b| sel[*b] != sel2[*b]).collect::<Vec<_>>()}));
                        break;
                    }
                }
                // (c) a second instance (same parameters) gives the same signature
                let mut q = ProbOrdMinHash2::<H>::new(m, l);
                let s2 = q.hash_set(&seq);
                let mut q2 = ProbOrdMinHash2::<H>::new(m, l);
                q2.verif_set_seed(SEED);
                let s3 = q2.hash_set(&seq);
                if &s3 != sig && c % 5 != 4 {
                    ctx.oracle_failure(serde_json::json!({"kind":"impl_violates_property","what":"two instances with the same seed differ","m":m,"l":l}));
                }
                let mut fresh = ProbOrdMinHash2::<H>::new(m, l);
                if s2 != q.hash_set(&seq) || fresh.hash_set(&seq) != s2 {
                    ctx.oracle_failure(serde_json::json!({"kind":"impl_violates_property","key":"ord-instance-seed",
                      "what":"two ProbOrdMinHash2 instances constructed with the same parameters give different signatures for the same input","m":m,"l":l,"seq_len":seq.len()}));
                }
            }
            Err(_) => {
                ctx.line(&format!("ord set a {}", hashes.join(" ")), "PANIC");
                ctx.oracle_failure(serde_json::json!({"kind":"impl_violates_property","what":"hash_set panicked on a sequence of length >= l","m":m,"l":l,"seq":seq}));
            }
        }
    }
}

fn tail(ctx: &mut Ctx) {
    const SEED: u64 = 0x1234_5678_9abc_def0;
    // too short input: reported
    ctx.begin_case("ord data shorter than l");
    let mut p = P::new(4, 3);
    p.verif_set_seed(SEED);
    let r = catch(std::panic::AssertUnwindSafe(|| p.hash_set(&[1u64, 2])));
    ctx.op(&format!("ord new s 4 3 {}", hx(SEED)));
    ctx.line(&format!("ord set s {} {}", fnv_tok(&1u64), fnv_tok(&2u64)), if r.is_err() { "ERR" } else { "ok" });
    // the documented example of finding F6
    ctx.begin_case("ord F6: 1..=10 vs reverse, m=8 l=1");
    ctx.mark_nontrivial();
    let mut p = P::new(8, 1);
    p.verif_set_seed(SEED);
    let a: Vec<u64> = (1..=10).collect();
    let b: Vec<u64> = (1..=10).rev().collect();
    let sa = p.hash_set(&a);
    let sb = p.hash_set(&b);
    if sa != sb {
        ctx.oracle_failure(serde_json::json!({"kind":"impl_violates_property","key":"ord-perm:m=8:l=1","what":"l=1 signature differs between [1..=10] and its reverse on one instance",
           "differing_positions": (0..8).filter(|i| sa[*i] != sb[*i]).collect::<Vec<_>>()}));
    }
    ctx.line("sig noop", "ok");
}

/// labels (element, occurrence number) of a sequence, in sequence order
fn labels_of(seq: &[u64]) -> Vec<(u64, u64)> {
    let mut cnt = std::collections::HashMap::new();
    seq.iter().map(|x| { let c = cnt.entry(*x).or_insert(0u64); *c += 1; (*x, *c) }).collect()
}

/// exact order-min-hash probability of the property: fraction of the rankings of all (element, occurrence) pairs
/// of A and B under which the l lowest-ranked pairs of each sequence, read in sequence order, spell the same elements
pub fn omh_probability(a: &[u64], b: &[u64], l: usize) -> (u64, u64) {
    let (la, lb) = (labels_of(a), labels_of(b));
    let mut all: Vec<(u64, u64)> = la.iter().chain(lb.iter()).cloned().collect();
    all.sort(); all.dedup();
    let n = all.len();
    let idx: Vec<u64> = (0..n as u64).collect();
    let spell = |lab: &Vec<(u64, u64)>, rank: &std::collections::HashMap<(u64, u64), usize>| -> Vec<u64> {
        let mut pos: Vec<usize> = (0..lab.len()).collect();
        pos.sort_by_key(|i| rank[&lab[*i]]);
        let mut sel: Vec<usize> = pos[..l].to_vec();
        sel.sort();
        sel.iter().map(|i| lab[*i].0).collect()
    };
    let (mut hit, mut tot) = (0u64, 0u64);
    for perm in permutations(&idx) {
        let rank: std::collections::HashMap<(u64, u64), usize> = all.iter().cloned().zip(perm.iter().map(|x| *x as usize)).collect();
        tot += 1;
        if spell(&la, &rank) == spell(&lb, &rank) { hit += 1; }
    }
    (hit, tot)
}

/// C10: empirical fraction of equal signature positions over fresh random element labels vs the exact order-min-hash
/// probability (enumeration of all rankings), for small sequence pairs with and without repeated elements.
/// A statistical SEARCH AID on the implementation (6 sigma + 0.01), not a proof; what it finds is replayable
/// because every label is derived from the run's seed.
pub fn omh_statistics(ctx: &mut Ctx) {
    let pairs: Vec<(Vec<u64>, Vec<u64>)> = vec![
        ((0..8).collect(), vec![4, 5, 6, 7, 0, 1, 2, 3]),
        ((0..7).collect(), vec![6, 7, 0, 1, 2, 3, 4]),
        (vec![0, 1, 0], vec![0, 0, 1]),
        (vec![0, 0, 1, 1], vec![0, 1, 0, 1]),
        (vec![0, 1, 2, 0], vec![0, 0, 1, 2]),
        (vec![0, 1, 0, 2, 0], vec![2, 0, 0, 1, 0]),
        (vec![0, 1, 2, 3], vec![0, 1, 2, 4]),
    ];
    let trials = ctx.n(1500, 20000);
    for (pi, (a, b)) in pairs.iter().enumerate() {
        for l in [1usize, 2, 3] {
            if l > a.len().min(b.len()) { continue; }
            let (hit, tot) = omh_probability(a, b, l);
            let p = hit as f64 / tot as f64;
            for m in [1u32, 2, 8, 64] {
                let mut rng = ctx.rng.fork();
                ctx.begin_case(&format!("omh law pair#{} l={} m={} exact={}/{}", pi, l, m, hit, tot));
                ctx.mark_nontrivial();
                ctx.count(if labels_of(a).iter().any(|x| x.1 > 1) { "omh law: repeated elements" } else { "omh law: distinct elements" });
                let mut eq = 0u64;
                let mut sa = P::new(m, l);
                let mut sb = P::new(m, l);
                for _ in 0..trials {
                    // fresh random labels for the symbols
                    let sym: Vec<u64> = { let mut v = Vec::new(); while v.len() < 8 { let x = rng.next(); if !v.contains(&x) { v.push(x); } } v };
                    let ra: Vec<u64> = a.iter().map(|s| sym[*s as usize]).collect();
                    let rb: Vec<u64> = b.iter().map(|s| sym[*s as usize]).collect();
                    let (ga, gb) = (sa.hash_set(&ra), sb.hash_set(&rb));
                    eq += (0..m as usize).filter(|k| ga[*k] == gb[*k]).count() as u64;
                }
                let frac = eq as f64 / (trials as f64 * m as f64);
                let sigma = (p * (1.0 - p) / trials as f64).sqrt();
                if (frac - p).abs() > 6.0 * sigma + 0.01 {
                    ctx.oracle_failure(serde_json::json!({"kind":"impl_violates_property","key":format!("omh-law:pair{}:l={}:m={}",pi,l,m),
                        "what":"expected fraction of equal signature positions differs from the exact order-min-hash probability (fresh random labels)",
                        "A":a,"B":b,"l":l,"m":m,"exact":format!("{}/{}",hit,tot),"exact_p":p,"observed":frac,"trials":trials,"sigma":sigma}));
                }
            }
        }
    }
    // the structural reason behind a deviation, as a deterministic observation: two occurrences of one element must not
    // receive identical values (a uniformly random ranking of the (element, occurrence) pairs has no ties)
    // many occurrences of one element (more than 64, more than 256): the (element, occurrence) pairs must all draw
    // different values — with m = 1 and l = 15 the store keeps the 15 smallest of them
    for (x, reps) in [(7u64, 70usize), (7, 200), (99, 300), (u64::MAX / 5, 1100)] {
        ctx.begin_case(&format!("omh ties: x repeated {} times, m=1 l=15 x={}", reps, x));
        ctx.mark_nontrivial();
        let mut p = P::new(1, 15);
        let _ = p.hash_set(&vec![x; reps]);
        let (ix, vals) = p.verif_store();
        let mut sorted: Vec<u64> = vals.iter().map(|v| v.to_bits()).collect();
        sorted.sort();
        let dup = sorted.windows(2).filter(|w| w[0] == w[1]).count();
        if dup > 0 {
            ctx.oracle_failure(serde_json::json!({"kind":"impl_violates_property","key":"omh-tie:distant-occurrences-share-their-stream",
                "what":"two different occurrences of one element receive the SAME hash value: the ranking of (element, occurrence) pairs is not uniform","x":x,"repetitions":reps,"m":1,"l":15,
                "equal_values":dup,"indices":ix}));
        }
    }
    for x in [1u64, 2, 12345, u64::MAX / 3] {
        ctx.begin_case(&format!("omh ties: [x,x] m=1 l=2 x={}", x));
        ctx.mark_nontrivial();
        let mut p = P::new(1, 2);
        let _ = p.hash_set(&[x, x]);
        let (_, vals) = p.verif_store();
        if vals.len() >= 2 && vals[0] == vals[1] {
            ctx.oracle_failure(serde_json::json!({"kind":"impl_violates_property","key":"omh-tie:occurrences-share-first-draw",
                "what":"the two occurrences (x,1) and (x,2) of one element receive the SAME hash value: the ranking of (element, occurrence) pairs is not uniform (ties with probability 1)",
                "x":x,"m":1,"l":2,"values":[fhx(vals[0]), fhx(vals[1])]}));
        }
    }
}

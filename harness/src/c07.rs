//! C07: Jaccard bounds of SetSketch (totality, ordering) + C06 cardinality estimators
use crate::util::*;
use probminhash::setsketcher::*;

pub fn corr_bounds(ctx: &mut Ctx) {
    let bs = [1.0 + 1e-7, 1.0 + 1e-5, 1.001, 1.01, 1.1, 1.5, 2.0];
    let grid = ctx.n(2000, 100_000);
    for b in bs {
        let p = SetSketchParams::new(b, 4096, 20., 65534);
        // the documented use: a request process RELOADS the parameters of a sketch database and asks for bounds —
        // the reloaded object must answer exactly as the one that was dumped
        let dir = std::path::PathBuf::from(format!("{}/tmp_c07", ctx.outdir));
        let _ = std::fs::create_dir_all(&dir);
        let reloaded = match (catch(|| p.dump_json(&dir)), catch(|| SetSketchParams::reload_json(&dir))) { (Ok(Ok(())), Ok(Ok(q))) => Some(q), _ => None };
        let _ = std::fs::remove_dir_all(&dir);
        if let Some(q) = &reloaded {
            for k in 0..=64 {
                let jac = k as f64 / 64.0;
                let r1 = catch(|| p.get_jaccard_bounds(jac)).map(|(x, y)| (x.to_bits(), y.to_bits()));
                let r2 = catch(|| q.get_jaccard_bounds(jac)).map(|(x, y)| (x.to_bits(), y.to_bits()));
                if r1.is_ok() != r2.is_ok() || (r1.is_ok() && r1 != r2) {
                    ctx.oracle_failure(serde_json::json!({"kind":"impl_violates_property","what":"get_jaccard_bounds of reloaded parameters (dump_json -> reload_json) differs from that of the original parameters","b":b,"jac":jac,
                        "original":format!("{:?}",r1),"reloaded":format!("{:?}",r2)}));
                    break;
                }
            }
            ctx.count("bounds through reloaded parameters");
        }
        let mut fired = 0u64;
        let mut first_bad: Option<f64> = None;
        for i in 0..=grid {
            let jac = if i % 3 == 2 { ctx.rng.unit() } else { i as f64 / grid as f64 };
            let r = catch(|| p.get_jaccard_bounds(jac));
            // every 16th grid point (and every failure) goes to the model too
            let to_model = i % 16 == 0 || r.is_err();
            if to_model {
                ctx.begin_case(&format!("bounds b={} jac={}", b, jac));
                ctx.mark_nontrivial();
                match &r {
                    Ok((lo, hi)) => { ctx.line(&format!("ssk bounds {} {}", fhx(b), fhx(jac)), &format!("{} {}", fhx(*lo), fhx(*hi)));     // generated from the source
                                      ctx.line(&format!("ssk boundsh {} {}", fhx(b), fhx(jac)), &format!("{} {}", fhx(*lo), fhx(*hi))); }  // hand-written transcription
                    Err(_) => { ctx.line(&format!("ssk bounds {} {}", fhx(b), fhx(jac)), "PANIC"); ctx.line(&format!("ssk boundsh {} {}", fhx(b), fhx(jac)), "PANIC"); }
                }
            }
            match r {
                Ok((lo, hi)) => {
                    if !(lo <= hi + 1e-9) || !(lo >= 0.0) || !lo.is_finite() || !hi.is_finite() {
                        ctx.oracle_failure(serde_json::json!({"kind":"impl_violates_property","what":"Jaccard bounds out of order or not finite","b":b,"jac":jac,"lo":lo,"hi":hi}));
                    }
                }
                Err(_) => {
                    fired += 1;
                    if first_bad.is_none() {
                        first_bad = Some(jac);
                    }
                }
            }
        }
        ctx.count_n(&format!("b={} grid points", b), grid + 1);
        if fired > 0 {
            ctx.oracle_failure(serde_json::json!({"kind":"impl_violates_property","key":format!("bounds-assert:b={}",b),
                "what":"get_jaccard_bounds aborts (assert jinf <= jsup fires through rounding) for collision fractions in [0,1]","b":b,"aborting_points":fired,"of":grid+1,"first_jac":first_bad}));
        }
    }
    // outside [0,1]: jac > 1 is rejected by the first assert
    ctx.begin_case("bounds jac > 1");
    let p = SetSketchParams::new(1.5, 64, 20., 65534);
    let r = catch(|| p.get_jaccard_bounds(1.0000001));
    ctx.line(&format!("ssk bounds {} {}", fhx(1.5), fhx(1.0000001)), if r.is_err() { "PANIC" } else { "ok" });
}

/// C06: sequential vs parallel estimator, monotonicity along histories (implementation) + model on the sequential one
pub fn corr_card(ctx: &mut Ctx) {
    use crate::c04::{gen_stream, hash_with};
    use crate::ssk::{new16, params_pool};
    use fnv::FnvHasher;
    let ncases = ctx.n(40, 400);
    for c in 0..ncases {
        let mut rng = ctx.rng.fork();
        let mut p = params_pool(&mut rng, c);
        if p.1 < 2 { p.1 = 64; }
        let n = [1usize, 10, 1000, 20000][c as usize % if ctx.quick() { 3 } else { 4 }];
        let items = gen_stream(&mut rng, n);
        ctx.begin_case(&format!("card b={} m={} a={} q={} n={}", p.0, p.1, p.2, p.3, n));
        ctx.mark_nontrivial();
        ctx.op(&format!("ssk new a {} {} {} {} {}", fhx(p.0), p.1, fhx(p.2), p.3, u16::MAX));
        let mut s = new16(p);
        let mlej = MleJaccard::from(SetSketchParams::new(p.0, p.1, p.2, p.3));
        let mut last = 0.0f64;
        let step = (n / 8).max(1);
        for (i, x) in items.iter().enumerate() {
            s.sketch(x).unwrap();
            ctx.op(&format!("ssk sk a {}", fnv_tok(x)));
            if i % step == 0 || i + 1 == n {
                let (card, rsd) = s.get_cardinal_stats();
                ctx.line("ssk card a", &format!("{} {}", fhx(card), fhx(rsd)));
                if card < last {
                    ctx.oracle_failure(serde_json::json!({"kind":"impl_violates_property","what":"cardinality estimate decreased after adding an item","params":format!("{:?}",p),"before":last,"after":card,"i":i}));
                }
                last = card;
                let par = mlej.get_cardinal_estimate(s.get_signature());
                if ((par - card) / card).abs() > 1e-12 || !rsd.is_finite() {
                    ctx.oracle_failure(serde_json::json!({"kind":"impl_violates_property","what":"parallel estimator disagrees with the sketcher's estimate beyond rounding","params":format!("{:?}",p),"seq":card,"par":par}));
                }
            }
        }
        // merging never decreases the estimate
        let mut other = new16(p);
        for x in gen_stream(&mut rng, 1 + n / 2) { other.sketch(&x).unwrap(); }
        let before = s.get_cardinal_stats().0;
        s.merge(&other).unwrap();
        if s.get_cardinal_stats().0 < before {
            ctx.oracle_failure(serde_json::json!({"kind":"impl_violates_property","what":"cardinality estimate decreased after a merge","params":format!("{:?}",p)}));
        }
    }
    // very large registers: u32 registers above 2^31 (b = 1 + 2^-27) — the estimate must stay positive, finite, monotone,
    // and the two estimators must agree; and raw u32 register vectors with values around 2^31 and u32::MAX
    {
        use crate::ssk::new32;
        let b = 1.0 + (2.0f64).powi(-27);
        let p = (b, 256u64, 20.0f64, (u32::MAX - 1) as u64);
        ctx.begin_case("card huge u32 registers b=1+2^-27 m=256");
        ctx.mark_nontrivial();
        ctx.count("registers above 2^31");
        let mut s = new32(p);
        let mlej = MleJaccard::from(SetSketchParams::new(p.0, p.1, p.2, p.3));
        let mut last = 0.0f64;
        let n = ctx.n(6000, 40000);
        for x in 0..n {
            s.sketch(&(x.wrapping_mul(0x9e37_79b9_7f4a_7c15))).unwrap();
            if x % 250 == 0 || x + 1 == n {
                let (card, rsd) = s.get_cardinal_stats();
                let maxreg = s.get_signature().iter().cloned().max().unwrap_or(0);
                let par = mlej.get_cardinal_estimate(s.get_signature());
                if !(card >= last) || !card.is_finite() || !rsd.is_finite() || ((par - card) / card).abs() > 1e-9 {
                    ctx.oracle_failure(serde_json::json!({"kind":"impl_violates_property","what":"cardinality estimate with u32 registers above 2^31: decreased / not finite / estimators disagree","b":b,"m":256,
                        "items":x + 1,"largest_register":maxreg,"before":last,"after":card,"parallel":par}));
                    break;
                }
                last = card;
            }
        }
        let maxreg = s.get_signature().iter().cloned().max().unwrap_or(0);
        ctx.count(if maxreg > (1u32 << 31) { "largest register above 2^31 reached" } else { "largest register stayed below 2^31" });
    }
    // adversarial register vectors through the parallel estimator with different pool sizes
    for threads in [1usize, 2, 3, 8, 16] {
        let pool = rayon::ThreadPoolBuilder::new().num_threads(threads).build().unwrap();
        let regs: Vec<u16> = (0..4096).map(|i| if i % 97 == 0 { 60000 } else { (i % 7) as u16 }).collect();
        let mlej = MleJaccard::new(1.001, 4096, 20.);
        let v = pool.install(|| mlej.get_cardinal_estimate(&regs));
        let seq: f64 = regs.iter().map(|c| (-(*c as f64) * (1.001f64 - 1.).ln_1p()).exp()).sum();
        let want = 4096.0 * (1. - 1. / 1.001) / (20. * (1.001f64 - 1.).ln_1p() * seq);
        ctx.note_case(&format!("parallel estimate threads={}", threads), true);
        if ((v - want) / want).abs() > 1e-12 {
            ctx.oracle_failure(serde_json::json!({"kind":"impl_violates_property","what":"parallel estimator depends on the reduction order beyond rounding","threads":threads,"par":v,"seq":want}));
        }
    }
}

#![allow(dead_code)]
mod util;
mod c15;
mod c19;
mod c17;
mod c18;
mod c14;
mod c20;
mod c02;
mod c04;
mod ssk;
mod dens;
mod ord;
mod c16;
mod c07;
mod c13;
mod c12;
mod stats;
mod hashers;
mod sizes;
mod types;
use util::*;

fn main() {
    let args: Vec<String> = std::env::args().collect();
    if args.len() < 3 {
        eprintln!("usage: pmh_harness corr <Cxx> --seed N --tier quick|thorough --out DIR");
        std::process::exit(2);
    }
    let cmd = args[1].as_str();
    if cmd == "child-c12" {
        c12::child(&args[2..]);
        return;
    }
    if cmd == "child-dens" {
        std::panic::set_hook(Box::new(|_| {}));
        dens::child(&args[2..]);
        return;
    }
    if cmd == "ih-eval" {
        // `pmh_harness ih-eval <64|32> <x decimal>`: the four values the C19 property speaks about, on the real functions
        use probminhash::invhash::*;
        let x: u64 = args[3].parse().unwrap();
        if args[2] == "64" {
            println!("{{\"width\":64,\"x\":\"{:016x}\",\"hash\":\"{:016x}\",\"inverse\":\"{:016x}\",\"inverse_of_hash\":\"{:016x}\",\"hash_of_inverse\":\"{:016x}\"}}",
                x, int64_hash(x), int64_hash_inverse(x), int64_hash_inverse(int64_hash(x)), int64_hash(int64_hash_inverse(x)));
        } else {
            let x = x as u32;
            println!("{{\"width\":32,\"x\":\"{:08x}\",\"hash\":\"{:08x}\",\"inverse\":\"{:08x}\",\"inverse_of_hash\":\"{:08x}\",\"hash_of_inverse\":\"{:08x}\"}}",
                x, int32_hash(x), int32_hash_inverse(x), int32_hash_inverse(int32_hash(x)), int32_hash(int32_hash_inverse(x)));
        }
        return;
    }
    if cmd == "child-sig" {
        c18::child(&args[2..]);
        return;
    }
    let prop = args[2].as_str();
    let mut seed = 1u64;
    let mut tier = Tier::Quick;
    let mut out = String::from("work/tmp");
    let mut i = 3;
    while i < args.len() {
        match args[i].as_str() {
            "--seed" => {
                seed = args[i + 1].parse().unwrap();
                i += 1
            }
            "--tier" => {
                tier = if args[i + 1] == "thorough" { Tier::Thorough } else { Tier::Quick };
                i += 1
            }
            "--out" => {
                out = args[i + 1].clone();
                i += 1
            }
            _ => {}
        }
        i += 1;
    }
    // panics of the code under test are caught per case; keep stderr quiet
    std::panic::set_hook(Box::new(|_| {}));
    match cmd {
        "corr" => {
            let mut ctx = Ctx::new(&out, seed, tier);
            // a panic that escapes a harness module (an uncaught panic of the code under test) must not lose the run:
            // it is recorded as a failing input of its own and the summary is still written
            let run = std::panic::catch_unwind(std::panic::AssertUnwindSafe(|| match prop {
                "C15" => c15::corr(&mut ctx),
                "C19" => c19::corr(&mut ctx),
                "C19sweep" => c19::sweep(&mut ctx),
                "C17" => c17::corr(&mut ctx),
                "C18" => { hashers::corr(&mut ctx, "sha"); c18::corr(&mut ctx) }
                "C14" => c14::corr(&mut ctx),
                "C20" => c20::corr(&mut ctx),
                "C02" => { types::corr_keys(&mut ctx); sizes::corr(&mut ctx, "pmh"); c13::corr(&mut ctx); hashers::corr(&mut ctx, "fnv"); hashers::corr(&mut ctx, "sha"); c02::corr(&mut ctx) }
                "C01" => { types::corr_keys(&mut ctx); sizes::corr(&mut ctx, "pmh"); c13::corr(&mut ctx); hashers::corr(&mut ctx, "fnv"); hashers::corr(&mut ctx, "sha"); c02::corr_opts(&mut ctx, false); stats::pmh_statistics(&mut ctx); }
                "C04" => {
                    sizes::corr(&mut ctx, "smh"); sizes::corr(&mut ctx, "ssk"); sizes::corr(&mut ctx, "dens"); c13::corr(&mut ctx); types::corr_items(&mut ctx);
                    hashers::corr(&mut ctx, "fnv");
                    c04::corr_smh(&mut ctx);
                    ssk::corr_sets(&mut ctx);
                    ssk::corr_sets_nohash(&mut ctx);
                    dens::corr(&mut ctx)
                }
                "C03" => { sizes::corr(&mut ctx, "smh"); c13::corr(&mut ctx); c04::corr_smh(&mut ctx); stats::smh_statistics(&mut ctx); }
                "C05" => {
                    sizes::corr(&mut ctx, "smh"); sizes::corr(&mut ctx, "ssk"); c13::corr(&mut ctx);
                    ssk::corr_merge(&mut ctx);
                    c04::corr_smh(&mut ctx)
                }
                "C16" => c16::corr(&mut ctx),
                "C13" => {
                    c13::corr(&mut ctx);
                    ord::corr(&mut ctx)
                }
                "C12" => {
                    c12::corr(&mut ctx);
                    ord::corr(&mut ctx)
                }
                "C07" => {
                    c07::corr_bounds(&mut ctx);
                    sizes::corr(&mut ctx, "ssk"); c13::corr(&mut ctx);
                    ssk::corr_sets(&mut ctx);
                    ssk::corr_merge(&mut ctx);        // registers of recycled sketchers (reinit / merge histories) feed the collision fraction too
                    stats::ssk_collision_statistics(&mut ctx)
                }
                "C06" => {
                    c07::corr_card(&mut ctx);
                    sizes::corr(&mut ctx, "ssk"); c13::corr(&mut ctx);
                    ssk::corr_sets(&mut ctx);
                    ssk::corr_merge(&mut ctx);
                    stats::ssk_cardinality_statistics(&mut ctx)
                }
                "C09" | "DENS" => { sizes::corr(&mut ctx, "dens"); c13::corr(&mut ctx); hashers::corr(&mut ctx, "murmur"); hashers::corr(&mut ctx, "fnv"); dens::corr(&mut ctx) }
                "C08" => { sizes::corr(&mut ctx, "dens"); c13::corr(&mut ctx); hashers::corr(&mut ctx, "murmur"); dens::corr(&mut ctx); dens::selection_oracles(&mut ctx); stats::dens_statistics(&mut ctx); }
                "C11" | "ORD" => { hashers::corr(&mut ctx, "wy"); hashers::corr(&mut ctx, "fnv"); ord::corr(&mut ctx) }
                "C10" => { hashers::corr(&mut ctx, "wy"); ord::corr(&mut ctx); ord::omh_statistics(&mut ctx); }
                "SSK" => {
                    ssk::corr_sets(&mut ctx);
                    ssk::corr_merge(&mut ctx)
                }
                _ => {
                    eprintln!("unknown property {}", prop);
                    std::process::exit(2);
                }
            }));
            if let Err(e) = run {
                let msg = if let Some(s) = e.downcast_ref::<&str>() { s.to_string() } else if let Some(s) = e.downcast_ref::<String>() { s.clone() } else { "panic".to_string() };
                let case = ctx.current_case();
                ctx.oracle_failure(serde_json::json!({"kind":"impl_violates_property","what":"the code under test panicked outside a guarded call (harness module aborted; later cases of this run were not executed)","case":case,"msg":msg}));
            }
            ctx.finish();
        }
        _ => {
            eprintln!("unknown command");
            std::process::exit(2);
        }
    }
}

//! C13: after reinit/reset a sketcher behaves exactly like a new one (SuperMinHash, SuperMinHash2, SetSketch,
//! both densified sketchers, ProbMinHash2; ProbOrdMinHash2's self-clearing hash_set is in ord.rs)
use crate::c02::{seed_fnv, INIT};
use crate::c04::{gen_stream, hash_with, perturb};
use crate::dens::D;
use crate::ssk::{new16, params_pool};
use crate::util::*;
use fnv::FnvHasher;
use probminhash::probminhasher::ProbMinHash2;
use probminhash::superminhasher::SuperMinHash;
use probminhash::superminhasher2::SuperMinHash2;
use std::hash::BuildHasherDefault;

fn bh() -> BuildHasherDefault<FnvHasher> {
    BuildHasherDefault::<FnvHasher>::default()
}
fn h(x: &u64) -> String {
    fnv_tok(x)
}

pub fn corr(ctx: &mut Ctx) {
    let ncases = ctx.n(90, 900);
    for c in 0..ncases {
        let mut rng = ctx.rng.fork();
        let m = [1usize, 2, 3, 8, 16, 64][c as usize % 6];
        // history classes: empty, exactly one item, two or three distinct items (stale per-item state of the
        // FIRST items survives only short histories), random with repetitions, long
        let hist: Vec<u64> = match (c / 6) % 5 {
            0 => vec![],
            1 => gen_stream(&mut rng, 1),
            2 => { let k = 2 + rng.below(2) as usize; gen_stream(&mut rng, k) }
            3 => { let nh = 1 + rng.below(3 * m as u64 + 5) as usize; let base = gen_stream(&mut rng, nh); perturb(&mut rng, &base) }
            _ => { let base = gen_stream(&mut rng, 6 * m + 20); perturb(&mut rng, &base) }
        };
        ctx.count(&format!("history={}", ["empty", "one item", "2-3 items", "random", "long"][(c as usize / 6) % 5]));
        let nx = if c % 2 == 0 { 1 + rng.below(3) as usize } else { 1 + rng.below(2 * m as u64 + 5) as usize };
        let mut xs = gen_stream(&mut rng, nx);
        // relation between the stream after the reinit and the history (state remembered ACROSS the reinit, such as
        // a one-entry cache of the last item, shows only when the two share items at the boundary)
        let rel = rng.below(4);
        if !hist.is_empty() {
            match rel {
                1 => { xs[0] = *hist.last().unwrap(); }                                   // overlapping windows [.., x] [x, ..]
                2 => { xs = hist.iter().cloned().take(nx.max(1)).collect(); }               // the same stream again
                3 => { xs[0] = *hist.last().unwrap(); xs.push(hist[0]); }
                _ => {}
            }
        }
        let nx = xs.len();
        ctx.count(&format!("after-reinit stream vs history: {}", ["independent", "starts with the last history item", "prefix of the history", "last..first"][if hist.is_empty() { 0 } else { rel as usize }]));

        // ---------------- SuperMinHash<f64>
        ctx.begin_case(&format!("reinit smh m={} hist={} x={}", m, hist.len(), nx));
        ctx.mark_nontrivial();
        let mut s = SuperMinHash::<f64, u64, FnvHasher>::new(m, bh());
        ctx.op(&format!("smh new64 a {}", m));
        for x in &hist { s.sketch(x).unwrap(); ctx.op(&format!("smh sk64 a {}", h(x))); }
        s.reinit();
        ctx.op("smh reinit64 a");
        for x in &xs { s.sketch(x).unwrap(); ctx.op(&format!("smh sk64 a {}", h(x))); }
        let mut f = SuperMinHash::<f64, u64, FnvHasher>::new(m, bh());
        for x in &xs { f.sketch(x).unwrap(); }
        let d1 = format!("{} | {:?}", join_fhx(s.get_hsketch()), s.verif_state());
        let d2 = format!("{} | {:?}", join_fhx(f.get_hsketch()), f.verif_state());
        let (q, p, b, ir, au) = s.verif_state();
        ctx.line("smh dump64 a", &format!("{} | {} | {} | {} | {} {}", join_fhx(s.get_hsketch()), join(&q), join(&p), join(&b), ir, au));
        if d1 != d2 {
            ctx.oracle_failure(serde_json::json!({"kind":"impl_violates_property","what":"SuperMinHash after reinit differs from a new one","m":m,"hist":hist.len()}));
        }

        // ---------------- SuperMinHash2<u64>
        ctx.begin_case(&format!("reinit smh2 m={} hist={} x={}", m, hist.len(), nx));
        ctx.mark_nontrivial();
        let mut s = SuperMinHash2::<u64, u64, FnvHasher>::new(m, bh());
        ctx.op(&format!("smh2 new a {} {}", u64::MAX, m));
        for x in &hist { s.sketch(x).unwrap(); ctx.op(&format!("smh2 sk a {}", h(x))); }
        s.reinit();
        ctx.op("smh2 reinit a");
        for x in &xs { s.sketch(x).unwrap(); ctx.op(&format!("smh2 sk a {}", h(x))); }
        let mut f = SuperMinHash2::<u64, u64, FnvHasher>::new(m, bh());
        for x in &xs { f.sketch(x).unwrap(); }
        let (values, l, b, au) = s.verif_state();
        ctx.line("smh2 dump a", &format!("{} | {} | {} | {} | {}", join(s.get_hsketch()), join(&values), join(&l), join(&b), au));
        if s.get_hsketch() != f.get_hsketch() || s.verif_state() != f.verif_state() {
            ctx.oracle_failure(serde_json::json!({"kind":"impl_violates_property","what":"SuperMinHash2 after reinit differs from a new one","m":m,"hist":hist.len()}));
        }

        // ---------------- SetSketch (history with a merge and, for tiny q, clipped registers)
        let p = params_pool(&mut rng, c);
        ctx.begin_case(&format!("reinit ssk {:?} hist={} x={}", p, hist.len(), nx));
        ctx.mark_nontrivial();
        let mut s = new16(p);
        ctx.op(&format!("ssk new a {} {} {} {} {}", fhx(p.0), p.1, fhx(p.2), p.3, u16::MAX));
        for x in &hist { s.sketch(x).unwrap(); ctx.op(&format!("ssk sk a {}", h(x))); }
        if c % 2 == 0 {
            let mut o = new16(p);
            ctx.op(&format!("ssk new o {} {} {} {} {}", fhx(p.0), p.1, fhx(p.2), p.3, u16::MAX));
            for x in gen_stream(&mut rng, 20) { o.sketch(&x).unwrap(); ctx.op(&format!("ssk sk o {}", h(&x))); }
            s.merge(&o).unwrap();
            ctx.op("ssk merge a o");
        }
        s.reinit();
        ctx.op("ssk reinit a");
        for x in &xs { s.sketch(x).unwrap(); ctx.op(&format!("ssk sk a {}", h(x))); }
        let mut f = new16(p);
        for x in &xs { f.sketch(x).unwrap(); }
        let (lk, nbmin) = s.verif_state();
        let kv: Vec<u64> = s.get_signature().iter().map(|x| *x as u64).collect();
        ctx.line("ssk dump a", &format!("{} | {} {} {}", join(&kv), lk as u64, nbmin, s.get_nb_overflow()));
        if s.get_signature() != f.get_signature() || s.verif_state() != f.verif_state() || s.get_nb_overflow() != f.get_nb_overflow() {
            ctx.oracle_failure(serde_json::json!({"kind":"impl_violates_property","what":"SetSketcher after reinit differs from a new one","params":format!("{:?}",p)}));
        }

        // ---------------- densified sketchers: finished or unfinished before the reinit
        for kind in [c as usize % 4, (c as usize + 1) % 4] {
            let mut d = D::new(kind, m);
            let sfx = d.sfx();
            let alg = d.alg();
            ctx.begin_case(&format!("reinit dens {}{} m={} hist={} finished={}", alg, sfx, m, hist.len(), c % 2 == 0));
            ctx.mark_nontrivial();
            ctx.op(&format!("dens new{} a {}", sfx, m));
            for x in &hist { d.sketch(x); ctx.op(&format!("dens sk{} a {}", sfx, h(x))); }
            if c % 2 == 0 && !hist.is_empty() { d.end_sketch(); ctx.op(&format!("dens end{} a {}", sfx, alg)); } // (finishing an empty stream reports failure: C09)
            d.reinit();
            ctx.op(&format!("dens reinit{} a", sfx));
            let ok = d.sketch_slice(&xs);
            ctx.line(&format!("dens slice{} a {} {}", sfx, alg, xs.iter().map(h).collect::<Vec<_>>().join(" ")), if ok { "ok" } else { "ERR" });
            ctx.line(&format!("dens dump{} a", sfx), &d.dump());
            let mut f = D::new(kind, m);
            f.sketch_slice(&xs);
            if f.dump() != d.dump() {
                ctx.oracle_failure(serde_json::json!({"kind":"impl_violates_property","what":"densified sketcher after reinit differs from a new one","alg":alg,"sfx":sfx,"m":m}));
            }
        }

        // ---------------- ProbMinHash2::reset
        if m >= 2 {
            ctx.begin_case(&format!("reset pmh2 m={} hist={} x={}", m, hist.len(), nx));
            ctx.mark_nontrivial();
            let mut s = ProbMinHash2::<u64, FnvHasher>::new(m, INIT);
            ctx.op(&format!("pmh2 new a {} {}", m, INIT));
            // weight classes of the history and of the stream after the reset: ordinary, extremely small (an item may
            // then enter only a few slots: the tracker maximum stays at its initial value), huge, mixed; the stream
            // after the reset may be EMPTY
            let wclass_h = (c / 3) % 4;
            let wclass_x = (c / 12) % 4;
            let wgt = |cls: u64, i: usize| -> f64 { match cls { 0 => 0.5 + (i % 7) as f64, 1 => [1e-308, 3e-308, 7e-307][i % 3], 2 => 1e300 / (1.0 + i as f64), _ => if i % 2 == 0 { 1e-308 } else { 2.0 } } };
            ctx.count(&format!("pmh2 reset: history weights class {}", wclass_h));
            for (i, x) in hist.iter().enumerate() {
                let w = wgt(wclass_h, i);
                s.hash_item(*x, w);
                ctx.op(&format!("pmh2 item a {}:{}:fnv", x, fhx(w)));
            }
            s.reset();
            ctx.op("pmh2 reset a");
            let mut f = ProbMinHash2::<u64, FnvHasher>::new(m, INIT);
            let xs_after: Vec<u64> = if c % 5 == 4 { vec![] } else { xs.clone() };
            for (i, x) in xs_after.iter().enumerate() {
                let w = if wclass_x == 0 { 1.0 + (i % 5) as f64 * 0.25 } else { wgt(wclass_x, i) };
                s.hash_item(*x, w);
                f.hash_item(*x, w);
                ctx.op(&format!("pmh2 item a {}:{}:fnv", x, fhx(w)));
            }
            ctx.line("pmh2 sig a", &join(s.get_signature()));
            ctx.line("pmh2 regs a", &join_fhx(&s.verif_registers()));
            if s.get_signature() != f.get_signature() || s.verif_registers() != f.verif_registers() {
                ctx.oracle_failure(serde_json::json!({"kind":"impl_violates_property","what":"ProbMinHash2 after reset differs from a new one","m":m}));
            }
        }
    }
}

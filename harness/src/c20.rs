//! C20: SetSketchParams dump/reload, with every prefix of the written file as a crash point
use crate::util::*;
use probminhash::setsketcher::SetSketchParams;
use std::path::PathBuf;

fn hexs(b: &[u8]) -> String {
    if b.is_empty() {
        return "-".to_string();
    }
    b.iter().map(|x| format!("{:02x}", x)).collect::<Vec<_>>().join("")
}

fn gen_f(ctx: &mut Ctx, k: u64) -> f64 {
    match k % 8 {
        0 => 1.001,
        1 => 20.0,
        2 => 1.0 + ctx.rng.unit(),                         // 16-17 significant digits
        3 => ((ctx.rng.below(100000) as f64) / 1000.0) + 1.0, // few digits
        4 => f64::from_bits(ctx.rng.below(1 << 52) + 1),   // subnormal
        5 => 1e300 * (1.0 + ctx.rng.unit()),
        6 => 1e-300 * (1.0 + ctx.rng.unit()),
        _ => f64::from_bits(0x3ff0000000000000 + ctx.rng.below(1 << 40)),
    }
}

fn describe(r: &Result<Result<SetSketchParams, String>, String>) -> String {
    match r {
        Ok(Ok(p)) => format!(
            "OK {} {} {} {}",
            serde_json::to_string(&p.get_b()).unwrap(),
            p.get_m(),
            serde_json::to_string(&p.get_a()).unwrap(),
            p.get_q()
        ),
        Ok(Err(_)) => "ERR".to_string(),
        Err(_) => "PANIC".to_string(),
    }
}

fn digits(x: f64) -> usize {
    // number of significant decimal digits of the shortest round-trip representation
    let s = format!("{:e}", x);
    s.split('e').next().unwrap().chars().filter(|c| c.is_ascii_digit()).collect::<String>().trim_start_matches('0').trim_end_matches('0').len().max(1)
}

pub fn corr(ctx: &mut Ctx) {
    let dir = PathBuf::from(format!("{}/tmp", ctx.outdir));
    let _ = std::fs::remove_dir_all(&dir);
    std::fs::create_dir_all(&dir).unwrap();
    let file = dir.join("parameters.json");
    // missing file
    ctx.begin_case("pj missing file");
    let r = catch(|| SetSketchParams::reload_json(&dir));
    ctx.line("pj missing", &describe(&r));
    if !matches!(r, Ok(Err(_))) {
        ctx.oracle_failure(serde_json::json!({"kind":"impl_violates_property","key":"missing-file","what":"reload_json on a missing file did not return Err","got":describe(&r)}));
    }
    // "missing" in every shape: the directory itself does not exist (its parent holds an intact parameters.json of OTHER parameters,
    // so that any fallback is visible), the path is a plain file, the path is the json file itself, a sibling directory holds a dump
    {
        let root = PathBuf::from(format!("{}/nest", ctx.outdir));
        let _ = std::fs::remove_dir_all(&root);
        std::fs::create_dir_all(root.join("sibling")).unwrap();
        let other = SetSketchParams::new(1.5, 77, 3.25, 1234);
        other.dump_json(&root).unwrap();
        other.dump_json(&root.join("sibling")).unwrap();
        let before = std::fs::read(root.join("parameters.json")).unwrap();
        std::fs::write(root.join("plainfile"), b"not a directory").unwrap();
        for (name, path) in [("directory does not exist (parent holds a dump)", root.join("x")), ("nested missing directories", root.join("x").join("y")),
                             ("path is a plain file", root.join("plainfile")), ("path is the json file itself", root.join("parameters.json")),
                             ("empty directory next to a sibling with a dump", { let e = root.join("empty"); std::fs::create_dir_all(&e).unwrap(); e })] {
            ctx.begin_case(&format!("pj missing: {}", name));
            ctx.mark_nontrivial();
            ctx.count("missing file in several shapes (nested / plain file / sibling)");
            let pp = path.clone();
            let r = catch(move || SetSketchParams::reload_json(&pp));
            ctx.line("pj missing", &describe(&r));
            if !matches!(r, Ok(Err(_))) {
                ctx.oracle_failure(serde_json::json!({"kind":"impl_violates_property","key":"missing-file-shapes","what":"reload_json where no parameters.json exists at the given directory did not return Err","shape":name,"got":describe(&r)}));
            }
            // a dump to a directory that does not exist must not write anywhere else (it may fail)
            if name.contains("does not exist") || name.contains("nested") {
                let pp = path.clone();
                let _ = catch(move || SetSketchParams::new(1.001, 4096, 20.0, 65534).dump_json(&pp));
                let after = std::fs::read(root.join("parameters.json")).unwrap_or_default();
                if after != before {
                    ctx.oracle_failure(serde_json::json!({"kind":"impl_violates_property","key":"dump-elsewhere","what":"dump_json to a directory that does not exist modified the parameters.json of another directory","shape":name}));
                    let _ = other.dump_json(&root);
                }
            }
        }
    }
    let nfiles = ctx.n(60, 1500);
    let mut prefixes = 0u64;
    for c in 0..nfiles {
        let b = gen_f(ctx, c);
        let a = gen_f(ctx, c / 3 + 1);
        let m = match c % 4 { 0 => 4096, 1 => ctx.rng.below(100000), 2 => ctx.rng.next(), _ => u64::MAX };
        let q = match c % 3 { 0 => 65534, 1 => ctx.rng.next(), _ => ctx.rng.below(1 << 20) };
        let p = SetSketchParams::new(b, m, a, q);
        ctx.begin_case(&format!("pj dump/reload b={:e} m={} a={:e} q={}", b, m, a, q));
        ctx.mark_nontrivial();
        // history of the directory before this dump: nothing / an intact file of parameters differing in exactly
        // one field / a torn file / a longer foreign file.  The dump must REPLACE whatever is there: the bytes
        // compared with the model below are those found after the dump.
        let _ = std::fs::remove_file(&file);
        match c % 8 {
            0 | 4 => ctx.count("history=fresh directory"),
            1 | 2 | 3 | 5 => {
                let (b0, m0, a0, q0) = match c % 8 { 1 => (gen_f(ctx, c + 7), m, a, q), 2 => (b, m ^ 1, a, q), 3 => (b, m, gen_f(ctx, c + 11), q), _ => (b, m, a, q ^ 1) };
                let _ = catch(|| SetSketchParams::new(b0, m0, a0, q0).dump_json(&dir));
                ctx.count(["", "history=intact file, other b", "history=intact file, other m", "history=intact file, other a", "", "history=intact file, other q"][c as usize % 8]);
            }
            6 => {
                let _ = catch(|| SetSketchParams::new(a, q, b, m).dump_json(&dir));
                if let Ok(old) = std::fs::read(&file) { std::fs::write(&file, &old[..old.len() / 2]).unwrap(); }
                ctx.count("history=torn file");
            }
            _ => {
                std::fs::write(&file, format!("{{\"b\":1.5,\"m\":1,\"a\":2.5,\"q\":3,\"pad\":\"{}\"}}", "x".repeat(300))).unwrap();
                ctx.count("history=longer foreign file");
            }
        }
        let d = catch(|| p.dump_json(&dir));
        if !matches!(d, Ok(Ok(()))) {
            ctx.oracle_failure(serde_json::json!({"kind":"impl_violates_property","what":"dump_json failed","b":b,"m":m,"a":a,"q":q}));
            continue;
        }
        let bytes = std::fs::read(&file).unwrap();
        let bstr = serde_json::to_string(&b).unwrap();
        let astr = serde_json::to_string(&a).unwrap();
        ctx.line(&format!("pj ser {} {} {} {}", bstr, m, astr, q), &hexs(&bytes));
        // full file
        let r = catch(|| SetSketchParams::reload_json(&dir));
        // the float tokens are opaque to the model: report the written tokens when the reload succeeded
        // (the value clause "exact up to 15 digits, else within one ulp" is the oracle below)
        ctx.line(&format!("pj parse {}", hexs(&bytes)), &match &r {
            Ok(Ok(p2)) => format!("OK {} {} {} {}", bstr, p2.get_m(), astr, p2.get_q()),
            _ => describe(&r),
        });
        match &r {
            Ok(Ok(p2)) => {
                let ulp = |x: f64, y: f64| (x.to_bits() as i128 - y.to_bits() as i128).abs();
                let okf = |x: f64, y: f64| if digits(x) <= 15 { x.to_bits() == y.to_bits() } else { ulp(x, y) <= 1 };
                if p2.get_m() != m || p2.get_q() != q || !okf(b, p2.get_b()) || !okf(a, p2.get_a()) {
                    ctx.oracle_failure(serde_json::json!({"kind":"impl_violates_property","what":"reloaded parameters differ","b":fhx(b),"b2":fhx(p2.get_b()),"a":fhx(a),"a2":fhx(p2.get_a()),"m":m,"m2":p2.get_m(),"q":q,"q2":p2.get_q()}));
                }
                if p2.get_b().to_bits() != b.to_bits() || p2.get_a().to_bits() != a.to_bits() {
                    ctx.count("float off by 1ulp after reload");
                } else {
                    // same parameters => same object: every field (Debug shows all of them) and the behaviour that
                    // depends on the parameters must be those of the object that was dumped
                    if format!("{:?}", p2) != format!("{:?}", p) {
                        ctx.oracle_failure(serde_json::json!({"kind":"impl_violates_property","what":"reloaded parameters differ from the dumped ones in a field not shown by the getters","dumped":format!("{:?}",p),"reloaded":format!("{:?}",p2)}));
                    }
                    for jac in [0.0f64, 0.05, 0.5, 1.0] {
                        let r1 = catch(|| p.get_jaccard_bounds(jac)).map(|(x, y)| (x.to_bits(), y.to_bits()));
                        let r2 = catch(|| p2.get_jaccard_bounds(jac)).map(|(x, y)| (x.to_bits(), y.to_bits()));
                        if r1.is_ok() != r2.is_ok() || (r1.is_ok() && r1 != r2) {
                            ctx.oracle_failure(serde_json::json!({"kind":"impl_violates_property","what":"get_jaccard_bounds of the reloaded parameters differs from that of the dumped ones","b":b,"jac":jac,
                                "dumped":format!("{:?}",r1),"reloaded":format!("{:?}",r2)}));
                            break;
                        }
                    }
                }
            }
            _ => ctx.oracle_failure(serde_json::json!({"kind":"impl_violates_property","what":"reload of an intact file failed","file":String::from_utf8_lossy(&bytes)})),
        }
        // every proper prefix = every crash point of the dump
        for cut in 0..bytes.len() {
            std::fs::write(&file, &bytes[..cut]).unwrap();
            let r = catch(|| SetSketchParams::reload_json(&dir));
            prefixes += 1;
            ctx.line(&format!("pj parse {}", hexs(&bytes[..cut])), &match &r { Err(_) => "ERR".to_string(), _ => describe(&r) });
            if !matches!(r, Ok(Err(_))) {
                ctx.oracle_failure(serde_json::json!({"kind":"impl_violates_property","key":"torn-file","what":"reload_json of a torn file did not return Err (panic or parameters)","cut":cut,"len":bytes.len(),
                   "file":String::from_utf8_lossy(&bytes),"got":describe(&r)}));
            }
        }
    }
    ctx.count_n("prefixes (crash points) tried", prefixes);
    let _ = std::fs::remove_dir_all(&dir);
}

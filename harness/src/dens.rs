//! Densified one-permutation hashing (C09, C08 deterministic part, C04, C13): real sketchers vs model
use crate::c04::{gen_stream, hash_with, perturb};
use crate::util::*;
use fnv::FnvHasher;
use probminhash::densminhash::*;
use rand::distr::{Distribution, Uniform};
use rand::SeedableRng;
use rand_chacha::ChaCha12Rng;
use std::hash::BuildHasherDefault;
use std::io::Cursor;
use std::process::Command;
use std::time::{Duration, Instant};

type O64 = OptDensMinHash<f64, u64, FnvHasher>;
type R64 = RevOptDensMinHash<f64, u64, FnvHasher>;
type O32 = OptDensMinHash<f32, u64, FnvHasher>;
type R32 = RevOptDensMinHash<f32, u64, FnvHasher>;

fn bh() -> BuildHasherDefault<FnvHasher> {
    BuildHasherDefault::<FnvHasher>::default()
}

fn fmt_state<F: Copy>(st: &(Vec<F>, Vec<u64>, Vec<bool>, i64), hex: impl Fn(F) -> String) -> String {
    format!(
        "{} | {} | {} | {}",
        join(&st.0.iter().map(|x| hex(*x)).collect::<Vec<_>>()),
        join(&st.1),
        join(&st.2.iter().map(|b| if *b { 1 } else { 0 }).collect::<Vec<_>>()),
        st.3
    )
}

/// the four sketcher types behind one interface
pub enum D {
    O64(O64),
    R64(R64),
    O32(O32),
    R32(R32),
}
impl D {
    pub fn new(kind: usize, m: usize) -> D {
        match kind {
            0 => D::O64(O64::new(m, bh())),
            1 => D::R64(R64::new(m, bh())),
            2 => D::O32(O32::new(m, bh())),
            _ => D::R32(R32::new(m, bh())),
        }
    }
    pub fn sfx(&self) -> &'static str {
        match self {
            D::O64(_) | D::R64(_) => "64",
            _ => "32",
        }
    }
    pub fn alg(&self) -> &'static str {
        match self {
            D::O64(_) | D::O32(_) => "opt",
            _ => "rev",
        }
    }
    pub fn sketch(&mut self, x: &u64) {
        match self {
            D::O64(s) => s.sketch(x),
            D::R64(s) => s.sketch(x),
            D::O32(s) => s.sketch(x),
            D::R32(s) => s.sketch(x),
        }
    }
    pub fn end_sketch(&mut self) {
        match self {
            D::O64(s) => s.end_sketch(),
            D::R64(s) => s.end_sketch(),
            D::O32(s) => s.end_sketch(),
            D::R32(s) => s.end_sketch(),
        }
    }
    pub fn sketch_slice(&mut self, v: &[u64]) -> bool {
        match self {
            D::O64(s) => s.sketch_slice(v).is_ok(),
            D::R64(s) => s.sketch_slice(v).is_ok(),
            D::O32(s) => s.sketch_slice(v).is_ok(),
            D::R32(s) => s.sketch_slice(v).is_ok(),
        }
    }
    pub fn reinit(&mut self) {
        match self {
            D::O64(s) => s.reinit(),
            D::R64(s) => s.reinit(),
            D::O32(s) => s.reinit(),
            D::R32(s) => s.reinit(),
        }
    }
    pub fn dump(&self) -> String {
        match self {
            D::O64(s) => fmt_state(&s.verif_state(), fhx),
            D::R64(s) => fmt_state(&s.verif_state(), fhx),
            D::O32(s) => fmt_state(&s.verif_state(), f32hx),
            D::R32(s) => fmt_state(&s.verif_state(), f32hx),
        }
    }
    /// (values, init, nb_empty, float bits)
    pub fn parts(&self) -> (Vec<u64>, Vec<bool>, i64, Vec<u64>) {
        match self {
            D::O64(s) => { let t = s.verif_state(); (t.1, t.2, t.3, t.0.iter().map(|x| x.to_bits()).collect()) }
            D::R64(s) => { let t = s.verif_state(); (t.1, t.2, t.3, t.0.iter().map(|x| x.to_bits()).collect()) }
            D::O32(s) => { let t = s.verif_state(); (t.1, t.2, t.3, t.0.iter().map(|x| x.to_bits() as u64).collect()) }
            D::R32(s) => { let t = s.verif_state(); (t.1, t.2, t.3, t.0.iter().map(|x| x.to_bits() as u64).collect()) }
        }
    }
    /// get_hsketch() as bit patterns (caught: it panics while bins are empty)
    pub fn float_bits_view(&self) -> Result<Vec<u64>, String> {
        catch(std::panic::AssertUnwindSafe(|| match self {
            D::O64(s) => s.get_hsketch().iter().map(|x| x.to_bits()).collect(),
            D::R64(s) => s.get_hsketch().iter().map(|x| x.to_bits()).collect(),
            D::O32(s) => s.get_hsketch().iter().map(|x| x.to_bits() as u64).collect(),
            D::R32(s) => s.get_hsketch().iter().map(|x| x.to_bits() as u64).collect(),
        }))
    }
    pub fn u32view(&self) -> Vec<u32> {
        match self {
            D::O64(s) => s.get_hsketch_u32(),
            D::R64(s) => s.get_hsketch_u32(),
            D::O32(s) => s.get_hsketch_u32(),
            D::R32(s) => s.get_hsketch_u32(),
        }
    }
    pub fn u64view(&self) -> Vec<u64> {
        match self {
            D::O64(s) => s.get_hsketch_u64(),
            D::R64(s) => s.get_hsketch_u64(),
            D::O32(s) => s.get_hsketch_u64(),
            D::R32(s) => s.get_hsketch_u64(),
        }
    }
}

/// child: `pmh_harness child-dens <kind> <m> end|slice` on an EMPTY stream (may never return)
pub fn child(args: &[String]) {
    let kind: usize = args[0].parse().unwrap();
    let m: usize = args[1].parse().unwrap();
    let mut d = D::new(kind, m);
    let r = catch(std::panic::AssertUnwindSafe(|| {
        if args[2] == "end" {
            d.end_sketch();
            "ok".to_string()
        } else if d.sketch_slice(&[]) {
            "ok".to_string()
        } else {
            "ERR".to_string()
        }
    }));
    println!("{}", r.unwrap_or("PANIC".to_string()));
}

fn run_child_timeout(kind: usize, m: usize, what: &str, secs: u64) -> String {
    let exe = std::env::current_exe().unwrap();
    let mut c = Command::new(exe).arg("child-dens").arg(kind.to_string()).arg(m.to_string()).arg(what)
        .stdout(std::process::Stdio::piped()).stderr(std::process::Stdio::null()).spawn().unwrap();
    let t0 = Instant::now();
    loop {
        match c.try_wait().unwrap() {
            Some(_) => {
                let out = c.wait_with_output().unwrap();
                return String::from_utf8_lossy(&out.stdout).lines().next().unwrap_or("CRASH").to_string();
            }
            None => {
                if t0.elapsed() > Duration::from_secs(secs) {
                    let _ = c.kill();
                    let _ = c.wait();
                    return "HANG".to_string();
                }
                std::thread::sleep(Duration::from_millis(20));
            }
        }
    }
}

fn check_structure(ctx: &mut Ctx, before: &(Vec<u64>, Vec<bool>, i64, Vec<u64>), d: &D, items: &[u64], desc: &str) {
    // populated bins untouched; every bin holds the (value, hash) pair of an originally populated bin;
    // hashes are hashes of streamed items; u32 view = murmur3_32(u64 view)
    let after = d.parts();
    let m = after.0.len();
    let hashes: std::collections::HashSet<u64> = items.iter().map(|x| hash_with::<FnvHasher, u64>(x)).collect();
    let pop: std::collections::HashSet<(u64, u64)> = (0..m).filter(|k| before.1[*k]).map(|k| (before.3[k], before.0[k])).collect();
    for k in 0..m {
        let bad = if before.1[k] {
            after.0[k] != before.0[k] || after.3[k] != before.3[k]
        } else {
            !pop.contains(&(after.3[k], after.0[k]))
        };
        if bad || !hashes.contains(&after.0[k]) || !after.1[k] {
            ctx.oracle_failure(serde_json::json!({"kind":"impl_violates_property","what":"densification changed a populated bin / filled a bin with something that is not a populated bin's pair","desc":desc,"bin":k,"m":m}));
            return;
        }
    }
    if after.2 != 0 {
        ctx.oracle_failure(serde_json::json!({"kind":"impl_violates_property","what":"nb_empty != 0 after densification","desc":desc}));
    }
    let v64 = d.u64view();
    let v32 = d.u32view();
    let want: Vec<u32> = v64.iter().map(|v| murmur3::murmur3_32(&mut Cursor::new(v.to_ne_bytes()), 127).unwrap()).collect();
    if v32 != want {
        ctx.oracle_failure(serde_json::json!({"kind":"impl_violates_property","what":"u32 view is not murmur3_32 of the u64 view","desc":desc}));
    }
}

pub fn corr(ctx: &mut Ctx) {
    // ChaCha12 / Uniform<usize> re-implementation against the crates
    for c in 0..ctx.n(30, 300) {
        let seed = if c < 3 { [0u64, 123743, 253713 + 5][c as usize] } else { ctx.rng.below(1 << 40) };
        let m = [1usize, 2, 3, 7, 64, 257, 100000, (1usize << 32) - 1][c as usize % 8];
        ctx.begin_case("chacha12 uniform");
        ctx.mark_nontrivial();
        let mut r = ChaCha12Rng::seed_from_u64(seed);
        let u = Uniform::<usize>::new(0, m).unwrap();
        let v: Vec<usize> = (0..40).map(|_| u.sample(&mut r)).collect();
        ctx.line(&format!("dens chacha {} {} 40", seed, m), &join(&v));
    }
    // items whose HASH is an extreme value (through NoHashHasher the hash is the item): u64::MAX is also the initial content of an
    // empty bin, 0 and 1 are other natural sentinels. Model (which takes the hash) + order / repetition oracle.
    {
        use probminhash::nohasher::NoHashHasher;
        type NO = OptDensMinHash<f64, u64, NoHashHasher>;
        type NR = RevOptDensMinHash<f32, u64, NoHashHasher>;
        let nbh = || BuildHasherDefault::<NoHashHasher>::default();
        let specials = [u64::MAX, 0u64, 1, u64::MAX - 1, 1u64 << 63];
        for (ci, m) in [1usize, 2, 2, 3, 8, 64].iter().enumerate() {
            for spv in specials {
                // the crate's NoHashHasher reads the 8 bytes of a u64 item in the other byte order: choose the ITEM whose hash is the special value
                let sp = spv.swap_bytes();
                if hash_with::<NoHashHasher, u64>(&sp) != spv { ctx.count("NoHashHasher is not the byte-swapped identity: special hashes not reached"); }
                let mut rng = ctx.rng.fork();
                let mut others: Vec<u64> = (0..(ci * 8 + 1)).map(|_| rng.next() >> 1).collect();
                others.retain(|x| *x != sp);
                let mut first = vec![sp]; first.extend_from_slice(&others);
                let mut last = others.clone(); last.push(sp);
                let mut dup = first.clone(); dup.push(sp);
                ctx.begin_case(&format!("dens extreme hash {:x} through NoHashHasher m={} n={}", spv, m, first.len()));
                ctx.mark_nontrivial();
                ctx.count("extreme hash values through NoHashHasher");
                let ro = |v: &[u64]| catch(std::panic::AssertUnwindSafe(|| { let mut d = NO::new(*m, nbh()); let ok = d.sketch_slice(v).is_ok(); (ok, fmt_state(&d.verif_state(), fhx)) }));
                let rr = |v: &[u64]| catch(std::panic::AssertUnwindSafe(|| { let mut d = NR::new(*m, nbh()); let ok = d.sketch_slice(v).is_ok(); (ok, fmt_state(&d.verif_state(), f32hx)) }));
                let a = ro(&first);
                ctx.op(&format!("dens new64 x {}", m));
                ctx.line(&format!("dens slice64 x opt {}", first.iter().map(|x| hx(hash_with::<NoHashHasher, u64>(x))).collect::<Vec<_>>().join(" ")), match &a { Ok((true, _)) => "ok", Ok((false, _)) => "ERR", Err(_) => "PANIC" });
                ctx.line("dens dump64 x", &a.as_ref().map(|x| x.1.clone()).unwrap_or("PANIC".into()));
                let b = rr(&first);
                ctx.op(&format!("dens new32 y {}", m));
                ctx.line(&format!("dens slice32 y rev {}", first.iter().map(|x| hx(hash_with::<NoHashHasher, u64>(x))).collect::<Vec<_>>().join(" ")), match &b { Ok((true, _)) => "ok", Ok((false, _)) => "ERR", Err(_) => "PANIC" });
                ctx.line("dens dump32 y", &b.as_ref().map(|x| x.1.clone()).unwrap_or("PANIC".into()));
                if a != ro(&last) || a != ro(&dup) || b != rr(&last) || b != rr(&dup) || !matches!(a, Ok((true, _))) || !matches!(b, Ok((true, _))) {
                    ctx.oracle_failure(serde_json::json!({"kind":"impl_violates_property","what":"densified sketch over pre-hashed items: an item whose hash is an extreme value is treated specially (order / repetition changes the sketch, or finishing a non-empty stream fails)",
                        "hash":hx(sp),"m":m,"n":first.len(),"opt_ok": a == ro(&last) && a == ro(&dup), "rev_ok": b == rr(&last) && b == rr(&dup)}));
                }
            }
        }
    }
    // EVERY small sketch size (number-theoretic accidents of a probing scheme - a stride sharing a factor with m - live at
    // particular sizes) with 1..4 items, and a few larger composite / prime sizes: finishing must succeed, keep populated bins, copy
    // only populated bins, be reproducible and not depend on the order of the items. Implementation only.
    let mut sweep: Vec<usize> = (1..=40).collect();
    sweep.extend_from_slice(&[45, 50, 63, 65, 100, 127, 128, 139, 199, 200, 255, 256, 278, 398, 695, 1000, 1390]);
    if !ctx.quick() { sweep.extend_from_slice(&[995, 1990, 4170, 5970, 10_007, 27_661]); }
    for m in sweep {
        for kind in 0..4 {
            for n in [1usize, 2, 3, 4, 1 + m / 7] {
                let mut rng = ctx.rng.fork();
                let items = gen_stream(&mut rng, n);
                ctx.begin_case(&format!("dens size sweep kind={} m={} n={}", kind, m, n));
                ctx.count("size sweep (every m up to 40, composites, 1..4 items)");
                let its = items.clone();
                let a = catch(std::panic::AssertUnwindSafe(move || { let mut d = D::new(kind, m); let ok = d.sketch_slice(&its); (ok, d.parts()) }));
                let mut rev = items.clone(); rev.reverse();
                let b = catch(std::panic::AssertUnwindSafe(move || { let mut d = D::new(kind, m); for x in &rev { d.sketch(x); } d.end_sketch(); (true, d.parts()) }));
                let hashes: std::collections::HashSet<u64> = items.iter().map(|x| hash_with::<FnvHasher, u64>(x)).collect();
                let good = match (&a, &b) {
                    (Ok((true, pa)), Ok((true, pb))) => pa == pb && pa.2 == 0 && pa.0.iter().all(|h| hashes.contains(h)) && pa.1.iter().all(|i| *i),
                    _ => false,
                };
                if !good {
                    ctx.oracle_failure(serde_json::json!({"kind":"impl_violates_property","what":"finishing a densified sketch of a non-empty stream failed / is not reproducible across orders / left a bin without the hash of a streamed item",
                        "kind_index":kind,"m":m,"n":n,"items":items,"slice": format!("{:?}", a.as_ref().map(|x| x.0)), "itemwise_reversed": format!("{:?}", b.as_ref().map(|x| x.0))}));
                }
            }
        }
    }
    let ms: Vec<usize> = if ctx.quick() { vec![1, 2, 3, 7, 16, 64, 257] } else { vec![1, 2, 3, 7, 16, 64, 257, 1024, 4096] };
    let ncases = ctx.n(80, 1000);
    for c in 0..ncases {
        let mut rng = ctx.rng.fork();
        let kind = c as usize % 4;
        let m = ms[(c as usize / 4) % ms.len()];
        // occupancy from 1 populated bin to full
        let n = match c % 5 { 0 => 1, 1 => 1 + m / 20, 2 => 1 + m / 2, 3 => 3 * m + 1, _ => 1 + rng.below(2 * m as u64 + 1) as usize };
        let items = gen_stream(&mut rng, n);
        let stream = if c % 2 == 0 { items.clone() } else { perturb(&mut rng, &items) };
        let mut d = D::new(kind, m);
        let sfx = d.sfx();
        let alg = d.alg();
        ctx.begin_case(&format!("dens {}{} m={} n={}", alg, sfx, m, n));
        ctx.count(&format!("alg={}{}", alg, sfx));
        ctx.count(&format!("fill={}", if n * 20 <= m { "sparse" } else if n >= 3 * m { "full" } else { "partial" }));
        ctx.mark_nontrivial();
        ctx.op(&format!("dens new{} a {}", sfx, m));
        // item-wise + end_sketch
        for x in &stream {
            d.sketch(x);
            ctx.op(&format!("dens sk{} a {}", sfx, fnv_tok(x)));
        }
        ctx.line(&format!("dens dump{} a", sfx), &d.dump());
        let before = d.parts();
        let r = catch(std::panic::AssertUnwindSafe(|| d.end_sketch()));
        ctx.line(&format!("dens end{} a {}", sfx, alg), if r.is_ok() { "ok" } else { "PANIC" });
        ctx.line(&format!("dens dump{} a", sfx), &d.dump());
        if r.is_ok() {
            check_structure(ctx, &before, &d, &items, &format!("{}{} m={} n={}", alg, sfx, m, n));
            // idempotent
            let snap = d.dump();
            d.end_sketch();
            ctx.line(&format!("dens end{} a {}", sfx, alg), "ok");
            if d.dump() != snap {
                ctx.oracle_failure(serde_json::json!({"kind":"impl_violates_property","what":"end_sketch is not idempotent","alg":alg,"m":m,"n":n}));
            }
            // an empty slice on a finished sketch: Ok and no change; on an unfinished one: finishes it
            let ok0 = d.sketch_slice(&[]);
            ctx.line(&format!("dens slice{} a {}", sfx, alg), if ok0 { "ok" } else { "ERR" });
            if !ok0 || d.dump() != snap {
                ctx.oracle_failure(serde_json::json!({"kind":"impl_violates_property","what":"sketch_slice(&[]) on a finished sketch fails or changes it","alg":alg,"m":m,"n":n}));
            }
            let mut d4 = D::new(kind, m);
            for x in &stream { d4.sketch(x); }
            let ok4 = d4.sketch_slice(&[]);
            if !ok4 || d4.dump() != snap {
                ctx.oracle_failure(serde_json::json!({"kind":"impl_violates_property","what":"item-wise sketch + sketch_slice(&[]) differs from item-wise sketch + end_sketch","alg":alg,"sfx":sfx,"m":m,"n":n}));
            }
            // sketch_slice == item-wise + end_sketch ; set semantics of the finished sketch
            let mut d2 = D::new(kind, m);
            let ok = d2.sketch_slice(&stream);
            ctx.op(&format!("dens new{} b {}", sfx, m));
            ctx.line(&format!("dens slice{} b {} {}", sfx, alg, stream.iter().map(|x| fnv_tok(x)).collect::<Vec<_>>().join(" ")), if ok { "ok" } else { "ERR" });
            ctx.line(&format!("dens dump{} b", sfx), &d2.dump());
            if d2.dump() != snap {
                ctx.oracle_failure(serde_json::json!({"kind":"impl_violates_property","what":"sketch_slice differs from item-wise sketch + end_sketch","alg":alg,"m":m,"n":n}));
            }
            let mut d3 = D::new(kind, m);
            let pert = perturb(&mut rng, &items);
            d3.sketch_slice(&pert);
            if d3.dump() != snap {
                ctx.oracle_failure(serde_json::json!({"kind":"impl_violates_property","what":"densified sketch changes under reordering/repetition","alg":alg,"sfx":sfx,"m":m,"n":n,"items":items.iter().take(40).collect::<Vec<_>>()}));
            }
        }
        // reinit then reuse
        d.reinit();
        ctx.op(&format!("dens reinit{} a", sfx));
        ctx.line(&format!("dens dump{} a", sfx), &d.dump());
    }
    // random interleavings of sketch / end_sketch / sketch_slice / reinit over 3 items
    let nint = ctx.n(120, 2000);
    for c in 0..nint {
        let kind = c as usize % 4;
        let m = [1usize, 3, 8, 40][(c as usize / 4) % 4];
        let items = [11u64, 22, 33];
        let mut d = D::new(kind, m);
        let sfx = d.sfx();
        let alg = d.alg();
        let len = 1 + ctx.rng.below(6);
        ctx.begin_case(&format!("dens interleaving {}{} m={} len={}", alg, sfx, m, len));
        ctx.mark_nontrivial();
        ctx.op(&format!("dens new{} a {}", sfx, m));
        let mut streamed = false;
        for _ in 0..len {
            match ctx.rng.below(4) {
                0 => {
                    let x = *ctx.rng.pick(&items);
                    d.sketch(&x);
                    streamed = true;
                    ctx.op(&format!("dens sk{} a {}", sfx, fnv_tok(&x)));
                    ctx.count("op=sketch");
                }
                1 => {
                    if !streamed { continue; } // the empty case runs in a child process below
                    let r = catch(std::panic::AssertUnwindSafe(|| d.end_sketch()));
                    ctx.line(&format!("dens end{} a {}", sfx, alg), if r.is_ok() { "ok" } else { "PANIC" });
                    ctx.count("op=end_sketch");
                }
                2 => {
                    // 0..3 items: an EMPTY slice after items were streamed must just finish the sketch
                    let k = ctx.rng.below(4) as usize;
                    // (an empty slice on a sketcher that has received nothing reports failure - fix F2 - and the object goes on being used)
                    let sl: Vec<u64> = (0..k).map(|_| *ctx.rng.pick(&items)).collect();
                    let ok = d.sketch_slice(&sl);
                    if k == 0 { ctx.count(if streamed { "op=sketch_slice(empty) after items" } else { "op=sketch_slice(empty) on an empty sketcher, then more operations" }); }
                    streamed = streamed || k > 0;
                    ctx.line(&format!("dens slice{} a {} {}", sfx, alg, sl.iter().map(|x| fnv_tok(x)).collect::<Vec<_>>().join(" ")), if ok { "ok" } else { "ERR" });
                    ctx.count("op=sketch_slice");
                }
                _ => {
                    d.reinit();
                    streamed = false;
                    ctx.op(&format!("dens reinit{} a", sfx));
                    ctx.count("op=reinit");
                }
            }
            ctx.line(&format!("dens dump{} a", sfx), &d.dump());
            // whenever no bin is empty the three views are readable: after EVERY operation (so that anything a view
            // call caches is exercised by the next operation) they must be images of the current internal state
            let (values, _init, nb_empty, fbits) = d.parts();
            if nb_empty == 0 && streamed {
                let v64 = catch(std::panic::AssertUnwindSafe(|| d.u64view()));
                let v32 = catch(std::panic::AssertUnwindSafe(|| d.u32view()));
                let want32: Vec<u32> = values.iter().map(|h| murmur3::murmur3_32(&mut Cursor::new(&h.to_ne_bytes()), 127).unwrap()).collect();
                let fv = d.float_bits_view();
                if v64.as_ref().ok() != Some(&values) || v32.as_ref().ok() != Some(&want32) || fv.as_ref().ok() != Some(&fbits) {
                    ctx.oracle_failure(serde_json::json!({"kind":"impl_violates_property","what":"a view (float / u64 / u32) is not the image of the current sketch state after an operation sequence","alg":alg,"sfx":sfx,"m":m,
                        "u64_ok": v64.as_ref().ok() == Some(&values), "u32_ok": v32.as_ref().ok() == Some(&want32), "float_ok": fv.as_ref().ok() == Some(&fbits)}));
                }
                // every position of a readable view holds the hash of an item of the pool (never the initial placeholder)
                let pool: std::collections::HashSet<u64> = items.iter().map(|x| hash_with::<FnvHasher, u64>(x)).collect();
                if values.iter().any(|h| !pool.contains(h)) {
                    ctx.oracle_failure(serde_json::json!({"kind":"impl_violates_property","what":"a readable densified sketch (no empty bin reported) holds a value that is not the hash of a streamed item (placeholder left in place)","alg":alg,"sfx":sfx,"m":m}));
                }
                if let Ok(v) = &v32 { ctx.line(&format!("dens u32view{} a", sfx), &join(v)); }   // model: murmur3_32 of the stored hashes (Model/Hashers.lean)
                ctx.count("views read after an operation");
            }
        }
    }
    // nothing streamed: must terminate and report failure (child process, 3 s watchdog)
    for kind in 0..2usize {
        for what in ["end", "slice"] {
            let alg = if kind == 0 { "opt" } else { "rev" };
            ctx.begin_case(&format!("dens empty stream {} {}", alg, what));
            ctx.mark_nontrivial();
            let got = run_child_timeout(kind, 4, what, 3);
            ctx.op("dens new64 e 4");
            if what == "end" {
                ctx.line(&format!("dens end64 e {}", alg), &got);
            } else {
                ctx.line(&format!("dens slice64 e {}", alg), &got);
            }
            if got == "HANG" || got == "ok" || got == "CRASH" {
                ctx.oracle_failure(serde_json::json!({"kind":"impl_violates_property","key":format!("dens-empty:{}:{}",alg,what),
                    "what":"finishing a densified sketch on an empty stream hangs (or claims success) instead of reporting failure","alg":alg,"call":what,"got":got,"m":4}));
            }
        }
    }
    // directed tie (finding F8): two items with the same 23-bit f32 draw on m = 1
    for (kind, name) in [(2usize, "OptDensMinHash<f32>"), (3, "RevOptDensMinHash<f32>")] {
        ctx.begin_case(&format!("dens tie {} m=1 items 3472,4017", name));
        ctx.mark_nontrivial();
        let mut a = D::new(kind, 1);
        let mut b = D::new(kind, 1);
        a.sketch_slice(&[3472, 4017]);
        b.sketch_slice(&[4017, 3472]);
        let alg = a.alg();
        ctx.op("dens new32 t 1");
        ctx.op(&format!("dens slice32 t {} {} {}", alg, fnv_tok(&3472u64), fnv_tok(&4017u64)));
        ctx.line("dens dump32 t", &a.dump());
        ctx.op("dens new32 u 1");
        ctx.op(&format!("dens slice32 u {} {} {}", alg, fnv_tok(&4017u64), fnv_tok(&3472u64)));
        ctx.line("dens dump32 u", &b.dump());
        if a.u64view() != b.u64view() {
            ctx.oracle_failure(serde_json::json!({"kind":"impl_violates_property","key":format!("dens-tie:{}:m=1:3472,4017",alg),
                "what":"u64 view depends on the order of two items whose f32 draws tie","sketcher":name,"a":a.u64view(),"b":b.u64view()}));
        }
    }
}

/// C08: the finished sketch is a consistent SELECTION of the hash set (implementation-only oracles, all four
/// sketcher types, emphasis on the sparse regime where densification fills most bins):
///   (M) every position shows the hash of an item of the set;
///   (R) S ⊆ U and U's position k shows a hash of S  ⇒  S's position k shows the same hash;
///   (C) sketch(A)[k] == sketch(B)[k]  ⇔  sketch(A ∪ B)[k] ∈ hashes(A) ∩ hashes(B)   — the event whose
///       probability is J under exchangeable hashing (Props/C08 collision_iff / collision_count_is_jaccard);
///   views: equal u64 ⇔ equal float bits (no r-tie) and equal u64 ⇒ equal u32.
/// LARGE sketch sizes (a threshold on m or on the number of empty bins above which another densification path is taken):
/// S subset of U with fill ratios on both sides of 1/2 at m = 2^17 (and 2^16 + 1): wherever U's finished sketch shows an item of S,
/// S's own sketch must show the same item (restriction), S's populated bins are untouched, both finish. Implementation only.
pub fn large_restriction(ctx: &mut Ctx) {
    use std::collections::HashSet;
    for (ci, m) in [1usize << 17, (1 << 16) + 1].iter().enumerate() {
        for kind in if ctx.quick() { vec![ci % 2, 2 + ci % 2] } else { vec![0, 1, 2, 3] } {
            let mut rng = ctx.rng.fork();
            let nu = m * 4 / 5;              // empties in U: m e^{-0.8} ~ 0.45 m ; in S (half of U): m e^{-0.4} ~ 0.67 m
            let u_items = gen_stream(&mut rng, nu);
            let s_items = &u_items[..nu / 2];
            ctx.begin_case(&format!("dens large restriction kind={} m={} |U|={} |S|={}", kind, m, nu, s_items.len()));
            ctx.mark_nontrivial();
            ctx.count("large m restriction (fill ratios on both sides of 1/2)");
            let mut du = D::new(kind, *m);
            let mut ds = D::new(kind, *m);
            let oku = du.sketch_slice(&u_items);
            let oks = ds.sketch_slice(s_items);
            let hs: HashSet<u64> = s_items.iter().map(|x| hash_with::<FnvHasher, u64>(x)).collect();
            let (vu, vs) = (du.parts().0, ds.parts().0);
            let mut bad = 0usize;
            let mut first = None;
            for k in 0..*m {
                if hs.contains(&vu[k]) && vs[k] != vu[k] { bad += 1; if first.is_none() { first = Some(k); } }
            }
            if !oku || !oks || bad > 0 {
                ctx.oracle_failure(serde_json::json!({"kind":"impl_violates_property","what":"large densified sketch: where the sketch of U shows an item of S, the sketch of S shows another item (selection is not a restriction-consistent function of the set)",
                    "kind_index":kind,"m":m,"positions_violating":bad,"first_position":first,"finished_U":oku,"finished_S":oks}));
            }
        }
    }
}

pub fn selection_oracles(ctx: &mut Ctx) {
    use std::collections::HashSet;
    large_restriction(ctx);
    let ms: Vec<usize> = if ctx.quick() { vec![1, 2, 3, 8, 64, 500] } else { vec![1, 2, 3, 8, 64, 500, 4096, 20000] };
    let ncases = ctx.n(160, 3000);
    // thorough tier: four more cases (one per sketcher type) at m = 2^18, where an f32 value has only 32 grid points per bin
    let nlarge = if ctx.quick() { 0 } else { 4 };
    for c in 0..ncases + nlarge {
        let mut rng = ctx.rng.fork();
        let kind = c as usize % 4;
        let m = if c >= ncases { 1usize << 18 } else { ms[(c as usize / 4) % ms.len()] };
        // set sizes from 1 to ~3m; three of five cases sparse (n << m)
        let nu = if c >= ncases { 2 + m } else { match c % 5 { 0 => 2, 1 => 2 + m / 50, 2 => 2 + m / 10, 3 => 2 + m, _ => 2 + rng.below(3 * m as u64 + 1) as usize } };
        let u_items = gen_stream(&mut rng, nu);
        // A = first part, B = last part, overlapping in the middle
        let i1 = 1 + rng.below(nu as u64 - 1) as usize; // A = [0, i1)
        let i0 = rng.below(i1 as u64 + 1) as usize; // B = [i0, nu)  (i0 <= i1: overlap [i0,i1))
        let a_items = &u_items[..i1];
        let b_items = if i0 < nu { &u_items[i0..] } else { &u_items[nu - 1..] };
        let hset = |v: &[u64]| v.iter().map(|x| hash_with::<FnvHasher, u64>(x)).collect::<HashSet<u64>>();
        let (ha, hb) = (hset(a_items), hset(b_items));
        let mut union: Vec<u64> = a_items.to_vec();
        for x in b_items { if !a_items.contains(x) { union.push(*x); } }
        let hu = hset(&union);
        let mk = |v: &[u64], rng: &mut Sm64| { let mut d = D::new(kind, m); let mut w = v.to_vec(); rng.shuffle(&mut w); let ok = d.sketch_slice(&w); (d, ok) };
        let (da, oka) = mk(a_items, &mut rng);
        let (db, okb) = mk(b_items, &mut rng);
        let (du, oku) = mk(&union, &mut rng);
        let alg = da.alg();
        let sfx = da.sfx();
        ctx.begin_case(&format!("dens selection {}{} m={} |A|={} |B|={} |AuB|={}", alg, sfx, m, a_items.len(), b_items.len(), union.len()));
        ctx.count(&format!("sel alg={}{}", alg, sfx));
        ctx.count(&format!("sel fill={}", if union.len() * 10 <= m { "sparse(<=m/10)" } else if union.len() >= m { "dense(>=m)" } else { "partial" }));
        ctx.mark_nontrivial();
        if !(oka && okb && oku) {
            ctx.oracle_failure(serde_json::json!({"kind":"impl_violates_property","what":"sketch_slice of a non-empty set failed","alg":alg,"sfx":sfx,"m":m}));
            continue;
        }
        let (va, vb, vu) = (da.u64view(), db.u64view(), du.u64view());
        let (fa, fb) = (da.parts().3, db.parts().3);
        let (wa, wb) = (da.u32view(), db.u32view());
        let desc = serde_json::json!({"alg":alg,"sfx":sfx,"m":m,"A":a_items.iter().take(30).collect::<Vec<_>>(),"B":b_items.iter().take(30).collect::<Vec<_>>(),"nA":a_items.len(),"nB":b_items.len()});
        let mut ncoll = 0usize;
        let mut f32_ties = 0usize;
        for k in 0..m {
            if !ha.contains(&va[k]) || !hb.contains(&vb[k]) || !hu.contains(&vu[k]) {
                ctx.oracle_failure(serde_json::json!({"kind":"impl_violates_property","what":"(M) a finished position shows a hash that is not in the set","k":k,"case":desc}));
                break;
            }
            if (ha.contains(&vu[k]) && va[k] != vu[k]) || (hb.contains(&vu[k]) && vb[k] != vu[k]) {
                ctx.oracle_failure(serde_json::json!({"kind":"impl_violates_property","what":"(R) the union's position shows a hash of the subset but the subset's sketch shows another one: selection is not restriction-consistent","k":k,"union":vu[k],"a":va[k],"b":vb[k],"case":desc}));
                break;
            }
            let coll = va[k] == vb[k];
            if coll { ncoll += 1; }
            if coll != (ha.contains(&vu[k]) && hb.contains(&vu[k])) {
                ctx.oracle_failure(serde_json::json!({"kind":"impl_violates_property","what":"(C) collision at a position is not the event 'the hash selected for the union is common to both sets'","k":k,"union":vu[k],"a":va[k],"b":vb[k],"case":desc}));
                break;
            }
            if !coll && fa[k] == fb[k] && sfx == "32" { f32_ties += 1; }
            if coll != (fa[k] == fb[k]) && sfx == "64" {
                ctx.oracle_failure(serde_json::json!({"kind":"impl_violates_property","what":"float view and u64 view disagree on a collision (f64)","k":k,"case":desc}));
                break;
            }
            if coll && (fa[k] != fb[k] || wa[k] != wb[k]) {
                ctx.oracle_failure(serde_json::json!({"kind":"impl_violates_property","what":"equal u64 position but different float / u32 view","k":k,"case":desc}));
                break;
            }
        }
        // f32 sketchers: two different items showing the same float at one position is a 2^-23 event per position;
        // two or more in one pair of sketches means the float view no longer separates items
        if f32_ties >= 2 {
            ctx.oracle_failure(serde_json::json!({"kind":"impl_violates_property","what":"f32 float view shows equal values at positions whose u64 view holds different items (float view over-counts collisions)","positions":f32_ties,"case":desc}));
        }
        ctx.count(if ncoll == 0 { "sel collisions=0" } else if ncoll == m { "sel collisions=m" } else { "sel collisions=some" });
    }
}

#!/bin/bash
# Regression test of the machinery itself: every seeded change under /verif/seeded must still be reported.
# For each seed: git -C /repo apply patch.diff; ./check <property> --tier quick (expect exit 1 + VIOLATION); restore /repo.
# usage: tools/seeds_regress.sh [seed-name ...]      (default: all)      writes seeded/REGRESS.txt
cd /verif
if [ -n "$(git -C /repo status --porcelain --untracked-files=no)" ]; then echo "/repo has local changes: refusing"; exit 2; fi
names=("$@"); [ ${#names[@]} -eq 0 ] && names=($(ls seeded | grep -v REGRESS))
out=seeded/REGRESS.txt; : > $out
miss=0
for n in "${names[@]}"; do
  d=seeded/$n; [ -f $d/patch.diff ] || continue
  p=$(python3 -c "import json;print(json.load(open('$d/meta.json'))['property'])")
  git -C /repo apply $PWD/$d/patch.diff || { echo "$n $p PATCH-DOES-NOT-APPLY" | tee -a $out; git -C /repo checkout -q -- .; continue; }
  ./check $p --tier quick > /tmp/.seed_regress.out 2>&1; rc=$?
  git -C /repo checkout -q -- .
  v=$(grep -c "^VIOLATION property=$p" /tmp/.seed_regress.out)
  f=$(grep -c "^FAILING-INPUT" /tmp/.seed_regress.out)
  if [ $rc -eq 1 ] && [ $v -ge 1 ]; then echo "$n $p detected failing_inputs_shown=$f" | tee -a $out; else echo "$n $p MISSED rc=$rc" | tee -a $out; miss=$((miss+1)); fi
done
rm -f /tmp/.seed_regress.out
# leave the harness built against the unchanged tree
(cd harness && cargo build --release --offline >/dev/null 2>&1)
echo "missed: $miss" | tee -a $out
exit $miss

#!/usr/bin/env python3
"""Regenerate MANIFEST.json from tools/props.py (single source of truth for the claimed checks)."""
import json, os, sys
VERIF = os.path.dirname(os.path.dirname(os.path.abspath(__file__)))
sys.path.insert(0, os.path.join(VERIF, "tools"))
from props import PROPS
all_ids = [json.loads(l)["id"] for l in open(os.path.join(VERIF, "properties.jsonl"))]
hook_commits = [l.strip() for l in open(os.path.join(VERIF, "tools", "hook_commits.txt")) if l.strip()]
checks = []
for pid in all_ids:
    if pid not in PROPS or not PROPS[pid].get("claimed", True):
        continue
    c = PROPS[pid]
    checks.append({
        "property_id": pid,
        "quick_cmd": "./check %s --tier quick" % pid,
        "thorough_cmd": "./check %s --tier thorough" % pid,
        "evidence_file": "/verif/evidence/%s.json" % pid,
        "replay_cmd_template": "./check %s --replay {path}" % pid,
        "engine": "lean4-proof+correspondence",
        "level_claimed": {"category": "proof", "text": c["level_text"], "design_ref": c.get("design_ref", "DESIGN.md section 5, " + pid)},
        "level_note": c["level_note"],
        "technique": c.get("technique", "Lean 4 theorems over a hand-written executable model; model tied to the code by differential correspondence run"),
    })
na = [{"property_id": pid, "reason": (PROPS.get(pid, {}).get("na_reason") or "no check registered yet in this revision of /verif (framework under construction; see DESIGN.md section 13)")}
      for pid in all_ids if pid not in PROPS or not PROPS[pid].get("claimed", True)]
man = {
    "version": 1,
    "setup_cmd": "sh tools/setup.sh",
    "hooks": {
        "guard": "--cfg probminhash_verif",
        "enable": "harness/.cargo/config.toml sets rustflags=[\"--cfg\",\"probminhash_verif\"]; the harness has a path dependency on /repo, so every check recompiles /repo's working tree with the hooks on",
        "baseline_off_cmd": "cd /repo && cargo test --workspace --no-fail-fast --offline",
        "source_commits": hook_commits,
        "add_only": True,
    },
    "engines": [
        {"name": "lean4-proof+correspondence", "path": "/verif/lean", "serves_properties": [c["property_id"] for c in checks],
         "kind_free_text": "Lean 4 library PMH (models, helper proofs, property theorems, axiom audit) + compiled model driver pmhdriver + Rust harness /verif/harness running the real crate in-process on the same inputs"},
    ],
    "checks": checks,
    "not_applicable": na,
    "notes": "Every check: rebuild harness against /repo working tree, rebuild+recheck the Lean theorems of the property, audit axioms, run the model/implementation correspondence and the implementation-only property oracles. See DESIGN.md.",
}
json.dump(man, open(os.path.join(VERIF, "MANIFEST.json"), "w"), indent=1)
print("claimed:", [c["property_id"] for c in checks])

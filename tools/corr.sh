#!/bin/sh
# developer helper: run one correspondence and show mismatches   usage: tools/corr.sh Cxx [seed] [tier]
P=$1; S=${2:-1}; T=${3:-quick}
cd /verif
(cd harness && cargo build --release --offline 2>&1 | grep -E "^error" -A8); ./harness/target/release/pmh_harness corr $P --seed $S --tier $T --out work/$P >/dev/null 2>&1 || echo "harness rc=$?"
./lean/.lake/build/bin/pmhdriver < work/$P/ops.txt > work/$P/model.txt
python3 - "$P" <<'PY'
import json,sys
P=sys.argv[1]
d='/verif/work/%s/'%P
s=json.load(open(d+'summary.json'))
print('evals',s['evaluations'],'nontrivial',s['distinct_nontrivial'],'lines',s['lines'],'oracle_failures',len(s['oracle_failures']))
for f in s['oracle_failures'][:6]: print('  ORACLE',json.dumps(f)[:400])
ops=open(d+'ops.txt').read().splitlines(); imp=open(d+'impl.txt').read().splitlines(); mod=open(d+'model.txt').read().splitlines()
n=0; case=''
for i,(o,a,b) in enumerate(zip(ops,imp,mod)):
    if o.startswith('case '): case=o
    if a!=b:
        n+=1
        if n<6: print(' MISMATCH line',i+1, case[:80],'\n    op  ',o[:160],'\n    impl ',a[:200],'\n    model',b[:200])
print('mismatches',n, 'lens',len(ops),len(imp),len(mod))
PY

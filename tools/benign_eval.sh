#!/bin/bash
# usage: tools/benign_eval.sh <name> <worktree> <property>...   — a behaviour-preserving refactoring must NOT raise an alarm
set -u
N=$1; WT=$2; shift 2
OUT=/verif/benign/$N; mkdir -p $OUT
cp $WT/seed_out/patch.diff $OUT/patch.diff; cp $WT/seed_out/meta.txt $OUT/agent_meta.txt; cp $WT/seed_out/demo.rs $OUT/demo.rs 2>/dev/null
cd /repo && git apply $OUT/patch.diff || { echo "patch does not apply"; exit 2; }
: > $OUT/check_results.txt
cd /verif
for p in "$@"; do
  ./check $p --tier quick > /tmp/.benign.out 2>&1; rc=$?
  echo "$p rc=$rc $(grep -E '^(OK|VIOLATION)' /tmp/.benign.out | tail -1)" | tee -a $OUT/check_results.txt
  if [ $rc -ne 0 ]; then grep -E "^BROKEN|^FAILING" /tmp/.benign.out | head -5 | cut -c1-300 | tee -a $OUT/check_results.txt; fi
done
cd /repo && git checkout -q -- .
rm -f /tmp/.benign.out

#!/usr/bin/env python3
"""tools/seed_meta.py <seed-name> <property> <needs> <detected_first:yes|no> [strengthening]
writes seeded/<seed-name>/meta.json from the files tools/seed_eval.sh left there."""
import sys, json, os, re
name, prop, needs, first = sys.argv[1:5]
stren = sys.argv[5] if len(sys.argv) > 5 else ""
d = "/verif/seeded/" + name
rd = lambda f: open(os.path.join(d, f)).read() if os.path.exists(os.path.join(d, f)) else ""
chk = rd("check_output.txt")
viol = [l for l in chk.splitlines() if l.startswith("VIOLATION")]
fail = [l for l in chk.splitlines() if l.startswith("FAILING-INPUT") or l.startswith("MISMATCH") or l.startswith("BROKEN")]
meta = {
    "property": prop,
    "seed": name,
    "what_it_needs_to_manifest": needs,
    "origin": "written by an independent sub-agent given only the property text and a scratch worktree of /repo",
    "confirmed_by_me": {
        "compiles_and_demo": "tools/seed_eval.sh: demo (tests/seed_demo.rs) FAILS with the patch and PASSES without it in the scratch worktree (demo_with_change.txt / demo_without_change.txt)",
        "existing_tests": "pinned suite re-run by me with the patch in a scratch worktree (4 tests outside the stable set skipped): " + rd("tests_with_change.txt").strip(),
        "check_run": "git -C /repo apply patch.diff; ./check %s --tier quick; git -C /repo checkout -- ." % prop,
    },
    "detected_by_first_version_of_check": first == "yes",
    "strengthening": stren,
    "final_result": {
        "check": (fail[0][:400] if fail else ("OK (missed)" if not viol else "")),
        "violation_line": viol[0] if viol else None,
    },
    "agent_description": rd("agent_meta.txt"),
}
json.dump(meta, open(os.path.join(d, "meta.json"), "w"), indent=1)
print(name, "detected" if viol else "MISSED", viol[:1])

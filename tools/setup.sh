#!/bin/sh
# offline build of the whole framework from files on disk
set -e
cd "$(dirname "$0")/.."
mkdir -p work evidence replays
(cd harness && CARGO_NET_OFFLINE=true cargo build --release --offline)
python3 tools/presteps.py all || true
(cd lean && lake build PMH pmhdriver)

#!/bin/bash
# usage: tools/seed_eval.sh <property> <seed-name> <worktree> [check-tier]
# confirms a seeded change (demo fails with / passes without; crate tests of touched modules pass),
# stores it under /verif/seeded/<seed-name>/ and runs the property's check against it in /repo.
set -u
P=$1; NAME=$2; WT=$3; TIER=${4:-quick}
OUT=/verif/seeded/$NAME
mkdir -p $OUT
cp $WT/seed_out/patch.diff $OUT/patch.diff
cp $WT/seed_out/demo.rs $OUT/demo.rs
cp $WT/seed_out/meta.txt $OUT/agent_meta.txt
export CARGO_NET_OFFLINE=true
cd $WT
git checkout -q -- src 2>/dev/null; git apply seed_out/patch.diff || { echo "patch does not apply"; exit 2; }
mkdir -p tests; cp seed_out/demo.rs tests/seed_demo.rs
DF=""; grep -q "verif_" seed_out/demo.rs && DF="--cfg probminhash_verif"   # demo uses the guarded hooks
echo "== demo WITH change"; RUSTFLAGS="$DF" cargo test --offline --test seed_demo 2>&1 | grep -E "^test |test result" | head -8 | tee $OUT/demo_with_change.txt
git checkout -q -- src
echo "== demo WITHOUT change"; RUSTFLAGS="$DF" cargo test --offline --test seed_demo 2>&1 | grep -E "^test |test result" | head -8 | tee $OUT/demo_without_change.txt
git apply seed_out/patch.diff
echo "== pinned test suite WITH change (the 4 tests outside the stable set skipped)"
rm -f tests/seed_demo.rs
cargo test --offline --lib -- --skip test_revoptdens_manybins_fnv_f64 --skip test_ordminhash2_p1 --skip test_ordminhash2_p2 --skip test_ordminhash2_p3 2>&1 | grep -E "test result|FAILED|failed" | head -8 | tee $OUT/tests_with_change.txt
echo "== check in /repo with the change ($P, $TIER)"
cd /repo && git apply $OUT/patch.diff || { echo "patch does not apply to /repo"; exit 2; }
cd /verif && ./check $P --tier $TIER > $OUT/check_output.txt 2>&1; RC=$?
tail -4 $OUT/check_output.txt
echo "check rc=$RC"
cd /repo && git checkout -q -- . 
echo "rc=$RC" >> $OUT/check_output.txt

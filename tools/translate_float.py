#!/usr/bin/env python3
"""Translate floating-point functions of /repo/src into Lean definitions, generic in the scalar type.

Run on every check of the properties that use them (C07: SetSketchParams::get_jaccard_bounds,
C16: ExpRestricted01::{new, sample}, C01/C02: the rate of ProbMinHash3 and the beta table of
ProbMinHash2), so that the theorems and the executable driver are about what the source says *now*.

Accepted Rust subset (anything else raises TErr -> reported as `translator_broken`):

  fn NAME [<generics>] ( params ) [-> T] { STMT* [EXPR] }
  STMT ::= let [mut] X [: T] = EXPR ;  |  X = EXPR ;  |  X (+=|-=|*=|/=) EXPR ;
         | assert!(EXPR [, ...]) ;     |  return EXPR ;
         | if EXPR { STMT* } [else { STMT* }]   |  loop { STMT* }
         | log::…!( … ) ; | trace!( … ) ; | debug!( … ) ;        (ignored: no effect on the result)
  EXPR ::= float / integer literal | X | self.FIELD | ( EXPR ) | ( EXPR , EXPR ) | - EXPR
         | EXPR (+|-|*|/) EXPR | EXPR (<|<=|>|>=) EXPR
         | EXPR . (powf|sqrt|max|min|exp|ln|exp_m1|ln_1p) ( [EXPR] )
         | rng.sample(self.FIELD) | self.FIELD.sample(rng) | rng.random::<f64>()   (one uniform draw on [0,1))
         | EXPR as f64
         | STRUCT { FIELD [: EXPR] , … }                                              (tail of `new`)

Translation scheme
  * mutable locals become shadowing `let`s; an `if` whose branches only assign joins the assigned
    variables in a tuple; an `if` whose branch returns gets the rest of the function as its `else`;
  * `loop { … }` becomes a separate function recursing on a fuel argument (`Err.fuel` at 0), carrying the
    locals that are read before being written in the body;
  * every uniform draw becomes `let (d, g) := next g` in evaluation order (Rust evaluates operands
    left to right); the function then returns `Except Err (value × G)`;
  * `assert!(c)` becomes `if ¬ c then .error (.assertFail site) else …`;
  * a literal `p.q` becomes the quotient of two naturals cast to the scalar (correctly rounded
    division of two exactly represented integers = the literal's value in IEEE arithmetic).
"""
import re, sys, os
from fractions import Fraction


class TErr(Exception):
    pass


TOK = re.compile(r"""\s*(?:
    (?P<num>\d[\d_]*\.\d*(?:[eE][+-]?\d+)?(?:_?f64|_?f32)?|\d[\d_]*(?:[eE][+-]?\d+)?(?:_?(?:f64|f32|usize|u64|u32|i64|i32))?)
  | (?P<id>[A-Za-z_][A-Za-z_0-9]*)
  | (?P<op>::|->|=>|<=|>=|==|!=|\+=|-=|\*=|/=|&&|\|\||[-+*/<>=!(){}\[\],;:.&?\#])
  | (?P<str>"(?:[^"\\]|\\.)*")
)""", re.X)


def strip_comments(s):
    s = re.sub(r"/\*.*?\*/", " ", s, flags=re.S)
    return re.sub(r"//[^\n]*", "", s)


def tokenize(s):
    s = strip_comments(s)
    pos, out = 0, []
    while True:
        while pos < len(s) and s[pos].isspace():
            pos += 1
        if pos >= len(s):
            break
        m = TOK.match(s, pos)
        if not m or m.end() == pos:
            raise TErr("cannot tokenize at: %r" % s[pos:pos + 40])
        for k in ("num", "id", "op", "str"):
            if m.group(k) is not None:
                out.append((k, m.group(k)))
        pos = m.end()
    return out


def find_fn(src, impl_pat, name):
    """source text of `fn name` inside the first impl block whose header matches impl_pat (or at top level)"""
    s = strip_comments(src)
    start = 0
    if impl_pat:
        m = re.search(impl_pat, s)
        if not m:
            raise TErr("impl block %r not found" % impl_pat)
        start = m.end()
    m = re.compile(r"\bfn\s+%s\b" % re.escape(name)).search(s, start)
    if not m:
        raise TErr("fn %s not found" % name)
    i = s.index("{", m.end())
    depth, j = 0, i
    while True:
        if s[j] == "{":
            depth += 1
        elif s[j] == "}":
            depth -= 1
            if depth == 0:
                break
        j += 1
    return s[m.start():j + 1]


# ---------------------------------------------------------------- parser -> AST (tuples)

class Parser:
    def __init__(self, toks):
        self.t, self.i = toks, 0

    def peek(self, k=0):
        return self.t[self.i + k] if self.i + k < len(self.t) else ("eof", None)

    def at(self, kind, val=None):
        k, v = self.peek()
        return k == kind and (val is None or v == val)

    def eat(self, kind=None, val=None):
        k, v = self.peek()
        if (kind and k != kind) or (val is not None and v != val):
            raise TErr("expected %s %s, got %s %r (token %d)" % (kind, val, k, v, self.i))
        self.i += 1
        return v

    def skip_balanced(self, open_, close):
        self.eat("op", open_)
        depth = 1
        while depth:
            k, v = self.peek()
            if k == "eof":
                raise TErr("unbalanced " + open_)
            if k == "op" and v == open_:
                depth += 1
            if k == "op" and v == close:
                depth -= 1
            self.i += 1

    def skip_type(self):
        """skip a type after ':' or '->' up to one of = , ) { ;  at depth 0"""
        depth = 0
        while True:
            k, v = self.peek()
            if k == "eof":
                raise TErr("eof in type")
            if k == "op" and v in "(<[":
                depth += 1
            elif k == "op" and v in ")>]":
                if depth == 0:
                    return
                depth -= 1
            elif k == "op" and depth == 0 and v in ("=", ",", "{", ";"):
                return
            self.i += 1

    # fn header
    def function(self):
        self.eat("id", "fn")
        name = self.eat("id")
        if self.at("op", "<"):
            depth = 0
            while True:
                k, v = self.peek()
                if k == "op" and v == "<":
                    depth += 1
                if k == "op" and v == ">":
                    depth -= 1
                self.i += 1
                if depth == 0:
                    break
        self.eat("op", "(")
        params = []
        while not self.at("op", ")"):
            if self.at("op", "&"):
                self.eat()
                if self.at("id", "mut"):
                    self.eat()
                params.append(self.eat("id"))        # self
            else:
                if self.at("id", "mut"):
                    self.eat()
                p = self.eat("id")
                params.append(p)
            if self.at("op", ":"):
                self.eat()
                self.skip_type()
            if self.at("op", ","):
                self.eat()
        self.eat("op", ")")
        self.rettype = None
        if self.at("op", "->"):
            self.eat()
            j = self.i
            self.skip_type()
            self.rettype = "".join(v for _, v in self.t[j:self.i])
        body = self.block()
        return name, params, body

    def block(self):
        self.eat("op", "{")
        stmts = []
        while not self.at("op", "}"):
            stmts.append(self.stmt())
        self.eat("op", "}")
        return stmts

    def macro_ignored(self):
        # log::debug!(..) ; trace!(..) ; debug!(..) ; println!(..)
        save = self.i
        names = []
        while self.at("id"):
            names.append(self.eat("id"))
            if self.at("op", "::"):
                self.eat()
            else:
                break
        if names and self.at("op", "!") and names[-1] in ("debug", "trace", "info", "warn", "error", "println", "eprintln", "log_enabled"):
            self.eat()
            self.skip_balanced("(", ")")
            if self.at("op", ";"):
                self.eat()
            return True
        self.i = save
        return False

    def stmt(self):
        if self.at("id", "let"):
            self.eat()
            if self.at("id", "mut"):
                self.eat()
            if self.at("op", "("):                      # let (x, y) = EXPR;
                self.eat()
                names = []
                while not self.at("op", ")"):
                    if self.at("id", "mut"):
                        self.eat()
                    names.append(self.eat("id"))
                    if self.at("op", ","):
                        self.eat()
                self.eat("op", ")")
                x = tuple(names)
            else:
                x = self.eat("id")
            if self.at("op", ":"):
                self.eat()
                self.skip_type()
            self.eat("op", "=")
            e = self.expr()
            self.eat("op", ";")
            return ("let", x, e)
        if self.at("id", "return"):
            self.eat()
            e = self.expr()
            self.eat("op", ";")
            return ("return", e)
        if self.at("id", "break"):
            self.eat()
            if self.at("op", ";"):
                raise TErr("`break` without a value")
            e = self.expr()
            self.eat("op", ";")
            return ("return", e)                         # the loop is the tail of the function: its value is the result
        if self.at("id", "if"):
            self.eat()
            c = self.expr(nostruct=True)
            a = self.block()
            b = []
            if self.at("id", "else"):
                self.eat()
                if self.at("id", "if"):
                    b = [self.stmt()]
                else:
                    b = self.block()
            return ("if", c, a, b)
        if self.at("id", "loop"):
            self.eat()
            return ("loop", self.block())
        if self.at("id", "assert") and self.peek(1) == ("op", "!"):
            self.eat(); self.eat()
            self.eat("op", "(")
            c = self.expr()
            while self.at("op", ","):       # message arguments
                self.eat()
                if self.at("str"):
                    self.eat()
                else:
                    self.expr()
            self.eat("op", ")")
            self.eat("op", ";")
            return ("assert", c)
        if self.macro_ignored():
            return ("skip",)
        # assignment or tail expression
        if self.at("id") and self.peek(1)[0] == "op" and self.peek(1)[1] in ("=", "+=", "-=", "*=", "/="):
            x = self.eat("id")
            op = self.eat("op")
            e = self.expr()
            self.eat("op", ";")
            if op != "=":
                e = ("bin", op[0], ("var", x), e)
            return ("assign", x, e)
        e = self.expr()
        if self.at("op", ";"):
            self.eat()
            return ("exprstmt", e)
        return ("tail", e)

    # expressions: comparison < additive < multiplicative < unary < cast < postfix
    def expr(self, nostruct=False):
        self.nostruct = nostruct
        return self.logic_or()

    def logic_or(self):
        e = self.logic_and()
        while self.at("op", "||"):
            self.eat()
            e = ("or", e, self.logic_and())
        return e

    def logic_and(self):
        e = self.comparison()
        while self.at("op", "&&"):
            self.eat()
            e = ("and", e, self.comparison())
        return e

    def comparison(self):
        e = self.additive()
        if self.at("op") and self.peek()[1] in ("<", "<=", ">", ">="):
            op = self.eat()
            r = self.additive()
            return ("cmp", op, e, r)
        return e

    def additive(self):
        e = self.multiplicative()
        while self.at("op") and self.peek()[1] in ("+", "-"):
            op = self.eat()
            e = ("bin", op, e, self.multiplicative())
        return e

    def multiplicative(self):
        e = self.unary()
        while self.at("op") and self.peek()[1] in ("*", "/"):
            op = self.eat()
            e = ("bin", op, e, self.unary())
        return e

    def unary(self):
        if self.at("op", "-"):
            self.eat()
            return ("neg", self.unary())
        if self.at("op", "!"):
            self.eat()
            return ("not", self.unary())
        return self.cast()

    def cast(self):
        e = self.postfix()
        while self.at("id", "as"):
            self.eat()
            ty = self.eat("id")
            e = ("cast", ty, e)
        return e

    def postfix(self):
        e = self.atom()
        while self.at("op", "."):
            self.eat()
            name = self.eat("id")
            if self.at("op", "::"):            # turbofish  .random::<f64>()
                self.eat()
                self.eat("op", "<"); self.skip_type(); self.eat("op", ">")
            if self.at("op", "("):
                self.eat()
                args = []
                while not self.at("op", ")"):
                    args.append(self.expr())
                    if self.at("op", ","):
                        self.eat()
                self.eat("op", ")")
                e = ("call", name, e, args)
            else:
                e = ("field", e, name)
        return e

    def value_block(self):
        """{ let …; … ; EXPR } used as a value"""
        self.eat("op", "{")
        lets = []
        while self.at("id", "let"):
            lets.append(self.stmt())
        e = self.expr()
        self.eat("op", "}")
        return (lets, e)

    def atom(self):
        k, v = self.peek()
        if k == "num":
            self.eat()
            return ("num", v)
        if k == "id" and v == "if":
            self.eat()
            c = self.expr(nostruct=True)
            a = self.value_block()
            self.eat("id", "else")
            if self.at("id", "if"):
                b = ([], self.atom())
            else:
                b = self.value_block()
            return ("ifexpr", c, a, b)
        if k == "op" and v == "(":
            self.eat()
            e = self.expr()
            if self.at("op", ","):
                items = [e]
                while self.at("op", ","):
                    self.eat()
                    if self.at("op", ")"):
                        break
                    items.append(self.expr())
                self.eat("op", ")")
                return ("tuple", items)
            self.eat("op", ")")
            return ("paren", e)
        if k == "id":
            self.eat()
            if self.at("op", "{") and v[0].isupper() and not getattr(self, "nostruct", False):
                self.eat()
                fields = []
                while not self.at("op", "}"):
                    f = self.eat("id")
                    if self.at("op", ":"):
                        self.eat()
                        fields.append((f, self.expr()))
                    else:
                        fields.append((f, ("var", f)))
                    if self.at("op", ","):
                        self.eat()
                self.eat("op", "}")
                return ("struct", v, fields)
            if self.at("op", "::"):            # path like f64::MAX or Uniform::<f64>::new(..) - opaque
                path = [v]
                while self.at("op", "::"):
                    self.eat()
                    if self.at("op", "<"):
                        self.eat(); self.skip_type(); self.eat("op", ">")
                    else:
                        path.append(self.eat("id"))
                if self.at("op", "("):
                    self.skip_balanced("(", ")")
                return ("opaque", "::".join(path))
            return ("var", v)
        raise TErr("unexpected token %s %r" % (k, v))


# ---------------------------------------------------------------- emitter

METHODS = {"powf": ("pow", 1), "sqrt": ("sqrt", 0), "max": ("max", 1), "min": ("min", 1),
           "exp": ("exp", 0), "ln": ("ln", 0), "exp_m1": ("expm1", 0), "ln_1p": ("ln1p", 0)}


def lit(v):
    v = re.sub(r"_?(f64|f32|usize|u64|u32|i64|i32)$", "", v).replace("_", "")
    fr = Fraction(v)
    if fr.denominator == 1:
        return "((%d : Nat) : F)" % fr.numerator
    return "(((%d : Nat) : F) / ((%d : Nat) : F))" % (fr.numerator, fr.denominator)


class Emit:
    """cfg: self_fields: {field: lean expr}, draw_fields: set of self fields that are uniform samplers,
    rng: name of the rng parameter (or None), ops: name of the ops parameter, site: string for Err"""

    def __init__(self, cfg):
        self.cfg = cfg
        self.ndraw = 0
        self.loops = []          # generated loop definitions
        self.uses_rng = False
        self.opaque_vars = set()
        self.helpers = {}        # rust name -> lean name
        self.helper_defs = []

    @staticmethod
    def subst(e, env):
        if isinstance(e, tuple):
            if e[0] == "var" and e[1] in env:
                return env[e[1]]
            return tuple(Emit.subst(x, env) if isinstance(x, (tuple, list)) else x for x in e)
        if isinstance(e, list):
            return [Emit.subst(x, env) for x in e]
        return e

    def inline_helper(self, name, args):
        """a private method whose body is `let`s followed by one expression and which takes the generator (e.g.
        `fn draw_unit(&self, rng) -> f64 { rng.sample(self.unit_range) }`): its body with the arguments substituted"""
        text = find_fn(self.cfg["helpers_from"], None, name)
        pz = Parser(tokenize(text))
        fname, params, body = pz.function()
        ps = [p for p in params if p != "self"]
        rng = self.cfg.get("rng")
        takes_rng = any(a == ("var", rng) for a in args) if rng else False
        if not takes_rng:
            return None                                  # pure helpers become definitions of their own (see `helper`)
        if len(ps) != len(args):
            raise TErr("helper %s: arity" % name)
        env = dict(zip(ps, args))
        for st in body[:-1]:
            if st[0] == "skip":
                continue
            if st[0] != "let" or isinstance(st[1], tuple):
                raise TErr("helper %s taking the generator is not `let`s + one expression" % name)
            env[st[1]] = ("paren", Emit.subst(st[2], env))
        last = body[-1]
        if last[0] not in ("tail", "return"):
            raise TErr("helper %s taking the generator has no value" % name)
        return ("paren", Emit.subst(last[1], env))

    def helper(self, name, nargs):
        """a private method of the same type called as self.NAME(args): translated to a pure definition"""
        if name in self.helpers:
            return self.helpers[name]
        text = find_fn(self.cfg["helpers_from"], None, name)
        pz = Parser(tokenize(text))
        fname, params, body = pz.function()
        ps = [p for p in params if p != "self"]
        if len(ps) != nargs:
            raise TErr("helper %s: arity" % name)
        rt = pz.rettype
        if rt == "bool":
            lty, kw = "Prop", "abbrev"
        elif rt in ("f64", "f32"):
            lty, kw = "F", "def"
        else:
            raise TErr("helper %s returns %s" % (name, rt))
        sub = Emit(dict(self.cfg, pure=True, rng=None))
        sub.helpers = self.helpers
        sub.helper_defs = self.helper_defs
        if rt == "bool" and all(st[0] in ("let", "skip") for st in body[:-1]) and body and body[-1][0] in ("tail", "return"):
            env = {}
            for st in body[:-1]:
                if st[0] == "let" and not isinstance(st[1], tuple):
                    env[st[1]] = ("paren", Emit.subst(st[2], env))
            body = [(body[-1][0], Emit.subst(body[-1][1], env))]
        lines = sub.stmts(body, lambda i: (_ for _ in ()).throw(TErr("helper %s falls off its end" % name)), ps, 1)
        lean = self.cfg["name"] + "_" + name
        self.helpers[name] = lean
        self.helper_defs.append("%s %s %s %s: %s :=\n%s" % (kw, lean, self.cfg["helper_binders"],
                                 ("(" + " ".join(ps) + " : F) ") if ps else "", lty, "\n".join(lines)))
        return lean

    def is_draw(self, e):
        rng = self.cfg.get("rng")
        if rng is None or e[0] != "call":
            return False
        _, name, recv, args = e
        if name == "sample" and recv == ("var", rng) and len(args) == 1:
            return True                          # rng.sample(self.unit_range)
        if name == "sample" and len(args) == 1 and args[0] == ("var", rng):
            return True                          # self.unit_range.sample(rng)
        if name in ("random", "gen") and recv == ("var", rng) and not args:
            return True
        return False

    def expr(self, e, pre):
        """Lean text of e; draws are appended to `pre` (list of lean let-lines) in evaluation order"""
        k = e[0]
        if k == "num":
            return lit(e[1])
        if k == "var":
            if e[1] in self.opaque_vars:
                raise TErr("use of %s, whose definition is outside the subset" % e[1])
            return e[1]
        if k == "paren":
            return self.expr(e[1], pre)
        if k == "neg":
            return "(-%s)" % self.expr(e[1], pre)
        if k == "bin":
            a = self.expr(e[2], pre)
            b = self.expr(e[3], pre)
            return "(%s %s %s)" % (a, e[1], b)
        if k == "cmp":
            a = self.expr(e[2], pre)
            b = self.expr(e[3], pre)
            op = e[1]
            if op == ">":
                return "(%s < %s)" % (b, a)
            if op == ">=":
                return "(%s ≤ %s)" % (b, a)
            return "(%s %s %s)" % (a, "≤" if op == "<=" else "<", b)
        if k == "ifexpr":
            c = self.expr(e[1], pre)
            def blk(b):
                lets, v = b
                n0 = len(pre)
                parts = []
                for st in lets:
                    pat = "(" + ", ".join(st[1]) + ")" if isinstance(st[1], tuple) else st[1]
                    parts.append("let %s := %s" % (pat, self.expr(st[2], pre)))
                parts.append(self.expr(v, pre))
                if len(pre) != n0:
                    raise TErr("uniform draw inside an if-expression branch")
                return "(" + "; ".join(parts) + ")"
            return "(if %s then %s else %s)" % (c, blk(e[2]), blk(e[3]))
        if k == "or":
            return "(%s ∨ %s)" % (self.expr(e[1], pre), self.expr(e[2], pre))
        if k == "and":
            return "(%s ∧ %s)" % (self.expr(e[1], pre), self.expr(e[2], pre))
        if k == "not":
            return "(¬ %s)" % self.expr(e[1], pre)
        if k == "field":
            if e[1] == ("var", "self"):
                m = self.cfg["self_fields"]
                if e[2] not in m:
                    raise TErr("self.%s is not a mapped field" % e[2])
                return m[e[2]]
            raise TErr("field access on non-self")
        if k == "cast":
            if e[1] in ("f64", "f32"):
                ie = self.int_expr(e[2])
                if ie is not None:
                    return "((%s : Nat) : F)" % ie         # integer expression (usize) converted to the scalar
                return self.expr(e[2], pre)
            raise TErr("cast to %s" % e[1])
        if k == "call":
            if self.is_draw(e):
                self.uses_rng = True
                d = "d%d" % self.ndraw
                self.ndraw += 1
                pre.append("let (%s, g) := next g" % d)
                return d
            _, name, recv, args = e
            if name in METHODS:
                f, n = METHODS[name]
                if len(args) != n:
                    raise TErr("%s takes %d argument(s)" % (name, n))
                r = self.expr(recv, pre)
                a = [self.expr(x, pre) for x in args]
                return "(%s.%s %s)" % (self.cfg["ops"], f, " ".join([r] + a))
            if recv == ("var", "self") and self.cfg.get("helpers_from") is not None:
                inl = self.inline_helper(name, args)
                if inl is not None:
                    return self.expr(inl, pre)
                h = self.helper(name, len(args))
                a = [self.expr(x, pre) for x in args]
                return "(%s %s)" % (h, " ".join([self.cfg["helper_prefix_args"]] + a).strip())
            raise TErr("method .%s is outside the subset" % name)
        if k == "tuple":
            return "(" + ", ".join(self.expr(x, pre) for x in e[1]) + ")"
        raise TErr("expression kind %s outside the subset" % k)

    def int_expr(self, e):
        """Lean `Nat` text of an expression over the configured integer variables (usize: `-` is truncated subtraction in
        the model; the code would panic on underflow in a debug build), or None"""
        iv = self.cfg.get("int_vars", ())
        k = e[0]
        if k == "num":
            return e[1] if re.fullmatch(r"\d+(_?usize|_?u64)?", e[1]) else None
        if k == "var":
            return e[1] if e[1] in iv else None
        if k == "paren":
            r = self.int_expr(e[1])
            return None if r is None else "(%s)" % r
        if k == "bin" and e[1] in "+-*":
            a, b = self.int_expr(e[2]), self.int_expr(e[3])
            return None if a is None or b is None else "(%s %s %s)" % (a, e[1], b)
        return None

    # --- helpers on statement lists
    @staticmethod
    def assigned(stmts):
        out = []
        for s in stmts:
            if s[0] == "assign" and s[1] not in out:
                out.append(s[1])
            if s[0] == "if":
                for x in Emit.assigned(s[2]) + Emit.assigned(s[3]):
                    if x not in out:
                        out.append(x)
        return out

    @staticmethod
    def declared(stmts):
        return [s[1] for s in stmts if s[0] == "let"]

    @staticmethod
    def returns(stmts):
        for s in stmts:
            if s[0] in ("return", "tail"):
                return True
            if s[0] == "if" and (Emit.returns(s[2]) or Emit.returns(s[3])):
                return True
            if s[0] == "loop":
                return True
        return False

    @staticmethod
    def reads(e, acc):
        if isinstance(e, tuple):
            if e[0] == "var":
                acc.add(e[1])
            for x in e[1:]:
                if isinstance(x, (tuple, list)):
                    Emit.reads(x, acc)
        elif isinstance(e, list):
            for x in e:
                Emit.reads(x, acc)
        return acc

    def carried(self, body, scope):
        """locals of the enclosing scope read in the loop body before being (unconditionally) written"""
        written, car = set(), []
        def visit(stmts, written):
            for s in stmts:
                if s[0] in ("let", "assign"):
                    for v in Emit.reads(s[2], set()):
                        if v in scope and v not in written and v not in car:
                            car.append(v)
                    for nm in (s[1] if isinstance(s[1], tuple) else (s[1],)):
                        written.add(nm)
                elif s[0] == "if":
                    for v in Emit.reads(s[1], set()):
                        if v in scope and v not in written and v not in car:
                            car.append(v)
                    visit(s[2], set(written)); visit(s[3], set(written))
                elif s[0] in ("return", "tail", "assert", "exprstmt"):
                    for v in Emit.reads(s[1], set()):
                        if v in scope and v not in written and v not in car:
                            car.append(v)
                elif s[0] == "loop":
                    visit(s[1], set(written))
        visit(body, written)
        # a variable assigned in the body and live in the next iteration is also carried: covered because
        # it is then read before written at the start of the next iteration (same body).
        return car

    def ret(self, val):
        if self.cfg.get("pure"):
            return val
        if self.cfg.get("rng") is not None:
            return ".ok (%s, g)" % val
        return ".ok %s" % val

    def stmts(self, ss, k, scope, ind):
        """Lean lines for statement list ss followed by continuation k (a function ind -> lines)"""
        pad = "  " * ind
        if not ss:
            return k(ind)
        s, rest = ss[0], ss[1:]
        kind = s[0]
        if kind == "skip":
            return self.stmts(rest, k, scope, ind)
        if kind in ("let", "assign"):
            pre = []
            try:
                v = self.expr(s[2], pre)
            except TErr:
                if kind == "let" and not pre and self.cfg.get("lenient_lets") and not isinstance(s[1], tuple):
                    self.opaque_vars.add(s[1])       # e.g. `let unit_range = Uniform::new(0., 1.).unwrap();`
                    return self.stmts(rest, k, scope, ind)
                raise
            pat = "(" + ", ".join(s[1]) + ")" if isinstance(s[1], tuple) else s[1]
            lines = [pad + p for p in pre] + [pad + "let %s := %s" % (pat, v)]
            return lines + self.stmts(rest, k, scope + (list(s[1]) if isinstance(s[1], tuple) else [s[1]]), ind)
        if kind == "assert":
            pre = []
            c = self.expr(s[1], pre)
            lines = [pad + p for p in pre]
            lines.append(pad + "if ¬ %s then .error (.assertFail \"%s\") else" % (c, self.cfg["site"]))
            return lines + self.stmts(rest, k, scope, ind)
        if kind in ("return", "tail"):
            pre = []
            if s[1][0] == "struct":
                m = self.cfg.get("struct_fields")
                fs = []
                for f, e in s[1][2]:
                    if m is not None and f not in m:
                        continue
                    fs.append("%s := %s" % (f, self.expr(e, pre)))
                v = "{ " + ", ".join(fs) + " }"
            else:
                v = self.expr(s[1], pre)
            return [pad + p for p in pre] + [pad + self.ret(v)]
        if kind == "exprstmt":
            raise TErr("expression statement outside the subset")
        if kind == "if":
            _, c, a, b = s
            pre = []
            cc = self.expr(c, pre)
            lines = [pad + p for p in pre]
            if not Emit.returns(a) and not Emit.returns(b):
                vs = [x for x in Emit.assigned(a) + Emit.assigned(b) if x in scope]
                vs = list(dict.fromkeys(vs))
                if not vs:
                    return lines + self.stmts(rest, k, scope, ind)
                tup = "(" + ", ".join(vs) + ")" if len(vs) > 1 else vs[0]
                def branch(bl):
                    n0 = self.ndraw
                    body = self.stmts(bl, lambda i: ["  " * i + tup], scope, 0)
                    if self.ndraw != n0:
                        raise TErr("uniform draw inside a joining if-branch")
                    return "(" + "; ".join(x.strip() for x in body) + ")" if len(body) > 1 else body[0].strip()
                lines.append(pad + "let %s := if %s then %s else %s" % (tup, cc, branch(a), branch(b)))
                return lines + self.stmts(rest, k, scope, ind)
            # at least one branch leaves the function: the rest of the list is the continuation of the other
            if Emit.returns(a) and not Emit.returns(b) and self.always_returns(a):
                lines.append(pad + "if %s then" % cc)
                lines += self.stmts(a, k, scope, ind + 1)
                lines.append(pad + "else")
                return lines + self.stmts(b + rest, k, scope, ind)
            # general case: duplicate the continuation
            lines.append(pad + "if %s then" % cc)
            lines += self.stmts(a + rest, k, scope, ind + 1)
            lines.append(pad + "else")
            lines += self.stmts(b + rest, k, scope, ind + 1)
            return lines
        if kind == "loop":
            if rest:
                raise TErr("statements after `loop` (unreachable in the subset)")
            body = s[1]
            car = self.carried(body, scope)
            name = self.cfg["name"] + "_loop%d" % (len(self.loops) + 1)
            args = " ".join(car)
            call = "%s %s f%s%s" % (name, self.cfg["call_prefix"], " g" if self.cfg.get("rng") else "", (" " + args) if car else "")
            inner = self.stmts(body, lambda i: ["  " * i + call], scope, 2)
            pat_vars = (["g"] if self.cfg.get("rng") else []) + car
            hdr = []
            hdr.append("def %s %s : Nat → %s%s :=" % (name, self.cfg["binders"],
                       "".join(("G → " if v == "g" else "F → ") for v in pat_vars), self.cfg["rettype"]))
            hdr.append("  fun fuel %s => match fuel with" % " ".join(pat_vars) if pat_vars else "  fun fuel => match fuel with")
            hdr.append("  | 0 => .error (.fuel \"%s\")" % self.cfg["site"])
            hdr.append("  | f + 1 =>")
            self.loops.append("\n".join(hdr + inner))
            start = "%s %s %d%s%s" % (name, self.cfg["call_prefix"], self.cfg["fuel"], " g" if self.cfg.get("rng") else "", (" " + args) if car else "")
            return [pad + start]
        raise TErr("statement kind %s" % kind)

    @staticmethod
    def always_returns(ss):
        if not ss:
            return False
        s = ss[-1]
        if s[0] in ("return", "tail", "loop"):
            return True
        if s[0] == "if":
            return Emit.always_returns(s[2]) and Emit.always_returns(s[3])
        return False


def translate_fn(src, cfg):
    text = find_fn(src, cfg.get("impl"), cfg["fn"])
    name, params, body = Parser(tokenize(text)).function()
    em = Emit(cfg)
    scope = [p for p in params if p not in ("self", cfg.get("rng"))]
    def fallthrough(i):
        raise TErr("function %s can fall off its end" % name)
    lines = em.stmts(body, fallthrough, scope, 1)
    out = list(em.helper_defs) + list(em.loops)
    out.append("def %s %s : %s :=\n%s" % (cfg["name"], cfg["binders_top"], cfg["rettype_top"], "\n".join(lines)))
    return "\n\n".join(out), {"fn": cfg["fn"], "draw_sites": em.ndraw, "loops": len(em.loops), "statements": count(body),
                                "helpers": sorted(em.helpers)}, sorted(em.helpers.values())


def count(ss):
    n = 0
    for s in ss:
        n += 1
        if s[0] == "if":
            n += count(s[2]) + count(s[3])
        if s[0] == "loop":
            n += count(s[1])
    return n


CTX = "variable {F : Type} [Add F] [Sub F] [Mul F] [Div F] [Neg F] [LT F] [DecidableLT F] [LE F] [DecidableLE F] [NatCast F]"

RATE = r"let\s+lambda\s*=\s*(.*?);"
TARGETS = {
    "PmhConstGen": {
        "files": ["/repo/src/probminhasher/probminhash3.rs", "/repo/src/probminhasher/probminhash3sha.rs", "/repo/src/probminhasher/probminhash2.rs"],
        "imports": ["PMH.Model.Exp01"],
        "fns": [
            {"file": "/repo/src/probminhasher/probminhash3.rs", "impl": r"impl<D, H>\s+ProbMinHash3<D, H>", "fn": "new", "name": "pmh3Lambda", "pattern": RATE,
             "ops": "o", "self_fields": {}, "rng": None, "site": "ProbMinHash3::new", "int_vars": ("nbhash",),
             "binders_top": "(o : ExpOps F) (nbhash : Nat)", "rettype_top": "F"},
            {"file": "/repo/src/probminhasher/probminhash3.rs", "impl": r"impl<D, H>\s+ProbMinHash3a<D, H>", "fn": "new", "name": "pmh3aLambda", "pattern": RATE,
             "ops": "o", "self_fields": {}, "rng": None, "site": "ProbMinHash3a::new", "int_vars": ("nbhash",),
             "binders_top": "(o : ExpOps F) (nbhash : Nat)", "rettype_top": "F"},
            {"file": "/repo/src/probminhasher/probminhash3sha.rs", "impl": r"impl<D>\s+ProbMinHash3aSha<D>", "fn": "new", "name": "pmh3aShaLambda", "pattern": RATE,
             "ops": "o", "self_fields": {}, "rng": None, "site": "ProbMinHash3aSha::new", "int_vars": ("nbhash",),
             "binders_top": "(o : ExpOps F) (nbhash : Nat)", "rettype_top": "F"},
            {"file": "/repo/src/probminhasher/probminhash2.rs", "impl": r"impl<D, H>\s+ProbMinHash2<D, H>", "fn": "new", "name": "pmh2Beta",
             "pattern": r"let\s+betas\s*:\s*Vec<f64>\s*=\s*\(0\.\.nbhash\)\s*\.map\(\|x\|\s*(.*?)\)\s*\.collect\(\)\s*;",
             "ops": "o", "self_fields": {}, "rng": None, "site": "ProbMinHash2::new", "int_vars": ("nbhash", "x"),
             "binders_top": "(nbhash x : Nat)", "rettype_top": "F"},
        ],
    },
    "JaccardBoundsGen": {
        "file": "/repo/src/setsketcher.rs",
        "imports": ["PMH.Model.JaccardBounds"],
        "fns": [{
            "impl": r"impl\s+SetSketchParams\s*\{", "fn": "get_jaccard_bounds", "name": "jaccardBounds",
            "ops": "o", "self_fields": {"b": "b"}, "rng": None, "site": "get_jaccard_bounds: jac <= 1",
            "binders_top": "(o : BOps F) (b jac : F)", "rettype_top": "Except Err (F × F)",
        }],
    },
    "Exp01Gen": {
        "file": "/repo/src/exp01.rs",
        "imports": ["PMH.Model.Exp01"],
        "fns": [{
            "impl": r"impl\s+ExpRestricted01\s*\{", "fn": "new", "name": "exp01New", "pure": True,
            "ops": "o", "self_fields": {}, "rng": None, "site": "ExpRestricted01::new",
            "struct_fields": ["lambda", "c1", "c2", "c3"], "lenient_lets": True,
            "binders_top": "(o : ExpOps F) (lambda : F)", "rettype_top": "Exp01 F",
        }, {
            "impl": r"impl\s+Distribution<f64>\s+for\s+ExpRestricted01\s*\{", "fn": "sample", "name": "exp01Sample",
            "ops": "o", "self_fields": {"lambda": "e.lambda", "c1": "e.c1", "c2": "e.c2", "c3": "e.c3"},
            "rng": "rng", "site": "exp01 rejection loop", "fuel": 10000,
            "binders": "{G : Type} (o : ExpOps F) (e : Exp01 F) (next : G → F × G)", "call_prefix": "o e next",
            "helper_binders": "(o : ExpOps F) (e : Exp01 F)", "helper_prefix_args": "o e",
            "rettype": "Except Err (F × G)",
            "binders_top": "{G : Type} (o : ExpOps F) (e : Exp01 F) (next : G → F × G) (g : G)", "rettype_top": "Except Err (F × G)",
        }],
    },
}


def translate_snippet(src, cfg):
    """one expression cut out of a function body by a regular expression (group 1), e.g. the right-hand side of `let lambda = …;`"""
    text = find_fn(src, cfg.get("impl"), cfg["fn"])
    m = re.search(cfg["pattern"], text, re.S)
    if not m:
        raise TErr("pattern for %s not found in fn %s" % (cfg["name"], cfg["fn"]))
    pz = Parser(tokenize(m.group(1)))
    e = pz.expr()
    if pz.peek()[0] != "eof":
        raise TErr("trailing tokens in the expression of %s" % cfg["name"])
    em = Emit(cfg)
    pre = []
    v = em.expr(e, pre)
    if pre:
        raise TErr("draw inside a constant expression")
    return "def %s %s : %s :=\n  %s" % (cfg["name"], cfg["binders_top"], cfg["rettype_top"], v), {"fn": cfg["fn"], "expression": cfg["name"]}, []


def translate(target):
    t = TARGETS[target]
    if "files" in t:
        return translate_multi(target)
    src = open(t["file"]).read()
    parts, info = [], []
    helpers = []
    for cfg in t["fns"]:
        cfg = dict(cfg)
        if "helper_binders" in cfg:
            cfg["helpers_from"] = src
        txt, inf, hs = translate_fn(src, cfg)
        parts.append(txt)
        info.append(inf)
        helpers += hs
    # tactic that unfolds the generated helper definitions (used by Proofs/GenEq.lean whatever their names are)
    parts.append("/-- unfolds the helper definitions generated from private methods of the Rust type -/\n"
                 "macro \"gen_unfold_%s\" : tactic => `(tactic| simp only [%s])" % (target, ", ".join(helpers) if helpers else "id"))
    head = "".join("import %s\n" % i for i in t["imports"])
    head += "/-! GENERATED by tools/translate_float.py from %s on every check - do not edit. -/\n" % t["file"]
    head += "set_option linter.unusedVariables false\nnamespace PMH.Gen\nopen PMH\n%s\n\n" % CTX
    return head + "\n\n".join(parts) + "\n\nend PMH.Gen\n", info


def translate_multi(target):
    t = TARGETS[target]
    parts, info = [], []
    for cfg in t["fns"]:
        src = open(cfg["file"]).read()
        txt, inf, _ = translate_snippet(src, cfg)
        parts.append(txt)
        inf["source"] = cfg["file"]
        info.append(inf)
    head = "".join("import %s\n" % i for i in t["imports"])
    head += "/-! GENERATED by tools/translate_float.py from %s on every check - do not edit. -/\n" % ", ".join(t["files"])
    head += "set_option linter.unusedVariables false\nnamespace PMH.Gen\nopen PMH\n%s\n\n" % CTX
    return head + "\n\n".join(parts) + "\n\nend PMH.Gen\n", info


if __name__ == "__main__":
    for tg in (sys.argv[1:] or list(TARGETS)):
        txt, info = translate(tg)
        print(txt)
        print("--", info, file=sys.stderr)

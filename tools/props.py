"""Per-property configuration of the checks (what to build, audit, and run)."""

TB_COMMON = [
    "Lean 4.33.0 kernel (+ leanchecker re-check in the thorough tier)",
    "Mathlib v4.33.0 as a library of checked theorems",
    "axioms: propext, Classical.choice, Quot.sound only (audited by #print axioms on every property theorem)",
    "hand-written Lean model tied to /repo by the correspondence run (harness generators, canonical encoding, diff)",
]

PROPS = {
    "C15": {
        "module": "PMH.Props.C15",
        "level_text": "full: every clause of C15 is a Lean theorem about a branch-for-branch model of MaxValueTracker (refinement to the abstract map slot -> min offered since last reset; root = max of the slots and attained; is_update_possible iff below max; reset = new; neither assert fires), for every m >= 1 and every finite op sequence; the model is run against the real tracker on random op sequences comparing all 2m-1 nodes after every op",
        "level_note": "trusted: Lean kernel, Mathlib order lemmas, the hand-written model + correspondence harness; f64 '<' modelled as a linear order (NaN excluded)",
        "rule": "random op sequences (update/reset/queries) over m in {1..9,16,33}, values from a 6-element pool, "
                "random doubles and decreasing sweeps; after every op all 2m-1 node values of the real tracker are "
                "compared with the model; a case is non-trivial if it has an improving update on m>1; distinct = "
                "distinct op-sequence hash",
        "trusted_base": TB_COMMON + ["f64 comparisons modelled by a linear order (no NaN is ever offered by callers)"],
        "assumptions": ["values are not NaN", "theorems are over an arbitrary linear order, executable model over IEEE doubles"],
        "theorems": ["PMH.C15.tracker_refines_spec", "PMH.C15.max_spec", "PMH.C15.possible_iff", "PMH.C15.c15_all"],
    },
    "C19": {
        "module": "PMH.Props.C19",
        "pre": ["translate_invhash"],
        "extra_axiom_pattern": r"\._native\.bv_decide\.ax_",
        "level_text": "full: the Lean definitions are regenerated from src/invhash.rs on every run (translator), and for them both round trips are theorems for all 2^32 / 2^64 values (per-statement inversion lemmas: xor-shift and add-shift steps by bv_decide, multiplication steps algebraically), hence bijectivity; the generated definitions are additionally diffed against the compiled Rust on structured and random values, and the thorough tier sweeps all 2^32 inputs of the 32-bit pair in both directions on the implementation",
        "level_note": "trusted: Lean kernel; bv_decide's LRAT checker (each call adds a `._native.bv_decide.ax_*` axiom, accepted for C19 only and listed in the evidence); tools/translate_invhash.py (Rust subset -> BitVec; cross-checked by the correspondence run); Rust wrapping_* semantics = BitVec arithmetic",
        "technique": "source-to-Lean translation of invhash.rs on every run + Lean 4 theorems (bv_decide per step, algebra for multiplications) + differential run",
        "rule": "structured 32/64-bit values (0, all-ones, single bits, 2^k+-1, masks at every shift amount of the code) plus random values; each value goes through hash and inverse in Rust and in the generated Lean definitions; non-trivial = every value other than 0/1; thorough adds the exhaustive 2^32 sweep and 2^28 random 64-bit values (implementation only)",
        "trusted_base": TB_COMMON[:1] + ["axioms: propext, Quot.sound, Classical.choice + one `._native.bv_decide.ax_*` per bv_decide call (compiled LRAT certificate checker)",
                          "tools/translate_invhash.py (model GENERATED from /repo/src/invhash.rs on every run)", "correspondence run generated-Lean vs compiled Rust"],
        "assumptions": ["Rust wrapping_add/sub/mul, <<, >>, ^, ! on u32/u64 are BitVec +,-,*,<<<,>>>,^^^,~~~"],
        "theorems": ["PMH.C19.int64_inverse_hash", "PMH.C19.int64_hash_inverse_id", "PMH.C19.int32_inverse_hash", "PMH.C19.int32_hash_inverse_id"],
    },
    "C17": {
        "module": "PMH.Props.C17",
        "level_text": "full in exact arithmetic: for the array-with-cursor model of FYshuffle and every in-range offset sequence: no index panic and the array stays a permutation (next_inv); from a block boundary m draws return each of 0..m-1 once and leave the state at a block boundary, so every further block is a permutation (block_is_perm); reset forgets everything and draws like new (reset_forgets, reset_like_new); offsets <-> orders is a bijection (exists-unique, offsets_bijective) hence uniform offsets give each of the m! orders equally often; floor(xsi*n) is in range and uniform for xsi uniform in [0,1). The real FYshuffle::next is driven by a scripted RngCore so model and code consume the same 64-bit words; every returned value and the whole array are compared after every draw.",
        "level_note": "trusted: Lean kernel, Mathlib list/perm/floor lemmas, hand-written model + correspondence; the f64 product xsi*(m-lastidx) is executed identically by model (Lean Float) and code and checked exhaustively at the only critical point xsi=1-2^-52; theorems are about the real-number floor",
        "rule": "scripted 64-bit words (0, 2^64-1 [xsi=1-2^-52], high-bit patterns, random) drive the real FYshuffle: 0..3m draws, reset, then >= 2m draws compared draw-by-draw with a fresh instance fed the same words (history independence) and with the model (value + whole array); plus Xoshiro256++/SplitMix64/Uniform<f64,f32,usize,u64> re-implementations against the crates; non-trivial = m>1; distinct = distinct script",
        "trusted_base": TB_COMMON + ["IEEE product xsi*n computed by the same hardware in model and code; theorem about the exact floor"],
        "assumptions": ["generator outputs are arbitrary 64-bit words (theorems quantify over all offset sequences in range)", "uniformity statement is relative to uniform offsets (ideal generator)"],
        "theorems": ["PMH.C17.next_inv", "PMH.C17.block_is_perm", "PMH.C17.reset_forgets", "PMH.C17.reset_like_new", "PMH.C17.offsets_bijective", "PMH.C17.floor_offset_lt"],
    },
    "C18": {
        "module": "PMH.Props.C18",
        "steps": ["miri_sig"],
        "level_text": "partial: faithfulness is proved (for the model of all ten Sig impls: length = width x len, bytes < 256, value -> bytes injective on the type's range, vectors = concatenation, String = UTF-8 bytes) and tied to the code by byte-exact correspondence on boundary/random values and vectors of 0..300 (thorough 20000) elements; the memory-safety clause cannot be a Lean theorem (heap ownership is outside the model) and rests on Miri over a mini-crate that #[path]-includes the real sig.rs plus child-process runs of the Vec<u16>/Vec<u32> impls - these are observations, not proofs",
        "level_note": "trusted: Lean kernel; model + correspondence; little-endian target (x86-64) for to_ne_bytes; Miri / process exit status for memory safety (testing, not proof)",
        "technique": "Lean 4 injectivity/length theorems over a model of sig.rs + byte-exact differential run + Miri on the included source",
        "rule": "boundary and random scalars of every width, fixed and random strings (1-4 byte code points), vectors of length 0,1,2,3,20,300 (thorough: up to 20000): bytes of the real impl vs the model; Vec<u16>/Vec<u32> run in a child process (a memory error aborts); non-trivial = all; distinct = distinct input",
        "trusted_base": TB_COMMON + ["Miri (nightly) for the memory-safety clause: an observation on the exercised inputs"],
        "not_mechanised": ["'never reads or frees memory it does not own' - checked by Miri and child-process exit status only"],
        "assumptions": ["little-endian target"],
        "theorems": ["PMH.C18.sigU16_inj", "PMH.C18.sigU32_inj", "PMH.C18.sigU64_inj", "PMH.C18.sigVecU16_inj", "PMH.C18.sigVecU32_inj", "PMH.C18.sigString_inj"],
    },
    "C14": {
        "module": "PMH.Props.C14",
        "level_text": "full for the six counting entry points (count = #equal positions, symmetric, identical => len/len, count <= len, mismatch => error never a prefix; quotient in [0,1]); partial for the MLE: argmin's golden-section search and get_mle are transcribed and agree BIT-FOR-BIT with the real code (values and panics) on real SetSketches; in exact arithmetic with a non-NaN likelihood get_mle neither aborts nor returns None and its value lies in [0,b_sup] within [0,1] (gss_contained, start_in_bracket, getMle_total). Not mechanised: that the IEEE likelihood is never NaN at every evaluated point.",
        "level_note": "trusted: Lean kernel, Mathlib field/order lemmas, model + correspondence; exact arithmetic replaces IEEE in the MLE theorems; argmin's executor/observer glue around the transcribed solver; rayon pool pinned to 1 thread in the harness so the cardinal estimates are reproducible",
        "rule": "counting: random vectors (len 1..300, value pool 1..4 so that equal positions are frequent, 1 in 5 with unequal lengths, 1 in 7 identical) through all six entry points and the two sketcher methods, result bits vs model; MLE: real SetSketcher<u16> pairs for b in {1.001,1.2,1.5,2} x m in {64,256(,1024,4096)} x {identical, disjoint, nested 1:2/1:10/1:100(/1:1000), overlaps, singletons}, returned bits vs transcribed solver, plus the range oracle; non-trivial = len>1 or any MLE case",
        "trusted_base": TB_COMMON + ["argmin 0.10 Executor glue (observer, KV) not modelled; solver init/next_iter/terminate and IterState::update transcribed and validated bit-for-bit"],
        "not_mechanised": ["IEEE: the likelihood is not NaN at every evaluated point (then best_param could be None)", "f32/f64 rounding of count/len (one correctly rounded division)"],
        "assumptions": ["MLE theorems: exact arithmetic, positive finite cardinal estimates"],
        "theorems": ["PMH.C14.countEq_comm", "PMH.C14.countEq_self", "PMH.C14.countEq_mismatch", "PMH.C14.countEq_ok", "PMH.C14.gss_contained", "PMH.C14.start_in_bracket", "PMH.C14.getMle_total"],
    },
    "C20": {
        "module": "PMH.Props.C20",
        "level_text": "partial: byte-level model of what dump_json writes and what reload_json accepts; theorems: reload(dump(p)) returns m, q exactly and the float tokens verbatim (parse_serialize), and EVERY proper prefix of a dumped file is rejected, for every parameter tuple and every cut point (prefix_rejected: the only closing brace is the last byte). Tied to the code by writing real dumps for random parameters (long decimal expansions, subnormal, 1e+-300, u64::MAX) and calling the real reload_json on the full file and on each of its prefixes (exhaustive per file): result class must equal the model's. The value clause for a,b (exact up to 15 digits, else <= 1 ulp) is an implementation-only oracle because float printing/parsing (ryu, serde_json) is external.",
        "level_note": "trusted: Lean kernel; model + correspondence; ryu/serde_json number formatting and parsing; 'a crash leaves a prefix of the file' is an assumption about BufWriter and the filesystem; NaN/inf parameters (written as null) are outside the property",
        "rule": "random parameter tuples (8 float classes x 4 m classes x 3 q classes); for each: dump, compare bytes with the model, reload, then truncate the file at EVERY byte offset 0..len-1 and reload again (catch_unwind); non-trivial = every dump case; distinct = distinct file contents",
        "trusted_base": TB_COMMON + ["ryu / serde_json float printing and parsing (external)", "filesystem + BufWriter: a crash during dump leaves a prefix"],
        "not_mechanised": ["value equality of a,b after reload (exact <= 15 digits, else within 1 ulp): checked by the harness oracle on every generated file, not a theorem"],
        "assumptions": ["finite a, b", "torn file = prefix of the complete file"],
        "theorems": ["PMH.C20.prefix_rejected", "PMH.C20.parse_serialize"],
    },
    "C02": {
        "module": "PMH.Props.C02",
        "level_text": "full in exact arithmetic: branch-for-branch models of ProbMinHash3::hash_item, the two-pass ProbMinHash3a/3aSha batch (first pass + rounds with in-place compaction) and ProbMinHash2::hash_item (lazy Fisher-Yates slots, betas, the i<m assert) are proved to REFINE the one-line specification 'position p holds the minimum over all points of all inserted pairs that land on p' (run_spec / run2_spec, by loop invariants: every pruned point is dominated because the tracker maximum bounds every register and the item's stream is monotone). Corollaries, each a theorem: registers are a function of the SET of (item,weight) pairs for any order, entry point, batching and repetition; signatures too under TieFree; ProbMinHash3 = ProbMinHash3a; re-insertion idempotent; scaling all weights by c>0 leaves populated positions unchanged; a position reached below the ceiling holds an inserted item (no placeholder / foreign item); union position = A's or B's and register = min. The executable models (own Xoshiro256++, ExpRestricted01, Uniform<usize>, Exp1 ziggurat) agree bit-for-bit with the real sketchers (signature AND registers) through hash_item / hash_wset / IndexMap / HashMap, 1-4 batches, FNV / NoHash / Sha512_256 seeds, six weight classes incl. 1e-290..1e300.",
        "level_note": "trusted: Lean kernel, Mathlib; model + correspondence; theorems assume exact arithmetic (ordered field), a total 'nice' per-item generator (samples in [0,1), positions < m) and histories that returned (fuel); IEEE overflow of race values for weights <= 1e-306 is outside (open known finding F9); hashers (FNV, Sha512_256) external",
        "rule": "weighted sets: n in {1,2,3,5,17,64,300(,2000)} x m in {2,3,4,7,16,64(,257,1024)} x 6 weight classes (equal, uniform, log-uniform 1e+-12, powers of two, one huge + many tiny, 1e-290..1e300); for each: variant 3 item-wise (FNV, NoHash), hash_wset, IndexMap, HashMap; 3a with 1-4 batches (IndexMap, HashMap); 3aSha; variant 2; signature and registers compared with the model; implementation-only oracles: permutation, re-insertion, 3 vs 3a, 2^k scaling, union, no placeholder; non-trivial = n>1; distinct = distinct op sequence",
        "trusted_base": TB_COMMON + ["exact arithmetic replaces IEEE in every theorem", "hashers FNV / NoHash / Sha512_256 (external; the harness calls the same crates)"],
        "not_mechanised": ["IEEE rounding/overflow (F9 open: weights <= 1e-306)", "termination (fuel): 'run returned' is a hypothesis; ProbMinHash2 assert!(i<m) never fires - not yet a theorem (returns error in the model, never observed)"],
        "assumptions": ["weights > 0", "per-item generator total and nice (C16 proves the range for the ExpRestricted01 model)"],
        "theorems": ["PMH.C02.run_spec", "PMH.C02.signature_function_of_set", "PMH.C02.pmh3_eq_pmh3a", "PMH.C02.reinsert_idempotent", "PMH.C02.holds_inserted_item", "PMH.C02.union_position", "PMH.C02.scale_invariant", "PMH.C02.run2_spec", "PMH.C02.pmh2_function_of_set"],
    },
}

"""Per-property configuration of the checks (what to build, audit, and run)."""

TB_COMMON = [
    "Lean 4.33.0 kernel (+ leanchecker re-check in the thorough tier)",
    "Mathlib v4.33.0 as a library of checked theorems",
    "axioms: propext, Classical.choice, Quot.sound only (audited by #print axioms on every property theorem)",
    "hand-written Lean model tied to /repo by the correspondence run (harness generators, canonical encoding, diff)",
]

PROPS = {
    "C15": {
        "module": "PMH.Props.C15",
        "level_text": "full: every clause of C15 is a Lean theorem about a branch-for-branch model of MaxValueTracker (refinement to the abstract map slot -> min offered since last reset; root = max of the slots and attained; is_update_possible iff below max; reset = new; neither assert fires), for every m >= 1 and every finite op sequence; the model is run against the real tracker on random op sequences comparing all 2m-1 nodes after every op",
        "level_note": "trusted: Lean kernel, Mathlib order lemmas, the hand-written model + correspondence harness; f64 '<' modelled as a linear order (NaN excluded)",
        "rule": "random op sequences (update/reset/queries) over m in {1..9,16,33}, values from a 6-element pool, "
                "random doubles and decreasing sweeps; after every op all 2m-1 node values of the real tracker are "
                "compared with the model; a case is non-trivial if it has an improving update on m>1; distinct = "
                "distinct op-sequence hash",
        "trusted_base": TB_COMMON + ["f64 comparisons modelled by a linear order (no NaN is ever offered by callers)"],
        "assumptions": ["values are not NaN", "theorems are over an arbitrary linear order, executable model over IEEE doubles"],
        "theorems": ["PMH.C15.tracker_refines_spec", "PMH.C15.max_spec", "PMH.C15.possible_iff", "PMH.C15.c15_all"],
    },
}

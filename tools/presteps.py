"""Property-specific generation / extra steps, called by check.py by name."""
import os, sys, subprocess
VERIF = os.path.dirname(os.path.dirname(os.path.abspath(__file__)))
sys.path.insert(0, os.path.join(VERIF, "tools"))


def translate_invhash(chk=None):
    """C19: regenerate PMH/Model/InvHashGen.lean from /repo/src/invhash.rs (written only if changed)."""
    import translate_invhash as T
    dst = os.path.join(VERIF, "lean", "PMH", "Model", "InvHashGen.lean")
    try:
        txt, nsteps = T.translate("/repo/src/invhash.rs")
    except T.TErr as e:
        return False, "translate_invhash.py: " + str(e)
    old = open(dst).read() if os.path.exists(dst) else None
    if old != txt:
        open(dst, "w").write(txt)
    if chk is not None:
        chk.cov["translator"] = {"source": "/repo/src/invhash.rs", "steps": nsteps, "regenerated": old != txt}
    return True, ""


if __name__ == "__main__":
    if len(sys.argv) > 1 and sys.argv[1] == "all":
        ok, d = translate_invhash()
        print("translate_invhash:", "ok" if ok else d)

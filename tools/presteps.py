"""Property-specific generation / extra steps, called by check.py by name."""
import os, sys, subprocess
VERIF = os.path.dirname(os.path.dirname(os.path.abspath(__file__)))
sys.path.insert(0, os.path.join(VERIF, "tools"))


def translate_invhash(chk=None):
    """C19: regenerate PMH/Model/InvHashGen.lean from /repo/src/invhash.rs (written only if changed)."""
    import translate_invhash as T
    dst = os.path.join(VERIF, "lean", "PMH", "Model", "InvHashGen.lean")
    try:
        txt, nsteps = T.translate("/repo/src/invhash.rs")
    except T.TErr as e:
        return False, "translate_invhash.py: " + str(e)
    old = open(dst).read() if os.path.exists(dst) else None
    if old != txt:
        open(dst, "w").write(txt)
    if chk is not None:
        chk.cov["translator"] = {"source": "/repo/src/invhash.rs", "steps": nsteps, "regenerated": old != txt}
    return True, ""


def _translate_float(target, chk):
    """regenerate PMH/Model/<target>.lean from the Rust source (written only if changed)"""
    import translate_float as T
    dst = os.path.join(VERIF, "lean", "PMH", "Model", target + ".lean")
    try:
        txt, info = T.translate(target)
    except T.TErr as e:
        return False, "translate_float.py (%s): %s" % (target, e)
    except Exception as e:      # a parser crash is a translator failure too
        return False, "translate_float.py (%s) crashed: %r" % (target, e)
    old = open(dst).read() if os.path.exists(dst) else None
    if old != txt:
        open(dst, "w").write(txt)
    if chk is not None:
        chk.cov.setdefault("translators", []).append({"source": T.TARGETS[target].get("file") or T.TARGETS[target].get("files"), "target": "PMH/Model/%s.lean" % target,
                                                      "functions": info, "regenerated": old != txt})
    return True, ""


def translate_jaccard_bounds(chk=None):
    """C07: Model/JaccardBoundsGen.lean from SetSketchParams::get_jaccard_bounds"""
    return _translate_float("JaccardBoundsGen", chk)


def translate_exp01(chk=None):
    """C16: Model/Exp01Gen.lean from ExpRestricted01::{new, sample}"""
    return _translate_float("Exp01Gen", chk)


def translate_pmh_constants(chk=None):
    """C01: Model/PmhConstGen.lean: the rate of ProbMinHash3/3a/3aSha and the beta table of ProbMinHash2, cut out of the constructors"""
    return _translate_float("PmhConstGen", chk)


def translate_shared(chk=None):
    """every property: the driver executes the generated definitions, so they are refreshed before it is built.
    A translator failure is fatal only for the properties that list the translator under `pre`; for the others the
    previous generated file stays and the correspondence run is what speaks."""
    for f in (translate_jaccard_bounds, translate_exp01, translate_pmh_constants):
        ok, d = f(None)
        if not ok and chk is not None:
            chk.cov.setdefault("translator_notes", []).append(d)
    return True, ""


if __name__ == "__main__":
    if len(sys.argv) > 1 and sys.argv[1] == "all":
        for f in (translate_invhash, translate_jaccard_bounds, translate_exp01, translate_pmh_constants):
            ok, d = f()
            print(f.__name__ + ":", "ok" if ok else d)


def miri_sig(chk):
    """C18: run the dependency-free mini-crate that `#[path]`-includes /repo/src/probminhasher/sig.rs
    natively and under Miri (memory-safety clause; an observation, not a proof)."""
    import time, json
    d = os.path.join(VERIF, "harness_sig")
    env = dict(os.environ, CARGO_NET_OFFLINE="true")
    t = time.time()
    p = subprocess.run(["cargo", "run", "--offline", "-q"], cwd=d, env=env, stdout=subprocess.PIPE, stderr=subprocess.STDOUT, text=True, timeout=600)
    native_ok = p.returncode == 0 and "sig_miri ok" in p.stdout
    if not native_ok:
        chk.failures.append({"kind": "impl_violates_property", "what": "harness_sig native run failed (wrong bytes, assertion or crash)",
                             "output": p.stdout[-800:], "replay": "cd /verif/harness_sig && cargo run --offline"})
    m = subprocess.run(["cargo", "+nightly", "miri", "run"], cwd=d, env=env, stdout=subprocess.PIPE, stderr=subprocess.STDOUT, text=True, timeout=1200)
    miri_ok = m.returncode == 0 and "sig_miri ok" in m.stdout
    chk.cov["miri"] = {"ran": True, "ok": miri_ok, "native_ok": native_ok, "wall_s": round(time.time() - t, 1)}
    if not miri_ok:
        ub = [l for l in m.stdout.splitlines() if "Undefined Behavior" in l or "error:" in l][:3]
        chk.failures.append({"kind": "impl_violates_property", "what": "Miri reports an error in a Sig implementation",
                             "miri": ub, "output_tail": m.stdout[-600:], "replay": "cd /verif/harness_sig && cargo +nightly miri run"})

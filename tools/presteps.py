"""Property-specific generation / extra steps, called by check.py by name."""

"""Property-specific generation / extra steps, called by check.py by name."""
import os, sys, subprocess
VERIF = os.path.dirname(os.path.dirname(os.path.abspath(__file__)))
sys.path.insert(0, os.path.join(VERIF, "tools"))


def translate_invhash(chk=None):
    """C19: regenerate PMH/Model/InvHashGen.lean from /repo/src/invhash.rs (written only if changed)."""
    import translate_invhash as T
    dst = os.path.join(VERIF, "lean", "PMH", "Model", "InvHashGen.lean")
    try:
        txt, nsteps = T.translate("/repo/src/invhash.rs")
    except T.TErr as e:
        return False, "translate_invhash.py: " + str(e)
    old = open(dst).read() if os.path.exists(dst) else None
    if old != txt:
        open(dst, "w").write(txt)
    if chk is not None:
        chk.cov["translator"] = {"source": "/repo/src/invhash.rs", "steps": nsteps, "regenerated": old != txt}
    return True, ""


if __name__ == "__main__":
    if len(sys.argv) > 1 and sys.argv[1] == "all":
        ok, d = translate_invhash()
        print("translate_invhash:", "ok" if ok else d)


def miri_sig(chk):
    """C18: run the dependency-free mini-crate that `#[path]`-includes /repo/src/probminhasher/sig.rs
    natively and under Miri (memory-safety clause; an observation, not a proof)."""
    import time, json
    d = os.path.join(VERIF, "harness_sig")
    env = dict(os.environ, CARGO_NET_OFFLINE="true")
    t = time.time()
    p = subprocess.run(["cargo", "run", "--offline", "-q"], cwd=d, env=env, stdout=subprocess.PIPE, stderr=subprocess.STDOUT, text=True, timeout=600)
    native_ok = p.returncode == 0 and "sig_miri ok" in p.stdout
    if not native_ok:
        chk.failures.append({"kind": "impl_violates_property", "what": "harness_sig native run failed (wrong bytes, assertion or crash)",
                             "output": p.stdout[-800:], "replay": "cd /verif/harness_sig && cargo run --offline"})
    m = subprocess.run(["cargo", "+nightly", "miri", "run"], cwd=d, env=env, stdout=subprocess.PIPE, stderr=subprocess.STDOUT, text=True, timeout=1200)
    miri_ok = m.returncode == 0 and "sig_miri ok" in m.stdout
    chk.cov["miri"] = {"ran": True, "ok": miri_ok, "native_ok": native_ok, "wall_s": round(time.time() - t, 1)}
    if not miri_ok:
        ub = [l for l in m.stdout.splitlines() if "Undefined Behavior" in l or "error:" in l][:3]
        chk.failures.append({"kind": "impl_violates_property", "what": "Miri reports an error in a Sig implementation",
                             "miri": ub, "output_tail": m.stdout[-600:], "replay": "cd /verif/harness_sig && cargo +nightly miri run"})

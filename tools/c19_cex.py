#!/usr/bin/env python3
"""C19: when a step lemma of Props/C19.lean no longer checks, `bv_decide` prints a counterexample for THAT STEP (an
intermediate state).  The other steps are still proved inverse to each other, so the intermediate state is lifted to an
input of the whole function by running the remaining (proved) steps of the generated model backwards, and the lifted
input is then evaluated on the real implementation.  Returns a list of failing inputs (dicts)."""
import re, os, subprocess, json

LEAN = "/verif/lean"
PROPS = os.path.join(LEAN, "PMH", "Props", "C19.lean")
HARNESS = "/verif/harness/target/release/pmh_harness"

def lift(lean_output):
    lines = open(PROPS).read().splitlines()
    found = []
    for m in re.finditer(r"C19\.lean:(\d+):\d+:(?: error:)? The prover found a counterexample, consider the following assignment:\s*\n\s*(\w+) = (\d+)#(\d+)", lean_output):
        ln, val, w = int(m.group(1)), int(m.group(3)), int(m.group(4))
        thm = None
        for i in range(min(ln, len(lines)) - 1, -1, -1):
            mm = re.match(r"theorem\s+([hg])(64|32)_(\d+)\b", lines[i])
            if mm:
                thm = mm
                break
        if not thm or int(thm.group(2)) != w:
            continue
        d, k = thm.group(1), int(thm.group(3))
        n = 7 if w == 64 else 6
        hs, inv = "int%d_hash" % w, "int%d_hash_inverse" % w
        if d == "h":   # inverse_step(n+1-k) (hash_step k y) = y fails at y: undo hash steps k-1 .. 1 with inverse steps n+2-k .. n
            chain = ["%s_step%d" % (inv, j) for j in range(n + 2 - k, n + 1)]
            role = "x"        # an input of the hash with inverse(hash(x)) != x
        else:          # hash_step k (inverse_step(n+1-k) y) = y fails at y: undo inverse steps with hash steps k+1 .. n
            chain = ["%s_step%d" % (hs, j) for j in range(k + 1, n + 1)]
            role = "h"        # a hash value with hash(inverse(h)) != h
        expr = "(%d#%d)" % (val, w)
        for f in chain:
            expr = "(%s %s)" % (f, expr)
        src = "import PMH.Model.InvHashGen\nopen PMH.InvHashGen\n#eval (%s).toNat\n" % expr
        tmp = os.path.join("/verif/work", "c19_cex.lean")
        open(tmp, "w").write(src)
        p = subprocess.run(["lake", "env", "lean", tmp], cwd=LEAN, capture_output=True, text=True, timeout=600)
        try:
            lifted = int(p.stdout.strip().splitlines()[-1])
        except Exception:
            continue
        q = subprocess.run([HARNESS, "ih-eval", str(w), str(lifted)], capture_output=True, text=True, timeout=60)
        try:
            ev = json.loads(q.stdout.strip().splitlines()[-1])
        except Exception:
            continue
        bad = ev["inverse_of_hash"] != ev["x"] or ev["hash_of_inverse"] != ev["x"]
        if bad:
            ev.update({"kind": "impl_violates_property", "what": "%d-bit pair is not inverse" % w,
                       "found_by": "bv_decide counterexample for step lemma %s%d_%d (intermediate state %d), lifted through the %d steps that still check and confirmed on the implementation" % (d, w, k, val, len(chain)),
                       "role": "key" if role == "x" else "hash value"})
            found.append(ev)
    return found

if __name__ == "__main__":
    import sys
    print(json.dumps(lift(open(sys.argv[1]).read()), indent=1))

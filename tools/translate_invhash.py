#!/usr/bin/env python3
"""Translate /repo/src/invhash.rs (four straight-line functions over u32/u64) into Lean `BitVec`
definitions.  Run on every C19 check, so the theorems of Props/C19.lean are re-checked against what
the source says *now*.

Accepted Rust subset (anything else is a translation error, reported as `translator_broken`):
  fn NAME(ARG: uN) -> uN { let mut V = E; [let mut T: uN = E;] (V = E; | V ^= E; | T = E;)* V }
  E ::= E ^ E | E >> n | E << n | !E | (E) | E.wrapping_add(E) | E.wrapping_sub(E) | E.wrapping_mul(E) | E.wrapping_shl(n) | E.wrapping_shr(n)
        | ident | integer literal (decimal or 0x.., `_` separators) [uN]          (Rust precedence: unary > method > shifts > ^)
  `let [mut] V = E;` for the main variable again (shadowing) counts as an assignment.

Output: for every function NAME a list of *steps* (one per assignment to the main variable, with the
temporaries assigned since the previous step inlined as `let`s) `NAME_step<i> : BitVec n → BitVec n`
and `NAME x := NAME_step<k> (… (NAME_step1 x))`.
"""
import re, sys, os

class TErr(Exception):
    pass

TOK = re.compile(r"\s*(?:(0x[0-9a-fA-F_]+|\d[\d_]*)(u32|u64)?|([A-Za-z_][A-Za-z_0-9]*)|(>>|<<|\^=|!=|==|<=|>=|[\^!().,;=:{}<>]|->))")

def tokenize(s):
    pos, out = 0, []
    s = s.strip()
    while pos < len(s):
        m = TOK.match(s, pos)
        if not m:
            raise TErr("cannot tokenize at: " + s[pos:pos + 30])
        if m.group(1) is not None:
            out.append(("num", int(m.group(1).replace("_", ""), 0)))
        elif m.group(3) is not None:
            out.append(("id", m.group(3)))
        else:
            out.append(("op", m.group(4)))
        pos = m.end()
    return out

class P:
    def __init__(self, toks, width):
        self.t, self.i, self.w = toks, 0, width
    def peek(self):
        return self.t[self.i] if self.i < len(self.t) else ("eof", None)
    def eat(self, kind=None, val=None):
        k, v = self.peek()
        if (kind and k != kind) or (val is not None and v != val):
            raise TErr("expected %s %s, got %s %s" % (kind, val, k, v))
        self.i += 1
        return v
    # precedence climbing: xor < shift < postfix(method) < unary
    def expr(self):
        e = self.shift()
        while self.peek() == ("op", "^"):
            self.eat()
            e = "(%s ^^^ %s)" % (e, self.shift())
        return e
    def shift(self):
        e = self.unary()
        while self.peek() in (("op", ">>"), ("op", "<<")):
            op = self.eat()
            k, v = self.peek()
            if k != "num":
                raise TErr("shift amount must be a literal")
            self.eat()
            if v >= self.w:
                raise TErr("shift amount %d >= width" % v)
            e = "(%s %s %d)" % (e, ">>>" if op == ">>" else "<<<", v)
        return e
    def unary(self):
        if self.peek() == ("op", "!"):
            self.eat()
            return "(~~~%s)" % self.unary()
        return self.postfix()
    def postfix(self):
        e = self.atom()
        while self.peek() == ("op", "."):
            self.eat()
            name = self.eat("id")
            self.eat("op", "(")
            a = self.expr()
            self.eat("op", ")")
            sym = {"wrapping_add": "+", "wrapping_sub": "-", "wrapping_mul": "*", "wrapping_shl": "<<<", "wrapping_shr": ">>>"}.get(name)
            if sym is None:
                raise TErr("unsupported method " + name)
            if sym in ("<<<", ">>>"):
                mm = re.fullmatch(r"(\d+)#\d+", a)
                if not mm or int(mm.group(1)) >= self.w:
                    raise TErr("wrapping shift amount must be a literal below the width")
                a = mm.group(1)
            e = "(%s %s %s)" % (e, sym, a)
        return e
    def atom(self):
        k, v = self.peek()
        if k == "num":
            self.eat()
            if v >= 2 ** self.w:
                raise TErr("literal out of range")
            return "%d#%d" % (v, self.w)
        if k == "id":
            self.eat()
            return v
        if (k, v) == ("op", "("):
            self.eat()
            e = self.expr()
            self.eat("op", ")")
            return e
        raise TErr("unexpected token %s %s" % (k, v))


def parse_cond(txt, width):
    """COND ::= E (== | != | < | <= | > | >=) E   ->  a Lean Bool"""
    toks = tokenize(txt)
    for i, (k, v) in enumerate(toks):
        if k == "op" and v in ("==", "!=", "<", "<=", ">", ">="):
            pl, pr = P(toks[:i], width), P(toks[i + 1:], width)
            a, b = pl.expr(), pr.expr()
            if pl.peek()[0] != "eof" or pr.peek()[0] != "eof":
                raise TErr("cannot parse condition: " + txt)
            return {"==": "(%s == %s)", "!=": "(%s != %s)", "<": "(BitVec.ult %s %s)", "<=": "(BitVec.ule %s %s)",
                    ">": "(BitVec.ult %s %s)", ">=": "(BitVec.ule %s %s)"}[v] % ((a, b) if v in ("==", "!=", "<", "<=") else (b, a))
    raise TErr("condition without comparison: " + txt)


def translate_fn(name, arg, width, body, mut_param=False):
    # strip comments
    body = re.sub(r"//[^\n]*", "", body)
    # `if COND { assignments to the running variable }` (no else, not nested) becomes ONE statement `__ifK`
    ifblocks = []
    def _grab(mo):
        ifblocks.append((mo.group(1), mo.group(2)))
        return "__if%d;" % (len(ifblocks) - 1)
    body = re.sub(r"\bif\s+([^{}]*?)\s*\{([^{}]*)\}", _grab, body)
    if re.search(r"\belse\b", body):
        raise TErr("`else` branches are not supported")
    stmts = [s.strip() for s in body.split(";")]
    tail = stmts[-1]
    stmts = [s for s in stmts[:-1] if s]
    main = arg if mut_param else None   # `fn f(mut key: uN)`: the parameter itself is the running variable
    steps, pending, assigned_tmp = [], [], set()
    for s in stmts:
        mi = re.fullmatch(r"__if(\d+)", s)
        if mi:
            if main is None:
                raise TErr("`if` before the running variable is bound")
            cond_txt, inner = ifblocks[int(mi.group(1))]
            cond = parse_cond(cond_txt, width)
            for v in set(re.findall(r"\b([A-Za-z_]\w*)\b", re.sub(r"BitVec\.\w+", "", cond))):
                if v != main and v not in assigned_tmp:
                    raise TErr("condition reads %s, which is not assigned in its step" % v)
            lets = []
            for st in [x.strip() for x in inner.split(";") if x.strip()]:
                mm = re.match(r"(?:let\s+(?:mut\s+)?)?(\w+)\s*(?::\s*u\d+)?\s*(\^=|=)\s*(.*)$", st, re.S)
                if not mm:
                    raise TErr("unsupported statement inside `if`: " + st)
                pp = P(tokenize(mm.group(3)), width)
                ee = pp.expr()
                if pp.peek()[0] != "eof":
                    raise TErr("trailing tokens in: " + st)
                if mm.group(2) == "^=":
                    ee = "(%s ^^^ %s)" % (mm.group(1), ee)
                lets.append("let %s : BitVec %d := %s" % (mm.group(1), width, ee))   # temporaries or the running variable
            e = "(if %s then (%s; %s) else %s)" % (cond, "; ".join(lets), main, main) if lets else main
            steps.append((list(pending), e))
            pending, assigned_tmp = [], set()
            continue
        if re.fullmatch(r"let\s+(?:mut\s+)?\w+\s*(?::\s*u\d+)?", s):
            continue   # declaration without initialiser
        m = re.match(r"let\s+(?:mut\s+)?(\w+)\s*(?::\s*u(\d+))?\s*=\s*(.*)$", s, re.S)
        if m:
            var, w, rhs = m.group(1), m.group(2), m.group(3)
            if w and int(w) != width:
                raise TErr("width mismatch in " + s)
            if main is None:
                if rhs.strip() != arg:
                    raise TErr("first statement must copy the argument: " + s)
                main = var
                continue
            target, op = var, "="   # (a `let` of the main variable again = shadowing = assignment)
        else:
            m = re.match(r"(\w+)\s*(\^=|=)\s*(.*)$", s, re.S)
            if not m:
                raise TErr("unsupported statement: " + s)
            target, op, rhs = m.group(1), m.group(2), m.group(3)
        p = P(tokenize(rhs), width)
        e = p.expr()
        if p.peek()[0] != "eof":
            raise TErr("trailing tokens in: " + s)
        if op == "^=":
            e = "(%s ^^^ %s)" % (target, e)
        ids = set(re.findall(r"\b([A-Za-z_]\w*)\b", e))
        for v in ids:
            if v == main:
                continue
            if v not in assigned_tmp:
                raise TErr("temporary %s read before assignment within its step: %s" % (v, s))
        if target == main:
            steps.append((list(pending), e))
            pending, assigned_tmp = [], set()
        else:
            pending.append((target, e))
            assigned_tmp.add(target)
    if tail.strip() != main:
        # tail expression `E` instead of `key = E; key`: one more step
        p = P(tokenize(tail), width)
        e = p.expr()
        if p.peek()[0] != "eof":
            raise TErr("trailing tokens in the tail expression: " + tail)
        for v in set(re.findall(r"\b([A-Za-z_]\w*)\b", e)):
            if v != main and v not in assigned_tmp:
                raise TErr("tail expression reads %s, which is not assigned in its step" % v)
        steps.append((list(pending), e))
        pending = []
    if pending:
        raise TErr("temporaries assigned after the last step")
    out = []
    for i, (lets, e) in enumerate(steps, 1):
        out.append("def %s_step%d (%s : BitVec %d) : BitVec %d :=" % (name, i, main, width, width))
        for (t, te) in lets:
            out.append("  let %s : BitVec %d := %s" % (t, width, te))
        out.append("  %s" % e)
        out.append("")
    comp = "x"
    for i in range(1, len(steps) + 1):
        comp = "%s_step%d (%s)" % (name, i, comp)
    out.append("def %s (x : BitVec %d) : BitVec %d := %s" % (name, width, width, comp))
    out.append("")
    return "\n".join(out), len(steps)


def translate(src_path):
    src = open(src_path).read()
    src = src.split("#[cfg(test)]")[0]
    fns = re.findall(r"pub fn (\w+)\((mut\s+)?(\w+): u(\d+)\) -> u(\d+) \{(.*?)\n\}", src, re.S)
    names = [f[0] for f in fns]
    need = ["int64_hash", "int64_hash_inverse", "int32_hash", "int32_hash_inverse"]
    for n in need:
        if n not in names:
            raise TErr("function %s not found in %s" % (n, src_path))
    out = ["/-! GENERATED by tools/translate_invhash.py from src/invhash.rs — do not edit. -/",
           "namespace PMH.InvHashGen", ""]
    nsteps = {}
    for name, mutarg, arg, w1, w2, body in fns:
        if name not in need:
            continue
        if w1 != w2:
            raise TErr("argument/return width differ in " + name)
        txt, k = translate_fn(name, arg, int(w1), body, mut_param=bool(mutarg))
        nsteps[name] = k
        out.append(txt)
    out.append("end PMH.InvHashGen")
    return "\n".join(out) + "\n", nsteps


if __name__ == "__main__":
    src = sys.argv[1] if len(sys.argv) > 1 else "/repo/src/invhash.rs"
    try:
        txt, n = translate(src)
    except TErr as e:
        print("TRANSLATION ERROR:", e)
        sys.exit(1)
    if len(sys.argv) > 2:
        open(sys.argv[2], "w").write(txt)
    else:
        sys.stdout.write(txt)
    print("-- steps:", n, file=sys.stderr)

#!/usr/bin/env python3
"""Orchestration of one property check.

  ./check Cxx [--tier quick|thorough] [--replay FILE]

Steps (see DESIGN.md section 2/9):
  1. rebuild the Rust harness against /repo's current working tree (hooks on)
  2. property-specific generation steps (C19: translate src/invhash.rs to Lean)
  3. `lake build` of the property's theorem module (+ the model driver): the kernel re-checks the proofs
  4. axiom audit (`#print axioms` of every property theorem) and forbidden-token scan
  5. correspondence: real code vs executable Lean model on the same generated inputs, plus the
     implementation-only property oracles of the harness
  6. verdict, evidence file, replay file
"""
import json, os, re, subprocess, sys, time, hashlib, shutil

VERIF = os.path.dirname(os.path.dirname(os.path.abspath(__file__)))
LEAN = os.path.join(VERIF, "lean")
HARNESS = os.path.join(VERIF, "harness")
WORK = os.path.join(VERIF, "work")
REPLAYS = os.path.join(VERIF, "replays")
EVID = os.path.join(VERIF, "evidence")
ENV = dict(os.environ, CARGO_NET_OFFLINE="true")
STD_AXIOMS = {"propext", "Classical.choice", "Quot.sound"}

sys.path.insert(0, os.path.join(VERIF, "tools"))
from props import PROPS  # per-property configuration


def run(cmd, cwd=None, timeout=3600, stdin=None, stdout=None):
    t = time.time()
    p = subprocess.run(cmd, cwd=cwd, env=ENV, shell=isinstance(cmd, str), stdin=stdin,
                       stdout=stdout if stdout else subprocess.PIPE, stderr=subprocess.STDOUT,
                       timeout=timeout, text=True if not stdout else None)
    return p.returncode, (p.stdout if not stdout else ""), time.time() - t


def lake(args, timeout=3600):
    os.makedirs(WORK, exist_ok=True)
    return run(["flock", os.path.join(WORK, ".lake.lock"), "lake"] + args, cwd=LEAN, timeout=timeout)


def load_known():
    """known_findings.txt: `open: property=Cxx key=<key> <text>` / `fixed: property=Cxx <commit> <text>`"""
    opened, fixed = [], []
    path = os.path.join(VERIF, "known_findings.txt")
    if os.path.exists(path):
        for l in open(path):
            l = l.strip()
            if not l or l.startswith("#"):
                continue
            m = re.match(r"open:\s+property=(\S+)\s+key=(\S+)\s+(.*)", l)
            if m:
                opened.append({"property": m.group(1), "key": m.group(2), "text": m.group(3)})
                continue
            m = re.match(r"fixed:\s+property=(\S+)\s+(\S+)\s+(.*)", l)
            if m:
                fixed.append({"property": m.group(1), "commit": m.group(2), "text": m.group(3)})
    return opened, fixed


class Check:
    def __init__(self, pid, tier, seed):
        self.pid, self.tier, self.seed = pid, tier, seed
        self.cfg = PROPS[pid]
        self.t0 = time.time()
        self.broken = []        # (kind, name, detail) : proof / correspondence / build obligations that no longer check
        self.failures = []      # concrete failing inputs (implementation violates the property)
        self.known_lines = []
        self.cov = {}
        self.notes = []
        self.workdir = os.path.join(WORK, pid)
        os.makedirs(self.workdir, exist_ok=True)

    # ---- steps -------------------------------------------------------------------------------
    def build_harness(self):
        rc, out, dt = run(["cargo", "build", "--release", "--offline"], cwd=HARNESS)
        self.cov["harness_build_s"] = round(dt, 1)
        if rc != 0:
            self.broken.append(("build_broken", "harness build against /repo (cfg probminhash_verif)", out[-3000:]))
            self.harness_ok = False
            return False
        self.harness_ok = True
        return True

    def pre_steps(self):
        for name in ["translate_shared"] + self.cfg.get("pre", []):
            fn = getattr(__import__("presteps"), name)
            ok, detail = fn(self)
            if not ok:
                self.broken.append(("translator_broken", name, detail))
                return False
        return True

    def build_lean(self):
        targets = [self.cfg["module"]] + self.cfg.get("extra_targets", [])
        if self.tier == "thorough":
            # re-elaborate this property's own theorem module and its audit from scratch (the library underneath is
            # tracked by lake's content hashes and re-checked by leanchecker below); wiping the whole library would
            # only make the next check of another property slow
            mod_rel = self.cfg["module"].replace(".", os.sep)
            for ext in (".olean", ".ilean", ".trace", ".olean.hash", ".ilean.hash"):
                try: os.remove(os.path.join(LEAN, ".lake", "build", "lib", "lean", mod_rel + ext))
                except OSError: pass
        rc, out, dt = lake(["build", "pmhdriver"])
        self.driver_ok = rc == 0
        if rc != 0:
            errs = [l for l in out.splitlines() if "error" in l][:12]
            self.broken.append(("correspondence_broken", "lake build pmhdriver (executable model)", "\n".join(errs) or out[-2000:]))
        rc, out, dt2 = lake(["build"] + targets)
        self.cov["lake_build_s"] = round(dt + dt2, 1)
        if rc != 0:
            # which theorem failed? first "error:" lines
            errs = [l for l in out.splitlines() if "error" in l][:12]
            self.broken.append(("proof_broken", "lake build " + self.cfg["module"], "\n".join(errs) or out[-2000:]))
            if self.pid == "C19":
                # the prover's own counterexample for the failing step, lifted to an input and run on the implementation
                try:
                    import c19_cex
                    for f in c19_cex.lift(out):
                        self.failures.append(f)
                except Exception as e:
                    self.cov["c19_counterexample_lift"] = "failed: %s" % e
            return False
        if self.tier == "thorough":
            rc, out, dt = lake(["env", "leanchecker", self.cfg["module"]])
            self.cov["leanchecker_s"] = round(dt, 1)
            self.cov["leanchecker_rc"] = rc
            if rc != 0:
                self.broken.append(("proof_broken", "leanchecker " + self.cfg["module"], out[-2000:]))
                return False
        return True

    def audit(self):
        """`#print axioms` on every theorem listed in PMH/Audit/<id>.lean."""
        audit_file = os.path.join("PMH", "Audit", self.pid + ".lean")
        rc, out, dt = lake(["env", "lean", audit_file])
        self.cov["audit_s"] = round(dt, 1)
        if rc != 0:
            self.broken.append(("proof_broken", "axiom audit " + audit_file, out[-2000:]))
            return False
        # parse "'name' depends on axioms: [a, b]" (may wrap lines) / "'name' does not depend on any axioms"
        text = out.replace("\n", " ")
        thms = {}
        for m in re.finditer(r"'([^']+)' depends on axioms: \[([^\]]*)\]", text):
            thms[m.group(1)] = [a.strip() for a in m.group(2).split(",") if a.strip()]
        for m in re.finditer(r"'([^']+)' does not depend on any axioms", text):
            thms[m.group(1)] = []
        expected = self.cfg.get("theorems")
        src = open(os.path.join(LEAN, audit_file)).read()
        listed = re.findall(r"^#print axioms\s+(\S+)", src, re.M)
        missing = [t for t in listed if t not in thms]
        if missing:
            self.broken.append(("proof_broken", "audit: theorem(s) not found: " + ", ".join(missing), out[-1500:]))
        bad = {}
        allow_pat = self.cfg.get("extra_axiom_pattern")
        for t, axs in thms.items():
            for a in axs:
                if a in STD_AXIOMS:
                    continue
                if allow_pat and re.search(allow_pat, a):
                    continue
                bad.setdefault(t, []).append(a)
        if bad:
            self.broken.append(("proof_broken", "audit: unexpected axioms", json.dumps(bad)))
        if expected is not None:
            lacking = [t for t in expected if t not in thms]
            if lacking:
                self.broken.append(("proof_broken", "audit: required theorem(s) missing: " + ", ".join(lacking), ""))
        # forbidden tokens outside comments in the Lean sources this property uses
        rc2, out2, _ = run("grep -rnE 'sorry|admit|^axiom |native_decide|implemented_by|unsafe |maxHeartbeats 0' "
                           "--include=*.lean PMH | grep -v -E '^[^:]+:[0-9]+:\\s*(--|/-)' || true", cwd=LEAN)
        hits = [l for l in out2.splitlines() if l.strip() and not re.search(r":\s*--", l)]
        hits = [l for l in hits if "Model/Scalar.lean" not in l]  # extern opaques documented there
        if hits:
            self.broken.append(("proof_broken", "forbidden token in Lean sources", "\n".join(hits[:10])))
        self.cov["obligations"] = len(listed)
        self.cov["discharged"] = len([t for t in listed if t in thms and t not in bad])
        self.cov["theorems"] = listed
        axset = sorted({a for axs in thms.values() for a in axs})
        self.cov["axioms_used"] = axset
        return not missing and not bad

    def correspondence(self):
        if not self.cfg.get("corr", True):
            return True
        exe = os.path.join(HARNESS, "target", "release", "pmh_harness")
        t = time.time()
        rc, out, dt = run([exe, "corr", self.pid, "--seed", str(self.seed), "--tier", self.tier,
                           "--out", self.workdir], cwd=VERIF, timeout=self.cfg.get("corr_timeout", 3000))
        hang = os.path.join(self.workdir, "hang.json")
        if rc == 4 and os.path.exists(hang):
            # the watchdog ended the run: a call into the code under test did not return
            self.failures.append(json.load(open(hang)))
            self.broken.append(("correspondence_broken", "harness stopped by its watchdog: a call did not return", open(hang).read()))
            return False
        if rc != 0:
            self.broken.append(("correspondence_broken", "harness corr run aborted (rc=%d)" % rc, out[-2000:]))
            return False
        summ = json.load(open(os.path.join(self.workdir, "summary.json")))
        ops, imp, mod = (os.path.join(self.workdir, n) for n in ("ops.txt", "impl.txt", "model.txt"))
        drv = os.path.join(LEAN, ".lake", "build", "bin", "pmhdriver")
        with open(ops) as fin, open(mod, "w") as fout:
            p = subprocess.run([drv], stdin=fin, stdout=fout, stderr=subprocess.PIPE, timeout=3000)
        if p.returncode != 0:
            self.broken.append(("correspondence_broken", "pmhdriver aborted", p.stderr.decode()[-1500:]))
            return False
        # diff, reporting the case the first mismatches belong to
        nmis, first = 0, []
        cur_case = ""
        with open(ops) as fo, open(imp) as fi, open(mod) as fm:
            for n, (o, i, m_) in enumerate(zip(fo, fi, fm), 1):
                if o.startswith("case "):
                    cur_case = o.strip()
                if i != m_:
                    nmis += 1
                    if len(first) < 5:
                        first.append({"line": n, "case": cur_case, "op": o.strip()[:400],
                                      "impl": i.strip()[:400], "model": m_.strip()[:400]})
        nl = [sum(1 for _ in open(f)) for f in (ops, imp, mod)]
        if len(set(nl)) != 1:
            nmis += 1
            first.append({"line": min(nl), "case": "", "op": "(stream lengths differ)", "impl": str(nl[1]), "model": str(nl[2])})
        self.cov["correspondence_s"] = round(time.time() - t, 1)
        self.cov["evaluations"] = summ["evaluations"]
        self.cov["distinct_nontrivial"] = summ["distinct_nontrivial"]
        self.cov["compared_lines"] = summ["lines"]
        self.cov["samples"] = summ["samples"]
        self.cov["histogram"] = summ["histogram"]
        self.cov["traces_validated_against_impl"] = summ["evaluations"]
        if summ.get("extra"):
            self.cov["extra"] = summ["extra"]
        if nmis:
            self.broken.append(("model_impl_disagreement", "correspondence %s: %d differing lines" % (self.pid, nmis),
                                json.dumps(first, indent=1)))
        elif sum(os.path.getsize(f) for f in (ops, imp, mod)) > 64 * 1024 * 1024:
            # clean run with large streams (thorough tier): nothing to inspect, free the disk
            for f in (ops, imp, mod):
                os.remove(f)
        # implementation-only oracle failures = concrete failing inputs
        opened, _ = load_known()
        for f in summ["oracle_failures"]:
            key = f.get("key", "")
            k = [o for o in opened if o["property"] == self.pid and o["key"] == key]
            if k:
                line = "KNOWN-FINDING: property=%s %s" % (self.pid, k[0]["text"])
                if line not in self.known_lines:
                    self.known_lines.append(line)
            else:
                self.failures.append(f)
        return nmis == 0

    def search(self):
        """a proof obligation or the correspondence broke and no failing input is in hand yet: search the
        IMPLEMENTATION (thorough-tier oracles of this property, model not consulted) for a concrete one"""
        exe = os.path.join(HARNESS, "target", "release", "pmh_harness")
        if not os.path.exists(exe) or not self.cfg.get("corr", True):
            return
        wd = self.workdir + "_search"
        os.makedirs(wd, exist_ok=True)
        try:
            rc, out, dt = run([exe, "corr", self.pid, "--seed", str(self.seed), "--tier", "thorough", "--out", wd],
                              cwd=VERIF, timeout=self.cfg.get("search_timeout", 1500))
        except Exception as e:  # timeout: nothing found in the budget
            self.cov["search"] = "timed out: %s" % e
            return
        if rc != 0:
            self.cov["search"] = "search run aborted rc=%d" % rc
            return
        summ = json.load(open(os.path.join(wd, "summary.json")))
        opened, _ = load_known()
        found = 0
        for f in summ["oracle_failures"]:
            if [o for o in opened if o["property"] == self.pid and o["key"] == f.get("key", "")]:
                continue
            f = dict(f); f["found_by"] = "search (thorough-tier implementation oracles after a broken obligation)"
            self.failures.append(f); found += 1
        self.cov["search"] = "thorough oracles: %d evaluations, %d failing inputs" % (summ["evaluations"], found)
        for n in ("ops.txt", "impl.txt", "model.txt"):
            try: os.remove(os.path.join(wd, n))
            except OSError: pass

    def extra_steps(self):
        for name in self.cfg.get("steps", []):
            fn = getattr(__import__("presteps"), name)
            fn(self)

    # ---- verdict -----------------------------------------------------------------------------
    def finish(self):
        wall = time.time() - self.t0
        os.makedirs(EVID, exist_ok=True)
        os.makedirs(REPLAYS, exist_ok=True)
        violation = bool(self.broken or self.failures)
        cov = dict(self.cov)
        cov.setdefault("obligations", 0)
        cov.setdefault("discharged", 0)
        cov.setdefault("evaluations", 0)
        cov.setdefault("distinct_nontrivial", 0)
        cov.setdefault("samples", [])
        cov["rule"] = self.cfg.get("rule", "")
        cov["checker_cmd"] = "cd lean && lake build %s && lake env lean PMH/Audit/%s.lean" % (self.cfg["module"], self.pid) + \
            (" && lake env leanchecker %s" % self.cfg["module"] if self.tier == "thorough" else "")
        cov["trusted_base"] = self.cfg.get("trusted_base", [])
        cov["not_mechanised"] = self.cfg.get("not_mechanised", [])
        cov["exhaustive"] = False
        ev = {
            "property_id": self.pid, "tier": self.tier, "seed": self.seed,
            "level": self.cfg.get("level", "proof"),
            "coverage": cov,
            "assumptions": self.cfg.get("assumptions", []),
            "wall_s": round(wall, 1),
            "violations": len(self.failures) + len(self.broken),
            "known_findings_reported": self.known_lines,
        }
        json.dump(ev, open(os.path.join(EVID, self.pid + ".json"), "w"), indent=1)
        for l in self.known_lines:
            print(l)
        if not violation:
            print("OK property=%s tier=%s seed=%d obligations=%d/%d evaluations=%d wall=%.1fs" % (
                self.pid, self.tier, self.seed, cov["discharged"], cov["obligations"], cov["evaluations"], wall))
            return 0
        rp = os.path.join(REPLAYS, "%s-%s-%d.json" % (self.pid, self.tier, self.seed))
        replay = {
            "property": self.pid, "seed": self.seed, "tier": self.tier,
            "replay_cmd": "VERIF_SEED=%d ./check %s --tier %s" % (self.seed, self.pid, self.tier),
            "broken_obligations": [{"kind": k, "name": n, "detail": d} for k, n, d in self.broken],
            "failing_inputs": self.failures,
        }
        json.dump(replay, open(rp, "w"), indent=1)
        for k, n, d in self.broken:
            print("BROKEN %s: %s" % (k, n))
            for dl in d.splitlines()[:15]:
                print("   | " + dl)
        for f in self.failures[:5]:
            print("FAILING-INPUT " + json.dumps(f)[:600])
        suffix = "" if self.failures else " no-failing-input-found"
        print("VIOLATION property=%s replay=%s%s" % (self.pid, rp, suffix))
        return 1


def main():
    args = sys.argv[1:]
    if not args:
        print(__doc__)
        return 2
    pid = args[0]
    tier = os.environ.get("VERIF_TIER", "quick")
    replay = None
    i = 1
    while i < len(args):
        if args[i] == "--tier":
            tier = args[i + 1]; i += 1
        elif args[i] == "--replay":
            replay = args[i + 1]; i += 1
        i += 1
    seed = int(os.environ.get("VERIF_SEED", "1"))
    if replay:
        r = json.load(open(replay))
        seed, tier = r.get("seed", seed), r.get("tier", tier)
    if pid not in PROPS:
        print("unknown property", pid)
        return 2
    c = Check(pid, tier, seed)
    ok = c.build_harness()
    ok = c.pre_steps() and ok
    lean_ok = c.build_lean()
    if lean_ok:
        c.audit()
    if ok and getattr(c, "driver_ok", False):
        c.correspondence()
    if ok:
        c.extra_steps()
    if c.broken and not c.failures and c.harness_ok:
        c.search()
    return c.finish()


if __name__ == "__main__":
    sys.exit(main())
